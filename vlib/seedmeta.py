#!/usr/bin/env python3
"""seedmeta.py ID 'needs to manifest' 'result'  - write seeded/<ID>/meta.json"""
import json, sys, os
k, n, r = sys.argv[1:4]
p = os.path.join(os.path.dirname(os.path.dirname(os.path.abspath(__file__))), 'seeded', k, 'meta.json')
json.dump({"property": k[:3], "id": k, "origin": "independent sub-agent given only the property text and a scratch worktree",
           "needs_to_manifest": n, "checks_run": "./seedtest seeded/%s" % k, "result": r}, open(p, 'w'), indent=1)
