#!/venv/bin/python
"""Regenerate /verif/MANIFEST.json from the props modules that exist.

Each props module carries its own manifest text (TECHNIQUE, LEVEL_TEXT, LEVEL_NOTE,
ENGINE, DESIGN_REF); properties without a module are listed under not_applicable with the
reason kept in NOT_CLAIMED below.
"""
import ast
import glob
import json
import os
import sys

HERE = os.path.dirname(os.path.dirname(os.path.abspath(__file__)))

NOT_CLAIMED = {}   # property id -> reason (filled only for properties that are deliberately not claimed)

BASELINE_CMD = ("cd /repo && /venv/bin/python -m pytest -ra -q -p no:cacheprovider --timeout=900 "
                "--continue-on-collection-errors")

ENGINES = [
    {"name": "spec", "path": "/verif/spec", "kind_free_text":
     "independent reference codecs/models (never import the driver): CQL value codec, native-protocol frame parser/encoder, "
     "v5 segments + CRCs, murmur3/md5 tokens, replica placement, CQL lexer; used as oracles by input-driven monitors"},
    {"name": "sim", "path": "/verif/sim", "kind_free_text":
     "deterministic world: the real Cluster/Session/pools/Connection/ResponseFuture run single-threaded over an in-memory "
     "Connection subclass, a scripted wire-level node, a virtual clock and a seeded/enumerating schedule chooser; histories are "
     "recorded at the client and node boundary and checked offline"},
    {"name": "stress", "path": "/verif/sim/stress.py", "kind_free_text":
     "real threads + sys.monitoring LINE-event yield injection restricted to the functions under test"},
    {"name": "native", "path": "/verif/native", "kind_free_text":
     "offline Cython/C build of a scratch copy of the working tree, plain and ASan+UBSan; differential monitor compiled vs pure"},
]


def attrs_of(path):
    out = {}
    with open(path) as f:
        tree = ast.parse(f.read())
    for node in tree.body:
        if isinstance(node, ast.Assign) and len(node.targets) == 1 and isinstance(node.targets[0], ast.Name):
            try:
                out[node.targets[0].id] = ast.literal_eval(node.value)
            except Exception:
                pass
    return out


def main():
    props = [json.loads(l) for l in open(os.path.join(HERE, "properties.jsonl"))]
    ids = [p["id"] for p in props]
    checks, na = [], []
    serves = {e["name"]: [] for e in ENGINES}
    claimed = set(open(os.path.join(HERE, "vlib", "claimed.txt")).read().split())
    for pid in ids:
        hits = sorted(glob.glob(os.path.join(HERE, "props", pid.lower() + "_*.py")))
        if not hits or pid in NOT_CLAIMED or pid not in claimed:
            na.append({"property_id": pid, "reason": NOT_CLAIMED.get(
                pid, "monitor not built yet in this session (designed in DESIGN.md section 5); not claimed until its check exists and is silent on the unchanged tree")})
            continue
        a = attrs_of(hits[0])
        if a.get("CLAIMED", True) is False:
            na.append({"property_id": pid, "reason": a.get("NOT_CLAIMED_REASON", "check under construction")})
            continue
        eng = a.get("ENGINE", "spec")
        for e in eng.split("+"):
            serves.setdefault(e, []).append(pid)
        checks.append({
            "property_id": pid,
            "quick_cmd": "./check %s --tier quick" % pid,
            "thorough_cmd": "./check %s --tier thorough" % pid,
            "evidence_file": "/verif/evidence/%s.json" % pid,
            "replay_cmd_template": "./check %s --replay {path}" % pid,
            "engine": eng,
            "level_claimed": {
                "category": a.get("LEVEL", "exploration"),
                "text": a.get("LEVEL_TEXT", "runtime monitor over generated executions of the real code; held on what was observed"),
                "design_ref": "DESIGN.md section 5, %s" % pid,
            },
            "level_note": a.get("LEVEL_NOTE", "trusted base: the oracle code under /verif/spec and the harness; the interpreter"),
            "technique": a.get("TECHNIQUE", "runtime monitoring: generated workload + independent oracle over observed executions"),
        })
    engines = []
    for e in ENGINES:
        d = dict(e)
        d["serves_properties"] = serves.get(e["name"], [])
        engines.append(d)
    man = {
        "version": 1,
        "setup_cmd": "/venv/bin/python /verif/vlib/setup.py",
        "hooks": {
            "guard": "CASSANDRA_DRIVER_VERIF",
            "enable": "no source hooks: all instrumentation is applied from /verif at import time (subclassing, module-attribute "
                      "substitution, lock wrappers, sys.monitoring); checks export CASSANDRA_DRIVER_VERIF=1 for uniformity",
            "baseline_off_cmd": BASELINE_CMD,
            "source_commits": [],
            "add_only": True,
        },
        "engines": engines,
        "checks": checks,
        "not_applicable": na,
        "notes": "Technique family: runtime monitoring and sanitizers. Every check runs the real code of /repo's working tree "
                 "(VERIF_REPO/--repo overrides) under a generated workload and decides with an oracle over what it observed. "
                 "Exit 0 held / 1 VIOLATION / 2 inconclusive. Known findings: /verif/known_findings.json.",
    }
    with open(os.path.join(HERE, "MANIFEST.json"), "w") as f:
        json.dump(man, f, indent=1)
        f.write("\n")
    print("claimed %d, not claimed %d" % (len(checks), len(na)))
    try:
        import jsonschema
        jsonschema.validate(man, json.load(open("/root/.vp/MANIFEST.schema.json")))
        print("schema ok")
    except ImportError:
        pass


if __name__ == "__main__":
    sys.exit(main())
