#!/usr/bin/env python3
"""markfixed.py PROP MECHANISM COMMIT  - turn a known_findings.d entry into a 'fixed' record (suppresses nothing)."""
import json, sys, glob, os
prop, mech, commit = sys.argv[1:4]
fn = os.path.join(os.path.dirname(os.path.dirname(os.path.abspath(__file__))), 'known_findings.d', prop + '.json')
d = json.load(open(fn))
hit = 0
for e in d['findings']:
    if e.get('mechanism') == mech and e.get('status', 'known') == 'known':
        e['status'] = 'fixed'
        e['commit'] = commit
        e['line'] = 'fixed: property=%s %s %s' % (prop, commit, e['what'])
        hit += 1
json.dump(d, open(fn, 'w'), indent=1)
print(prop, mech, 'marked' if hit else 'NOT FOUND')
