#!/usr/bin/env python3
"""markfixed.py PROP MECHANISM COMMIT  - turn a known_findings.d entry into a 'fixed' record (suppresses nothing)."""
import json, sys, glob, os
prop, mech, commit = sys.argv[1:4]
root = os.path.dirname(os.path.dirname(os.path.abspath(__file__)))
hit = 0
for fn in (os.path.join(root, 'known_findings.d', prop + '.json'), os.path.join(root, 'known_findings.json')):
    if not os.path.exists(fn):
        continue
    d = json.load(open(fn))
    n = 0
    for e in d['findings']:
        if e.get('property') == prop and e.get('mechanism') == mech and e.get('status', 'known') == 'known':
            e['status'] = 'fixed'
            e['commit'] = commit
            e['line'] = 'fixed: property=%s %s %s' % (prop, commit, e['what'])
            e.pop('why_not_fixed', None)
            n += 1
    if n:
        json.dump(d, open(fn, 'w'), indent=1)
    hit += n
print(prop, mech, 'marked' if hit else 'NOT FOUND')
