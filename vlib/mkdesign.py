#!/usr/bin/env python3
"""Regenerate the generated tables of DESIGN.md (between the GENERATED markers) from the repository history,
known_findings*.json, mutants/ and seeded/."""
import glob
import json
import os
import re
import subprocess

HERE = os.path.dirname(os.path.dirname(os.path.abspath(__file__)))
BEGIN, END = "<!-- GENERATED:BEGIN -->", "<!-- GENERATED:END -->"


def findings():
    out = []
    for fn in [os.path.join(HERE, "known_findings.json")] + sorted(glob.glob(os.path.join(HERE, "known_findings.d", "*.json"))):
        out += json.load(open(fn)).get("findings", [])
    return out


def main():
    lines = []
    fs = findings()
    log = subprocess.run(["git", "-C", "/repo", "log", "--reverse", "--format=%h %s"], capture_output=True, text=True).stdout.splitlines()
    fixes = [l for l in log if l.split(" ", 1)[1].startswith("fix:")]
    by_commit = {}
    for e in fs:
        if e.get("status") == "fixed":
            by_commit.setdefault(e.get("commit"), []).append(e)
    lines.append("### 10.4 Genuine defects repaired in /repo (one unguarded `fix:` commit each; %d commits)\n" % len(fixes))
    lines.append("Each was first shown by a monitor with a concrete witness against the real code; after the repair the check passes without a "
                 "KNOWN-FINDING line, and reverting the commit (mutants/*revert*) makes the check fire again.\n")
    lines.append("| commit | subject | found by | what failed |")
    lines.append("|---|---|---|---|")
    for l in fixes:
        h, subj = l.split(" ", 1)
        es = by_commit.get(h, [])
        props = ", ".join(sorted(set(e["property"] for e in es))) or "-"
        what = "; ".join(dict.fromkeys(e.get("what", "")[:160] for e in es))[:330]
        lines.append("| %s | %s | %s | %s |" % (h, subj[5:].replace("|", "/"), props, what.replace("|", "/").replace("\n", " ")))
    known = [e for e in fs if e.get("status", "known") == "known"]
    lines.append("\n### 10.5 Known findings (genuine defects recorded, not repaired; %d)\n" % len(known))
    lines.append("Matched by the mechanism slug a check computes from its witness; the check prints `KNOWN-FINDING:` and exits 0; any other "
                 "violation of the same property still exits 1.\n")
    lines.append("| property | mechanism | what fails | why recorded rather than repaired |")
    lines.append("|---|---|---|---|")
    for e in sorted(known, key=lambda e: (e["property"], e["mechanism"])):
        why = e.get("why_not_fixed") or ("fix candidate: " + str(e.get("suggested_fix"))[:160] if e.get("fix_candidate") else "needs a design decision / change in several places")
        lines.append("| %s | %s | %s | %s |" % (e["property"], e["mechanism"], e.get("what", "")[:300].replace("|", "/").replace("\n", " "),
                                               str(why)[:220].replace("|", "/").replace("\n", " ")))
    muts = sorted(os.path.basename(p) for p in glob.glob(os.path.join(HERE, "mutants", "*.patch")))
    per = {}
    for m in muts:
        mm = re.match(r"((?:C\d+\+?)+)_(.*)\.patch", m)
        for pid in mm.group(1).split("+"):
            per.setdefault(pid, []).append(mm.group(2))
    lines.append("\n### 10.6 Deliberate mutants (./selftest; all still pass the repository tests) - which check catches which change (%d patches)\n" % len(muts))
    lines.append("| check | mutants it must catch |")
    lines.append("|---|---|")
    for pid in sorted(per):
        lines.append("| %s | %s |" % (pid, ", ".join(per[pid])))
    lines.append("\n### 10.7 Independently written breaking changes (./seedtest; sub-agents saw only the property text)\n")
    lines.append("| id | what it breaks / needs to manifest | outcome |")
    lines.append("|---|---|---|")
    for d in sorted(glob.glob(os.path.join(HERE, "seeded", "*/"))):
        try:
            m = json.load(open(os.path.join(d, "meta.json")))
        except Exception:
            continue
        lines.append("| %s | %s | %s |" % (m.get("id"), str(m.get("needs_to_manifest", "")).replace("|", "/"), str(m.get("result", "")).replace("|", "/")))
    lines.append("\n### 10.8 False alarms corrected (a check that was wrong, never a known finding)\n")
    lines.append("Collected per author from notes/false_alarms_*.md; in every case the machinery was corrected (or the verdict removed) and the "
                 "check re-run until silent; no check that was right was loosened.\n")
    for fn in sorted(glob.glob(os.path.join(HERE, "notes", "false_alarms_*.md"))):
        body = open(fn).read().strip().splitlines()
        lines.append("#### " + os.path.basename(fn))
        lines += [l if not l.startswith("#") else "**" + l.lstrip("# ") + "**" for l in body]
        lines.append("")
    text = "\n".join(lines) + "\n"
    p = os.path.join(HERE, "DESIGN.md")
    s = open(p).read()
    if BEGIN in s:
        s = s[:s.index(BEGIN) + len(BEGIN)] + "\n" + text + s[s.index(END):]
    else:
        s = s.rstrip("\n") + "\n\n" + BEGIN + "\n" + text + END + "\n"
    open(p, "w").write(s)
    print("DESIGN.md tables regenerated: %d fixes, %d known, %d mutants" % (len(fixes), len(known), len(muts)))


if __name__ == "__main__":
    main()
