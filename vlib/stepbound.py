"""A bound on how long one driver call may compute: process CPU time (ITIMER_VIRTUAL), not wall-clock, so that a loaded machine
cannot trip it.  Used around calls that must return after work proportional to their input (e.g. process_io_buffer on one read):
a call that is still computing after `seconds` of CPU time - several orders of magnitude beyond what such a call takes - is reported
as 'never returns'.  Only the main thread of a process can be interrupted; elsewhere the bound is a no-op."""
import signal
import threading
from contextlib import contextmanager


class _Interrupt(BaseException):
    """BaseException: the driver's `except Exception` handlers (defunct_on_error ...) must not swallow it"""


class NeverReturned(Exception):
    pass


def _handler(signum, frame):
    raise _Interrupt()


@contextmanager
def cpu_bound(seconds, what="call"):
    if threading.current_thread() is not threading.main_thread():
        yield
        return
    old = signal.signal(signal.SIGVTALRM, _handler)
    signal.setitimer(signal.ITIMER_VIRTUAL, seconds)
    try:
        try:
            yield
        finally:
            signal.setitimer(signal.ITIMER_VIRTUAL, 0)
            signal.signal(signal.SIGVTALRM, old)
    except _Interrupt:
        raise NeverReturned("%s was still computing after %.0f s of CPU time" % (what, seconds))
