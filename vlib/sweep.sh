#!/bin/bash
# usage: sweep.sh <tier> <seed> [CNN ...]   - runs ./check for every claimed property (or the given ones), one line per result
tier=${1:-quick}; seed=${2:-1}; shift 2
props="$@"; [ -z "$props" ] && props=$(cat vlib/claimed.txt)
mkdir -p .cache/sweep
for p in $props; do
  s=$(date +%s)
  out=$(./check $p --tier $tier --seed $seed --evidence-out .cache/sweep/${p}_${tier}_${seed}.json 2>&1)
  rc=$?
  echo "rc=$rc $(( $(date +%s) - s ))s $(echo "$out" | grep -c '^KNOWN-FINDING') known | $(echo "$out" | grep -v '^  \|^KNOWN-FINDING' | tail -1 | cut -c1-200)"
  if [ $rc -ne 0 ]; then echo "$out" | grep -v '^KNOWN-FINDING' | tail -15 | cut -c1-300; fi
done
