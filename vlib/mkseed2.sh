#!/bin/bash
# usage: mkseed2.sh C02 C04 ...   (second round: the prompt names the first round's change so that a different one is planted)
for p in "$@"; do
  git -C /repo worktree add -q --detach /tmp/seed_${p}${SUF:-b} HEAD
  /venv/bin/python - "$p" <<'PY'
import sys, json, glob, os
pid=sys.argv[1]
for l in open('/verif/properties.jsonl'):
    p=json.loads(l)
    if p['id']==pid:
        prop="%s - %s\n\n%s\n\nQuantified over: %s\n\nAnchored in: %s"%(p['id'],p['title'],p['statement'],p['quantifier']['text'],', '.join(p['anchors']['files']))
prev=[]
for d in sorted(glob.glob('/verif/seeded/%s-*/meta.json'%pid)):
    prev.append(json.load(open(d)).get('needs_to_manifest',''))
t=open('/verif/vlib/breaker_prompt.txt').read().replace('{WT}','/tmp/seed_'+pid+os.environ.get("SUF","b")).replace('{PROP}',prop)
if prev:
    t=t.replace("Task: make a small change","Other engineers have already planted these bugs for this property (do NOT repeat them; pick a different function, clause of the property or mechanism):\n"+"\n".join(" - "+x for x in prev)+"\n\nTask: make a small change",1)
open('/tmp/seed_%s%s.prompt.txt'%(pid,os.environ.get("SUF","b")),'w').write(t)
PY
done
