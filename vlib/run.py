"""Check runner: tiers, seeds, evidence, known findings, verdicts and exit codes.

A property module (``/verif/props/cNN_*.py``) defines::

    PROPERTY = "C01"
    LEVEL = "exploration"            # or "fault_enumeration"
    def run(ctx): ...                # drives the workload, calls ctx.case / ctx.violation

and is executed through ``/verif/check``.  Verdicts are three-valued:

    exit 0  held on what was observed (KNOWN-FINDING lines may be printed)
    exit 1  ``VIOLATION property=<id> replay=<path>``
    exit 2  inconclusive (monitor not reached / floor missed / harness error); no VIOLATION line
"""
import hashlib
import json
import os
import random
import sys
import time
import traceback

VERIF = os.path.dirname(os.path.dirname(os.path.abspath(__file__)))
EVIDENCE_DIR = os.path.join(VERIF, "evidence")
FINDINGS_FILE = os.path.join(VERIF, "known_findings.json")
REPLAY_DIR = os.path.join(VERIF, "replays")


class Inconclusive(Exception):
    pass


def _jsonable(o, depth=0):
    if depth > 8:
        return repr(o)[:200]
    if o is None or isinstance(o, (bool, int, str)):
        if isinstance(o, int) and abs(o) > 2 ** 62:
            return str(o)
        return o
    if isinstance(o, float):
        if o != o or o in (float("inf"), float("-inf")):
            return repr(o)
        return o
    if isinstance(o, (bytes, bytearray, memoryview)):
        b = bytes(o)
        return "hex:" + (b.hex() if len(b) <= 96 else b[:96].hex() + "...(%d bytes)" % len(b))
    if isinstance(o, dict):
        return {str(k) if not isinstance(k, str) else k: _jsonable(v, depth + 1) for k, v in list(o.items())[:60]}
    if isinstance(o, (list, tuple, set, frozenset)):
        return [_jsonable(v, depth + 1) for v in list(o)[:60]]
    return repr(o)[:400]


def load_findings():
    try:
        with open(FINDINGS_FILE) as f:
            data = json.load(f)
    except FileNotFoundError:
        data = {}
    out = list(data.get("findings", []))
    import glob
    for fn in sorted(glob.glob(os.path.join(VERIF, "known_findings.d", "*.json"))):
        with open(fn) as f:
            out.extend(json.load(f).get("findings", []))
    return out


class Ctx(object):
    def __init__(self, pid, level, tier, seed, repo, worker=None, nworkers=1, replay=None):
        self.pid = pid
        self.level = level
        self.tier = tier
        self.seed = seed
        self.repo = repo
        self.worker = worker
        self.nworkers = nworkers
        self.replay = replay
        self.rng = random.Random((seed * 1000003) ^ (0 if worker is None else (worker + 1) * 7919))
        self.t0 = time.time()
        self.c0 = time.process_time()
        self.evaluations = 0
        self._distinct = set()
        self.samples = []
        self.max_samples = 8
        self.counters = {}
        self.assumptions = []
        self.rule = ""
        self.violations = []          # unlisted
        self.known_hits = {}          # mechanism -> (entry, count, first witness)
        self.exhaustive = None
        self.floor_distinct = 2
        self.floor_counters = {}      # counter name -> min value (else inconclusive)
        self.notes = []
        self._known = {}
        for e in load_findings():
            if e.get("property") == pid and e.get("status", "known") == "known":
                self._known[e["mechanism"]] = e

    # -- configuration helpers -------------------------------------------------
    @property
    def quick(self):
        return self.tier == "quick"

    def scale(self, quick, thorough):
        """Budget for this process: quick value, or the thorough value divided over workers."""
        if self.quick:
            return quick
        return max(1, thorough // max(1, self.nworkers))

    def time_left(self, budget_s):
        """Remaining budget.  Measured in CPU time of this process so that the amount of work done (and with it
        the evidence floors) does not depend on how loaded the machine is; wall-clock only caps it at 4x."""
        cpu = time.process_time() - self.c0
        wall = time.time() - self.t0
        return min(budget_s - cpu, 4.0 * budget_s - wall)

    # -- recording -------------------------------------------------------------
    def case(self, key=None, nontrivial=True, n=1):
        """Count one evaluated case.  ``key`` is the canonical form used for distinctness."""
        self.evaluations += n
        if nontrivial and key is not None:
            if not isinstance(key, (bytes, str)):
                key = repr(key)
            if isinstance(key, str):
                key = key.encode("utf-8", "surrogatepass")
            self._distinct.add(hashlib.blake2b(key, digest_size=8).digest())

    def sample(self, obj, force=False):
        if force or len(self.samples) < self.max_samples:
            self.samples.append(_jsonable(obj))

    def count(self, name, n=1):
        self.counters[name] = self.counters.get(name, 0) + n

    def assume(self, text):
        if text not in self.assumptions:
            self.assumptions.append(text)

    def note(self, text):
        if len(self.notes) < 50:
            self.notes.append(text)

    def violation(self, mechanism, what, witness=None):
        """Record a violation of THIS property.

        ``mechanism`` is a mechanism-level classification computed by the check from the
        witness (never a hash/random value).  If it is listed in known_findings.json as a
        known finding it is reported as KNOWN-FINDING, otherwise as a VIOLATION.
        """
        if mechanism in self._known:
            ent = self.known_hits.get(mechanism)
            if ent is None:
                self.known_hits[mechanism] = [self._known[mechanism], 1, _jsonable(witness)]
            else:
                ent[1] += 1
            return False
        if len(self.violations) < 25:
            self.violations.append({"mechanism": mechanism, "what": what, "witness": _jsonable(witness)})
        else:
            self.count("violations_beyond_25")
        return True

    @property
    def n_violations(self):
        return len(self.violations) + self.counters.get("violations_beyond_25", 0)

    # -- results ---------------------------------------------------------------
    def partial(self):
        return {
            "evaluations": self.evaluations,
            "distinct": [d.hex() for d in self._distinct],
            "samples": self.samples,
            "counters": self.counters,
            "assumptions": self.assumptions,
            "rule": self.rule,
            "violations": self.violations,
            "known_hits": {k: v for k, v in self.known_hits.items()},
            "exhaustive": self.exhaustive,
            "floor_distinct": self.floor_distinct,
            "floor_counters": self.floor_counters,
            "notes": self.notes,
        }


def merge_partials(parts):
    out = {"evaluations": 0, "distinct": set(), "samples": [], "counters": {}, "assumptions": [],
           "rule": "", "violations": [], "known_hits": {}, "exhaustive": None,
           "floor_distinct": 2, "floor_counters": {}, "notes": []}
    for p in parts:
        out["evaluations"] += p["evaluations"]
        out["distinct"].update(p["distinct"])
        for s in p["samples"]:
            if len(out["samples"]) < 10:
                out["samples"].append(s)
        for k, v in p["counters"].items():
            if isinstance(v, (int, float)):
                out["counters"][k] = out["counters"].get(k, 0) + v
            else:
                out["counters"].setdefault(k, v)
        for a in p["assumptions"]:
            if a not in out["assumptions"]:
                out["assumptions"].append(a)
        out["rule"] = p["rule"] or out["rule"]
        out["violations"].extend(p["violations"])
        for k, v in p["known_hits"].items():
            if k in out["known_hits"]:
                out["known_hits"][k][1] += v[1]
            else:
                out["known_hits"][k] = list(v)
        if p["exhaustive"] is not None:
            out["exhaustive"] = p["exhaustive"] if out["exhaustive"] is None else (out["exhaustive"] and p["exhaustive"])
        out["floor_distinct"] = max(out["floor_distinct"], p["floor_distinct"])
        for k, v in p["floor_counters"].items():
            out["floor_counters"][k] = max(out["floor_counters"].get(k, 0), v)
        out["notes"].extend(p["notes"])
    return out


def finish(pid, level, tier, seed, merged, wall_s, inconclusive_reasons, evidence_path=None):
    """Write evidence, print verdict lines, return exit code."""
    distinct = len(merged["distinct"])
    reasons = list(inconclusive_reasons)
    nviol = len(merged["violations"]) + merged["counters"].get("violations_beyond_25", 0)
    if not nviol:
        if distinct < merged["floor_distinct"]:
            reasons.append("distinct non-trivial cases %d below floor %d" % (distinct, merged["floor_distinct"]))
        for k, v in merged["floor_counters"].items():
            if merged["counters"].get(k, 0) < v:
                reasons.append("monitor counter %s=%s below floor %s" % (k, merged["counters"].get(k, 0), v))
    coverage = {
        "evaluations": int(merged["evaluations"]),
        "distinct_nontrivial": int(distinct),
        "rule": merged["rule"],
        "samples": merged["samples"] or ["(no sample recorded)"],
        "monitor_counters": merged["counters"],
    }
    if merged["exhaustive"] is not None:
        coverage["exhaustive"] = bool(merged["exhaustive"])
    if merged["known_hits"]:
        coverage["known_findings_observed"] = {
            k: {"occurrences": v[1], "what": v[0].get("what"), "first_witness": v[2]} for k, v in merged["known_hits"].items()}
    if merged["notes"]:
        coverage["notes"] = merged["notes"][:50]
    if reasons:
        coverage["inconclusive"] = reasons
    ev = {
        "property_id": pid, "tier": tier, "seed": int(seed), "level": level,
        "coverage": coverage, "assumptions": merged["assumptions"],
        "wall_s": round(wall_s, 3), "violations": int(nviol),
    }
    if merged["violations"]:
        ev["violation_witnesses"] = merged["violations"][:10]
    path = evidence_path or os.path.join(EVIDENCE_DIR, pid + ".json")
    os.makedirs(os.path.dirname(path), exist_ok=True)
    tmp = path + ".tmp%d" % os.getpid()
    with open(tmp, "w") as f:
        json.dump(ev, f, indent=1, sort_keys=True)
        f.write("\n")
    os.replace(tmp, path)

    for k, v in sorted(merged["known_hits"].items()):
        print("KNOWN-FINDING: property=%s %s [mechanism=%s, seen %d times in this run]" % (
            pid, v[0].get("what", k), k, v[1]))
    if nviol:
        os.makedirs(REPLAY_DIR, exist_ok=True)
        rp = os.path.join(REPLAY_DIR, "%s_%s_seed%d.json" % (pid, tier, seed))
        with open(rp, "w") as f:
            json.dump({"property_id": pid, "tier": tier, "seed": seed, "violations": merged["violations"]}, f, indent=1)
        for v in merged["violations"][:5]:
            print("  witness[%s]: %s" % (v["mechanism"], v["what"]))
        print("VIOLATION property=%s replay=%s" % (pid, rp))
        return 1
    if reasons:
        print("INCONCLUSIVE property=%s: %s" % (pid, "; ".join(reasons)))
        return 2
    print("HELD property=%s tier=%s seed=%d evaluations=%d distinct_nontrivial=%d wall=%.1fs" % (
        pid, tier, seed, merged["evaluations"], distinct, wall_s))
    return 0


def ensure_deps():
    """The git-ignored .deps (icontract, deal from the offline wheelhouse) is normally created by MANIFEST.setup_cmd; a check started
    in a fresh checkout without it runs the same setup once (offline; a failure only shows later as an import error = inconclusive)."""
    if os.path.isdir(os.path.join(VERIF, ".deps", "icontract")):
        return
    import subprocess
    lock = os.path.join(VERIF, ".deps.lock")
    try:
        import fcntl
        with open(lock, "w") as fh:
            fcntl.flock(fh, fcntl.LOCK_EX)
            if not os.path.isdir(os.path.join(VERIF, ".deps", "icontract")):
                subprocess.run([sys.executable, os.path.join(VERIF, "vlib", "setup.py")], stdout=subprocess.DEVNULL,
                               stderr=subprocess.DEVNULL, timeout=900)
    except Exception:
        pass


def setup_paths(repo):
    """Put the repository under test first on sys.path, plus /verif and its deps."""
    ensure_deps()
    for p in (os.path.join(VERIF, ".deps"), VERIF, repo):
        while p in sys.path:
            sys.path.remove(p)
        sys.path.insert(0, p)


def run_module_inprocess(modname, pid, level, tier, seed, repo, worker, nworkers, replay):
    import importlib
    setup_paths(repo)
    ctx = Ctx(pid, level, tier, seed, repo, worker, nworkers, replay)
    reasons = []
    try:
        mod = importlib.import_module("props." + modname)
        mod.run(ctx)
    except Inconclusive as e:
        reasons.append("inconclusive: %s" % (e,))
    except BaseException as e:  # harness failure is never a verdict
        if isinstance(e, KeyboardInterrupt):
            raise
        reasons.append("harness exception %s: %s\n%s" % (type(e).__name__, e, traceback.format_exc()[-1500:]))
    part = ctx.partial()
    part["_reasons"] = reasons
    return part
