"""Make ``cassandra.cluster`` importable on an interpreter without asyncore/libev.

``cassandra.cluster`` picks its default reactor at import time; on Python 3.12 every
candidate raises DependencyException.  A stand-in module registered as
``cassandra.io.libevreactor`` *before* the import satisfies that lookup without editing
the repository.  The stand-in's ``LibevConnection`` is replaced by the harness connection
class (sim.conn.SimConnection) when the sim world is used; checks always pass
``connection_class=`` explicitly anyway.
"""
import sys
import types


def install(conn_cls=None):
    name = "cassandra.io.libevreactor"
    mod = sys.modules.get(name)
    if mod is None or not getattr(mod, "_verif_stub", False):
        mod = types.ModuleType(name)
        mod._verif_stub = True
        sys.modules[name] = mod
        import cassandra.io  # noqa: F401  (package must exist for the attribute lookup)
        sys.modules["cassandra.io"].libevreactor = mod
    if conn_cls is None:
        from cassandra.connection import Connection

        class LibevConnection(Connection):  # never instantiated by checks
            pass
        conn_cls = LibevConnection
    mod.LibevConnection = conn_cls
    return mod


def import_cluster(conn_cls=None):
    install(conn_cls)
    import cassandra.cluster
    return cassandra.cluster
