#!/bin/bash
# usage: collectseed.sh C01b C02b ...  -> copies /tmp/seed_<x>_out to seeded/<P>-<suffix>, removes the worktree, runs seedtest
ids=""
for x in "$@"; do
  p=${x:0:3}; suf=${x:3}; suf=${suf:-a}
  d=/verif/seeded/$p-$suf
  if [ ! -f /tmp/seed_${x}_out/patch.diff ]; then echo "no output for $x"; continue; fi
  mkdir -p $d; cp /tmp/seed_${x}_out/* $d/ 2>/dev/null
  [ -f $d/meta.json ] || echo "{\"property\": \"$p\", \"id\": \"$p-$suf\"}" > $d/meta.json
  git -C /repo worktree remove --force /tmp/seed_$x 2>/dev/null
  rm -rf /tmp/seed_${x}_out /tmp/seed_$x.prompt.txt
  ids="$ids seeded/$p-$suf"
done
cd /verif && ./seedtest $ids -j 4 2>&1 | tail -$(( $# + 1 ))
