#!/venv/bin/python
"""MANIFEST.setup_cmd: offline setup after a fresh restore.

Installs icontract/deal from the local wheelhouse into the git-ignored /verif/.deps
(best effort: only C33's class-invariant monitor uses icontract and it degrades to its
own invariant hook when the package is missing), byte-compiles /verif.
"""
import compileall
import os
import subprocess
import sys

HERE = os.path.dirname(os.path.dirname(os.path.abspath(__file__)))
deps = os.path.join(HERE, ".deps")
os.makedirs(deps, exist_ok=True)
os.makedirs(os.path.join(HERE, "evidence"), exist_ok=True)
if not os.path.isdir(os.path.join(deps, "icontract")):
    r = subprocess.run([sys.executable, "-m", "pip", "install", "--no-index", "--find-links", "/opt/veriftools/wheels",
                        "--target", deps, "--quiet", "icontract", "deal"], timeout=600)
    print("pip install icontract deal ->", r.returncode)
compileall.compile_dir(HERE, quiet=2, maxlevels=3)
print("setup ok")
