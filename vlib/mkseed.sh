#!/bin/bash
# usage: mkseed.sh C02 C04 ...
for p in "$@"; do
  git -C /repo worktree add -q --detach /tmp/seed_$p HEAD
  /venv/bin/python - "$p" <<'PY'
import sys, json
pid=sys.argv[1]
for l in open('/verif/properties.jsonl'):
    p=json.loads(l)
    if p['id']==pid:
        prop="%s - %s\n\n%s\n\nQuantified over: %s\n\nAnchored in: %s"%(p['id'],p['title'],p['statement'],p['quantifier']['text'],', '.join(p['anchors']['files']))
t=open('/tmp/breaker_prompt.txt').read().replace('{WT}','/tmp/seed_'+pid).replace('{PROP}',prop)
open('/tmp/seed_%s.prompt.txt'%pid,'w').write(t)
PY
done
