"""Scenario helpers shared by the sim-world property monitors.

* every statement a scenario sends carries a unique id in its text (``/*uid=N*/``); the node
  echoes that id in the single row it returns, so a response identifies the request it answers
  (unique values make histories unambiguous);
* ``Plan`` maps uid -> how the node treats that request;
* ``Recorder`` records, at the client boundary, call/return of execute_async and every
  callback / errback invocation with the virtual time.
"""
import re

from spec import frames as F
from spec import cqlcodec as S

UID_RE = re.compile(r'/\*uid=(\d+)\*/')


def uid_query(uid, extra=''):
    return "SELECT /*uid=%d*/ v FROM ks.t%s" % (uid, extra)


def uid_of(text):
    m = UID_RE.search(text or '')
    return int(m.group(1)) if m else None


ECHO_COLS = [('uid', ('int',)), ('node', ('text',))]


class Plan(object):
    """uid -> action.  Actions:
        'rows'            answer immediately with the echo row
        'void'            answer immediately with RESULT void
        'hold'            build the echo answer but keep it until the scenario releases it
        'silent'          never answer
        ('error', kind, info-dict)   answer with that ERROR
        'unprepared'      answer EXECUTE with UNPREPARED (query id taken from the request)
        'close' / 'reset' the server closes / resets the connection instead of answering
    A list of actions is consumed one per arrival of that uid (retries, speculative executions).
    """
    def __init__(self, default='rows'):
        self.default = default
        self.by_uid = {}
        self.seen = []           # (node address, conn id, stream, uid, op) in arrival order
        self.prepared = {}       # query_id -> query text (for EXECUTE uid lookup)

    def set(self, uid, action):
        self.by_uid[uid] = action

    def next_action(self, uid):
        a = self.by_uid.get(uid, self.default)
        if isinstance(a, list):
            if len(a) > 1:
                return a.pop(0)
            return a[0] if a else self.default
        return a

    def behaviour(self, node, cstate, req):
        op = req['op']
        if op == 'PREPARE':
            qid = node.net.query_id(req['query'], req.get('keyspace') or cstate.keyspace)
            self.prepared[qid] = req['query']
            return None
        if op == 'QUERY':
            uid = uid_of(req['query'])
        elif op == 'EXECUTE':
            uid = uid_of(self.prepared.get(req['query_id'], ''))
        elif op == 'BATCH':
            uid = None
            for q in req['queries']:
                uid = uid_of(q[1] if q[0] == 'query' else self.prepared.get(q[1], ''))
                if uid is not None:
                    break
        else:
            return None
        if uid is None:
            return None
        self.seen.append((node.address, cstate.conn.sim_id, req['stream'], uid, op, req.get('consistency')))
        return self.reaction(node, cstate, req, uid, self.next_action(uid))

    def reaction(self, node, cstate, req, uid, a):
        if a == 'rows':
            return node.rows(cstate, req, ECHO_COLS, [[uid, node.address]], 'ks', 't')
        if a == 'void':
            return node.void(cstate, req)
        if a == 'hold':
            r = node.rows(cstate, req, ECHO_COLS, [[uid, node.address]], 'ks', 't')
            return ('hold', r[1])
        if a == 'silent':
            return ('silence',)
        if a in ('close', 'reset'):
            return (a,)
        if a == 'unprepared':
            return node.error(cstate, req, 'unprepared', 'unprepared', query_id=req.get('query_id') or b'\x00')
        if isinstance(a, tuple) and a[0] == 'error':
            return node.error(cstate, req, a[1], 'scripted %s' % a[1], **(a[2] if len(a) > 2 else {}))
        if isinstance(a, tuple) and a[0] == 'hold-error':
            r = node.error(cstate, req, a[1], 'scripted %s' % a[1], **(a[2] if len(a) > 2 else {}))
            return ('hold', r[1])
        if callable(a):
            return a(node, cstate, req, uid)
        raise ValueError("unknown plan action %r" % (a,))


class Recorder(object):
    """Client-boundary history: ('call', uid, t) ('return', uid, t) ('cb', uid, t, rows) ('eb', uid, t, exc)."""
    def __init__(self, world):
        self.world = world
        self.events = []
        self.futures = {}

    def execute_async(self, session, uid, statement=None, **kw):
        st = statement if statement is not None else uid_query(uid)
        self.events.append(('call', uid, self.world.now))
        try:
            f = session.execute_async(st, **kw)
        except Exception as e:
            self.events.append(('raise', uid, self.world.now, e))
            return None
        self.events.append(('return', uid, self.world.now))
        self.futures[uid] = f
        f.add_callbacks(lambda rows, uid=uid: self.events.append(('cb', uid, self.world.now, rows)),
                        lambda exc, uid=uid: self.events.append(('eb', uid, self.world.now, exc)))
        return f

    def outcomes(self, uid):
        return [e for e in self.events if e[1] == uid and e[0] in ('cb', 'eb')]


def echoed_uid(rows):
    """uid echoed in the rows handed to a callback (None when there is no echo row)."""
    try:
        rows = list(rows) if rows is not None else []
    except TypeError:
        return None
    if not rows:
        return None
    r = rows[0]
    return getattr(r, 'uid', None) if hasattr(r, 'uid') else (r[0] if isinstance(r, (tuple, list)) else None)
