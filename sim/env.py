"""Build a deterministic world around the real driver: patch the synchronisation / time names
inside cassandra.cluster, cassandra.pool, cassandra.connection to world-bound stand-ins,
provide the SimConnection class, and construct a Cluster whose executor and scheduler are
the world's.

    env = SimEnv(chooser, addresses=[...])
    with env:                       # attaches the calling thread as the world's main thread
        cluster = env.cluster(protocol_version=4, ...)
        session = cluster.connect()
        ...
        env.world.settle()

No repository file is edited; everything is attribute substitution from the outside.
"""
import traceback

from sim import world as W
from sim.node import SimNet

PATCHED_MODULES = ('cassandra.cluster', 'cassandra.pool', 'cassandra.connection')
_CURRENT = [None]
_FROZEN = [False]


def current_world():
    return _CURRENT[0]


def _creator_tag():
    names = [f.name for f in traceback.extract_stack()[:-3]]
    for key, tag in (('_replace', 'pool-replace'), ('_add_conn_if_under_max', 'pool-grow'), ('_create_new_connection', 'pool-grow'),
                     ('try_reconnect', 'reconnector'), ('_try_connect', 'control'),
                     ('run_add_or_renew_pool', 'pool-init'), ('add_or_renew_pool', 'pool-init')):
        if key in names:
            return tag
    if '__init__' in names and any(n in names for n in ('HostConnection', 'HostConnectionPool')):
        return 'pool-init'
    return 'other:' + '/'.join(names[-4:])


class SimEnv(object):
    def __init__(self, chooser, addresses=('127.0.0.1',), dcs=None, max_steps=300000, max_virtual_time=7200.0, preempt=True):
        from vlib import shim
        self.world = W.World(chooser, max_steps=max_steps, max_virtual_time=max_virtual_time, preempt=preempt)
        self.prims = W.Prims(self.world)
        self.net = SimNet(self.world, addresses, dcs)
        self.conn_class = self._make_conn_class()
        shim.install(self.conn_class)
        import cassandra.cluster    # noqa (after shim)
        self.clusters = []
        self._saved = {}
        self.reactor = None

    # ------------------------------------------------------------------ context
    def __enter__(self):
        import sys
        import gc
        # garbage of earlier worlds (Session.__del__ -> shutdown ...) must not be finalised at an arbitrary point inside
        # this world: collect it now and keep the collector off for the (short) life of the world
        gc.collect()
        if not _FROZEN[0]:
            # once per process: what is alive after the imports goes to the permanent generation, so that the two full
            # collections per world only scan what worlds create (they cost ~30 ms each otherwise)
            gc.freeze()
            _FROZEN[0] = True
        gc.disable()
        w, p = self.world, self.prims
        w.attach_main()
        _CURRENT[0] = w
        W.patch_future_result(current_world)
        for mn in PATCHED_MODULES:
            mod = sys.modules[mn]
            for name, val in (('Lock', p.Lock), ('RLock', p.RLock), ('Event', p.Event), ('Condition', p.Condition),
                              ('Thread', p.Thread), ('time', p.time), ('wait_futures', p.wait_futures)):
                if hasattr(mod, name):
                    self._saved[(mn, name)] = getattr(mod, name)
                    setattr(mod, name, val)
        # Cluster.__init__ builds its executor and scheduler thread itself: hand it the world's
        cm = sys.modules['cassandra.cluster']
        self._saved[('cassandra.cluster', 'ThreadPoolExecutor')] = cm.ThreadPoolExecutor
        self._saved[('cassandra.cluster', '_Scheduler')] = cm._Scheduler
        env = self

        def tpe_factory(max_workers=2, **kw):
            env._nexec = getattr(env, '_nexec', 0) + 1
            return W.SimExecutor(w, max_workers or 2, name='exec%d' % env._nexec)
        cm.ThreadPoolExecutor = tpe_factory
        cm._Scheduler = lambda executor: W.SimScheduler(w, executor)
        self.reactor = W.Reactor(w)
        return self

    def __exit__(self, *exc):
        import sys
        leaked = []
        try:
            for c in self.clusters:
                # stop atexit bookkeeping from touching dead worlds
                try:
                    import cassandra.cluster as CC
                    CC._discard_cluster_shutdown(c)
                except Exception:
                    pass
            leaked = self.world.close()
            # finalise this world's garbage now (Session.__del__ -> shutdown ...) while the module names still point at the dead
            # world's inert primitives - otherwise it is collected at an arbitrary point inside a later world and perturbs it
            import gc
            self.clusters = []
            gc.collect()
        finally:
            import gc as _gc
            _gc.enable()
            for (mn, name), val in self._saved.items():
                setattr(sys.modules[mn], name, val)
            self._saved.clear()
            _CURRENT[0] = None
        self.leaked_threads = leaked
        return False

    # ------------------------------------------------------------------ stream ids as input
    rotate_stream_ids = True

    def stream_id_rotation(self, conn):
        """How many sequential requests a freshly connected connection is taken to have served already (deterministic in the
        connection's number, so that a history is still a function of its seed): 0 for most, otherwise the state in which the
        id 0 or 1 (the ones the handshake used and returned) is handed out next, or a state half way round."""
        if not self.rotate_stream_ids or conn.sim_id is None:
            return 0
        ids = list(conn.request_ids)
        if len(ids) < 4:
            return 0
        # the number of scheduling choices made so far varies from history to history and is a function of the history
        salt = len(getattr(self.world.chooser, 'log', ()))
        pick = (conn.sim_id * 3 + salt) % 5
        if pick in (1, 2) and 0 in ids:
            # id 0 is the 1st .. 4th id handed out from now on (a retry or re-prepare is the 2nd or 3rd send on its connection)
            return max(0, ids.index(0) - (salt // 5) % 4)
        if pick == 3:
            return ids.index(1) if (conn.sim_id % 2 and 1 in ids) else len(ids) // 2
        return 0

    # ------------------------------------------------------------------ connection class
    def _make_conn_class(self):
        from cassandra.connection import Connection, ConnectionShutdown
        env = self
        net, world = self.net, self.world

        class SimConnection(Connection):
            sim_id = None
            _sim_rotated = False

            def __init__(self, *args, **kwargs):
                Connection.__init__(self, *args, **kwargs)
                self.sent_bytes = 0
                node = net.node_for(self.endpoint)
                net.register_conn(self, _creator_tag())
                if node is None or not node.up:
                    # what a reactor's _connect_socket does on a refused connection
                    with self.lock:
                        self.is_closed = True
                    net.events.append(('conn_refused', self.sim_id))
                    raise ConnectionRefusedError(111, "Tried connecting to [(%r, 9042)]. Last error: Connection refused (simulated)" % (str(self.endpoint),))
                self.peer = node.accept(self)
                self._send_options_message()

            def get_request_id(self):
                # Stream ids are an input like any other: a connection that has served k sequential requests hands out
                # ids from a free list rotated by k.  Once, when the handshake is over, the list of some connections is
                # rotated to such a state - most often the one where the boundary id 0 (falsy!) comes next - instead of
                # leaving every history on the fresh-connection ids 2, 3, 4 ...  (rotate(-k) is exactly what k requests that
                # came and went leave behind; nothing else about the connection changes.)
                if not self._sim_rotated and self.connected_event.is_set():
                    self._sim_rotated = True
                    k = env.stream_id_rotation(self)
                    if k:
                        self.request_ids.rotate(-k)
                        net.events.append(('ids_rotated', self.sim_id, k))
                return Connection.get_request_id(self)

            def push(self, data):
                if self.is_closed:
                    return
                self.sent_bytes += len(data)
                world.trace.append(('push', self.sim_id, len(data)))
                self.peer.node.receive(self.peer, bytes(data))
                world.maybe_yield('push')

            def close(self):
                with self.lock:
                    if self.is_closed:
                        return
                    self.is_closed = True
                net.client_closed(self)
                world.trace.append(('close', self.sim_id))
                if not self.is_defunct:
                    self.error_all_requests(ConnectionShutdown("Connection to %s was closed" % (self.endpoint,)))
                    self.connected_event.set()

            @classmethod
            def create_timer(cls, timeout, callback):
                return world.add_timer(timeout, callback, label='conn-timer')

            @classmethod
            def initialize_reactor(cls):
                pass

        return SimConnection

    # ------------------------------------------------------------------ cluster
    def cluster(self, contact_points=None, executor_threads=2, **kw):
        from cassandra.cluster import Cluster, ExecutionProfile, EXEC_PROFILE_DEFAULT
        from cassandra.policies import RoundRobinPolicy
        kw.setdefault('protocol_version', 4)
        kw.setdefault('schema_metadata_enabled', False)
        kw.setdefault('idle_heartbeat_interval', 0)
        kw.setdefault('monitor_reporting_enabled', False)
        kw.setdefault('connection_class', self.conn_class)
        if 'execution_profiles' not in kw and 'load_balancing_policy' not in kw:
            kw['execution_profiles'] = {EXEC_PROFILE_DEFAULT: ExecutionProfile(load_balancing_policy=RoundRobinPolicy())}
        c = Cluster(contact_points or [list(self.net.nodes)[0]], executor_threads=executor_threads, **kw)
        assert isinstance(c.executor, W.SimExecutor) and isinstance(c.scheduler, W.SimScheduler)
        c.control_connection._time = self.prims.time
        self.clusters.append(c)
        return c
