"""Scripted wire-level Cassandra nodes for the deterministic world.

A ``SimNet`` holds one ``SimNode`` per endpoint address.  Nodes speak real protocol bytes:
every inbound frame is parsed by the independent strict parser (spec/frames.py - so every
request any sim run emits is also validated) and answered with frames built by the spec
encoders.  What a node answers is decided by its ``behaviour`` hooks; by default it plays a
healthy node: OPTIONS->SUPPORTED, STARTUP->READY, REGISTER->READY, system.local /
system.peers(_v2) -> rows describing the SimNet, USE -> set_keyspace, anything else -> void.

Bytes towards the client are queued per connection and handed over by the world's reactor
thread (``enabled_actions``), whole or in chunks, in an order chosen by the world's chooser.
"""
import collections
import re
import uuid

from spec import cqlcodec as S
from spec import frames as F
from spec import segments as SG

T = lambda k: (k,)
LOCAL_COLS = [('cluster_name', T('text')), ('data_center', T('text')), ('rack', T('text')), ('partitioner', T('text')),
              ('release_version', T('text')), ('schema_version', T('uuid')), ('host_id', T('uuid')),
              ('tokens', ('set', T('text'))), ('rpc_address', T('inet')), ('broadcast_address', T('inet')),
              ('listen_address', T('inet')), ('native_protocol_version', T('text')), ('key', T('text'))]
PEERS_COLS = [('peer', T('inet')), ('rpc_address', T('inet')), ('host_id', T('uuid')), ('data_center', T('text')), ('rack', T('text')),
              ('schema_version', T('uuid')), ('tokens', ('set', T('text'))), ('release_version', T('text'))]
PEERS_V2_COLS = [('peer', T('inet')), ('peer_port', T('int')), ('native_address', T('inet')), ('native_port', T('int')),
                 ('host_id', T('uuid')), ('data_center', T('text')), ('rack', T('text')), ('schema_version', T('uuid')),
                 ('tokens', ('set', T('text'))), ('release_version', T('text'))]


def ip_bytes(addr):
    import ipaddress
    return ipaddress.ip_address(addr).packed


class Held(object):
    """A response the scenario decides about later."""
    def __init__(self, node, conn, frame_bytes, req):
        self.node, self.conn, self.frame, self.req = node, conn, frame_bytes, req
        self.done = False

    def release(self):
        if not self.done:
            self.done = True
            self.node.net.send(self.conn, self.frame)

    def drop(self):
        self.done = True


class NodeInfo(object):
    def __init__(self, address, dc='dc1', rack='r1', tokens=None, host_id=None, schema_version=None, release='4.0.0'):
        self.address = address
        self.dc, self.rack = dc, rack
        self.tokens = tokens if tokens is not None else [str(hash(address) % 1000)]
        self.host_id = host_id or uuid.UUID(int=(abs(hash(('hid', address))) % (1 << 120)) + 1)
        self.schema_version = schema_version or uuid.UUID(int=7)
        self.release = release


class SimNode(object):
    def __init__(self, net, info):
        self.net = net
        self.info = info
        self.address = info.address
        self.up = True                      # accepts connections
        self.conns = []                     # server-side connection states
        self.log = []                       # (conn_id, parsed request) in arrival order
        self.behaviour = None               # callable(node, cstate, req) -> reaction or None for default
        self.supported_versions = {1, 2, 3, 4, 5, 0x41, 0x42}
        self.compression = []               # algorithms offered in SUPPORTED
        self.authenticator = None           # class name -> AUTHENTICATE on STARTUP
        self.peers_v2 = True
        self.silent = False                 # never answer anything (after handshake bytes are still read)

    # -- reactions -----------------------------------------------------------------------
    def reply(self, cstate, req, op, body, **kw):
        return ('reply', F.response(req['version'], req['stream'], op, body, **kw))

    def rows(self, cstate, req, cols, rows, ks='system', table='t', **md):
        columns = [(ks, table, n, t) for n, t in cols]
        v = req['version']
        enc = [[None if c is None else S.enc(t, c, v) for (n, t), c in zip(cols, row)] for row in rows]
        return self.reply(cstate, req, 'RESULT', F.body_result_rows(v, columns, enc, **md))

    def void(self, cstate, req):
        return self.reply(cstate, req, 'RESULT', F.body_result_void())

    def error(self, cstate, req, kind, message='err', **info):
        return self.reply(cstate, req, 'ERROR', F.body_error(req['version'], kind, message, **info))

    def local_row(self):
        i = self.info
        a = ip_bytes(i.address)
        return [self.net.cluster_name, i.dc, i.rack, self.net.partitioner, i.release, i.schema_version, i.host_id,
                list(i.tokens), a, a, a, '4', 'local']

    def peer_rows(self, v2):
        out = []
        for other in self.net.peer_infos_for(self):
            a = ip_bytes(other.address)
            if v2:
                out.append([a, 7000, a, 9042, other.host_id, other.dc, other.rack, other.schema_version, list(other.tokens), other.release])
            else:
                out.append([a, a, other.host_id, other.dc, other.rack, other.schema_version, list(other.tokens), other.release])
        return out

    def default_reaction(self, cstate, req):
        op = req['op']
        v = req['version']
        if op == 'OPTIONS':
            return self.reply(cstate, req, 'SUPPORTED', F.body_supported({'CQL_VERSION': ['3.4.5'], 'COMPRESSION': list(self.compression)}))
        if op == 'STARTUP':
            if self.authenticator:
                return self.reply(cstate, req, 'AUTHENTICATE', F.body_authenticate(self.authenticator))
            cstate.ready = True
            return self.reply(cstate, req, 'READY', b'')
        if op == 'REGISTER':
            cstate.registered = list(req['events'])
            return self.reply(cstate, req, 'READY', b'')
        if op == 'AUTH_RESPONSE':
            cstate.ready = True
            return self.reply(cstate, req, 'AUTH_SUCCESS', F.body_auth_success(None))
        if op == 'QUERY':
            q = req['query']
            ql = q.lower()
            if 'system.local' in ql:
                if 'schema_version' in ql and 'select schema_version' in ql.replace('"', ''):
                    return self.rows(cstate, req, [('schema_version', T('uuid'))], [[self.info.schema_version]], 'system', 'local')
                return self.rows(cstate, req, LOCAL_COLS, [self.local_row()], 'system', 'local')
            if 'system.peers_v2' in ql:
                if not self.peers_v2:
                    return self.error(cstate, req, 'invalid', 'unconfigured table peers_v2')
                return self.rows(cstate, req, PEERS_V2_COLS, self.peer_rows(True), 'system', 'peers_v2')
            if 'system.peers' in ql:
                return self.rows(cstate, req, PEERS_COLS, self.peer_rows(False), 'system', 'peers')
            m = re.match(r'\s*use\s+"?([^"\s;]+)"?', q, re.I)
            if m:
                cstate.keyspace = m.group(1)
                return self.reply(cstate, req, 'RESULT', F.body_result_set_keyspace(m.group(1)))
            return self.void(cstate, req)
        if op in ('EXECUTE', 'BATCH'):
            return self.void(cstate, req)
        if op == 'PREPARE':
            qid = self.net.query_id(req['query'], req.get('keyspace') or cstate.keyspace)
            return self.reply(cstate, req, 'RESULT', F.body_result_prepared(v, qid, [], [], [], b'\x00' * 16, result_md={'global_spec': False}))
        return self.error(cstate, req, 'protocol', 'unexpected %s' % op)

    # -- wire ------------------------------------------------------------------------------
    def accept(self, conn):
        cs = ConnState(self, conn)
        self.conns.append(cs)
        return cs

    def receive(self, cstate, data):
        cstate.inbuf += data
        while True:
            frames = cstate.take_frames()
            if not frames:
                return
            for fr in frames:
                self.handle_frame(cstate, fr)

    def handle_frame(self, cstate, fr):
        net = self.net
        try:
            req = F.parse_request(fr, cstate.decompress)
        except F.FrameError as e:
            net.parse_failures.append((self.address, cstate.conn.sim_id, str(e), bytes(fr[:64])))
            return
        net.requests_parsed += 1
        req['_conn'] = cstate.conn.sim_id
        req['_node'] = self.address
        req['_t'] = net.world.now
        self.log.append(req)
        net.wire_log.append(req)
        net.events.append(('node_recv', cstate.conn.sim_id, req['stream'], req['op'], net.world.now))
        cstate.outstanding[req['stream']] = req
        if req['version'] not in self.supported_versions:
            top = max(v for v in self.supported_versions if v < 0x40) if any(v < 0x40 for v in self.supported_versions) else 4
            rv = top if req['version'] > top else min(self.supported_versions)
            body = F.body_error(rv, 'protocol', 'Invalid or unsupported protocol version (%d); the lowest supported version is 3 and the greatest is %d' % (req['version'], top))
            net.send(cstate.conn, F.frame(rv, 0, req['stream'] if rv >= 3 else max(-128, min(127, req['stream'])), F.OPNUM['ERROR'], body))
            return
        reaction = None
        if self.behaviour is not None:
            reaction = self.behaviour(self, cstate, req)
        if reaction is None:
            if self.silent and req['op'] not in ('OPTIONS', 'STARTUP', 'REGISTER', 'AUTH_RESPONSE'):
                reaction = ('silence',)
            else:
                reaction = self.default_reaction(cstate, req)
        self.apply(cstate, req, reaction)

    def apply(self, cstate, req, reaction):
        kind = reaction[0]
        net = self.net
        if kind == 'reply':
            net.send(cstate.conn, reaction[1])
        elif kind == 'hold':
            h = Held(self, cstate.conn, reaction[1], req)
            net.held.append(h)
        elif kind == 'silence':
            pass
        elif kind == 'close':
            net.server_close(cstate.conn, reset=False)
        elif kind == 'reset':
            net.server_close(cstate.conn, reset=True)
        elif kind == 'multi':
            for r in reaction[1]:
                self.apply(cstate, req, r)
        else:
            raise ValueError("unknown reaction %r" % (reaction,))

    def push_event(self, body, version=None):
        """Send an EVENT frame on every connection that registered."""
        for cs in self.conns:
            if cs.registered and not cs.conn.is_closed:
                v = version or cs.conn.protocol_version
                self.net.send(cs.conn, F.response(v, -1, 'EVENT', body))


class ConnState(object):
    def __init__(self, node, conn):
        self.node, self.conn = node, conn
        self.inbuf = bytearray()
        self.ready = False
        self.registered = None
        self.keyspace = None
        self.outstanding = {}
        self.decompress = None
        self.segments = False           # v5 framing negotiated (after STARTUP)
        self.frames_seen = 0

    def take_frames(self):
        out = []
        buf = self.inbuf
        while True:
            if len(buf) < 1:
                break
            v = buf[0] & 0x7f
            hl = F.header_len(v)
            if len(buf) < hl:
                break
            ln = int.from_bytes(buf[hl - 4:hl], 'big')
            if len(buf) < hl + ln:
                break
            out.append(bytes(buf[:hl + ln]))
            del buf[:hl + ln]
        return out


class SimNet(object):
    def __init__(self, world, addresses=('127.0.0.1',), dcs=None):
        self.world = world
        self.cluster_name = 'simcluster'
        self.partitioner = 'org.apache.cassandra.dht.Murmur3Partitioner'
        self.nodes = collections.OrderedDict()
        for i, a in enumerate(addresses):
            dc = dcs[i] if dcs else 'dc1'
            self.nodes[a] = SimNode(self, NodeInfo(a, dc=dc, tokens=[str(-9000000000000000000 + i * 1000000007)]))
        self.conns = []                 # every client connection ever created (registry)
        self.inbound = {}               # conn.sim_id -> deque of ('data', bytes) | ('eof',) | ('reset',)
        self.held = []
        self.wire_log = []              # all parsed requests in arrival order
        self.parse_failures = []
        self.requests_parsed = 0
        self.events = []                # (kind, ...) history material
        self.chunking = False           # deliver in random chunks
        self.hidden_peers = set()
        self._qids = {}
        world.io_sources.append(self)

    def query_id(self, query, keyspace):
        import hashlib
        return hashlib.md5(((keyspace or '') + '\x00' + query).encode('utf8')).digest()

    def peer_infos_for(self, node):
        return [n.info for a, n in self.nodes.items() if n is not node and a not in self.hidden_peers]

    def node_for(self, endpoint):
        addr = getattr(endpoint, 'address', endpoint)
        return self.nodes.get(addr)

    # -- client side registration ----------------------------------------------------------
    def register_conn(self, conn, creator):
        conn.sim_id = len(self.conns)
        conn.sim_creator = creator
        conn.sim_created_at = self.world.now
        self.conns.append(conn)
        self.inbound[conn.sim_id] = collections.deque()
        self.events.append(('conn_open', conn.sim_id, str(conn.endpoint), creator))
        return conn.sim_id

    def send(self, conn, data):
        try:
            stream = F.split_header(data)[2]
        except Exception:
            stream = None
        self.events.append(('node_send', conn.sim_id, stream, self.world.now))
        if conn.is_closed:
            return
        self.inbound[conn.sim_id].append(('data', bytes(data)))

    def server_close(self, conn, reset=False):
        self.inbound[conn.sim_id].append(('reset',) if reset else ('eof',))

    def client_closed(self, conn):
        self.events.append(('conn_closed', conn.sim_id))
        self.inbound[conn.sim_id].clear()

    # -- reactor interface -------------------------------------------------------------------
    def enabled_actions(self):
        acts = []
        for cid, q in self.inbound.items():
            if q:
                conn = self.conns[cid]
                if conn.is_closed and q[0][0] == 'data':
                    q.clear()
                    continue
                acts.append((('deliver', cid), (lambda cid=cid: self._deliver(cid))))
        return acts

    def _deliver(self, cid):
        q = self.inbound[cid]
        if not q:
            return
        conn = self.conns[cid]
        item = q.popleft()
        w = self.world
        if item[0] == 'data':
            data = item[1]
            if self.chunking and len(data) > 1 and w.chooser.flip('chunk', 0.3):
                cut = 1 + w.chooser.choose('cut', list(range(min(len(data) - 1, 16)))) * max(1, (len(data) - 1) // 16)
                cut = min(cut, len(data) - 1)
                q.appendleft(('data', data[cut:]))
                data = data[:cut]
            if conn.is_closed:
                return
            w.trace.append(('deliver', cid, len(data)))
            conn._iobuf.write(data)
            conn.process_io_buffer()
        elif item[0] == 'eof':
            w.trace.append(('eof', cid))
            conn.close()
        elif item[0] == 'reset':
            w.trace.append(('reset', cid))
            conn.defunct(ConnectionResetError(104, 'Connection reset by peer (simulated)'))
