"""Helpers shared by the request-routing monitors C16 / C17 / C19 (sim world).

* ``make_fixed_plan_policy()``   - a tiny LoadBalancingPolicy that yields hosts in a scripted order for the
                                   statements under test (natural order for everything else: control connection,
                                   session.prepare) and records how far every scripted plan was consumed;
* ``ErrGen``                     - scripted server errors (Plan actions) together with what the retry policy must be
                                   told about them and what exception a RETHROW must surface;
* ``make_oracle_retry_policy()`` - recording RetryPolicy returning seeded-random or scripted decisions.

The driver is imported lazily (the repository path is set up by the check).
"""

CLS = [0, 1, 2, 3, 4, 5, 6, 7, 10]        # ANY ONE TWO THREE QUORUM ALL LOCAL_QUORUM EACH_QUORUM LOCAL_ONE
WRITE_TYPES = ['SIMPLE', 'BATCH', 'UNLOGGED_BATCH', 'COUNTER', 'BATCH_LOG', 'CAS']
SERVER_KINDS = ['read_timeout', 'write_timeout', 'unavailable', 'overloaded', 'is_bootstrapping', 'server', 'truncate']
CONN_KINDS = ['reset', 'close']
DECISION_NAMES = {0: 'RETRY', 1: 'RETHROW', 2: 'IGNORE', 3: 'RETRY_NEXT_HOST'}
RETRY, RETHROW, IGNORE, RETRY_NEXT_HOST = 0, 1, 2, 3


def make_fixed_plan_policy():
    from cassandra.policies import LoadBalancingPolicy, HostDistance

    class FixedPlanPolicy(LoadBalancingPolicy):
        """order = list of addresses for the next statements under test (None: natural order);
        ignored = addresses reported at distance IGNORED (no pool is ever created)."""
        def __init__(self):
            LoadBalancingPolicy.__init__(self)
            self.hosts = []
            self.order = None
            self.ignored = set()
            self.plans = []          # one record per scripted plan handed out

        def populate(self, cluster, hosts):
            self.hosts = list(hosts)

        def distance(self, host):
            return HostDistance.IGNORED if host.address in self.ignored else HostDistance.LOCAL

        def on_up(self, host):
            if host not in self.hosts:
                self.hosts.append(host)

        on_add = on_up

        def on_down(self, host):
            pass

        def on_remove(self, host):
            if host in self.hosts:
                self.hosts.remove(host)

        def host(self, address):
            for h in self.hosts:
                if h.address == address:
                    return h
            raise KeyError(address)

        def make_query_plan(self, working_keyspace=None, query=None):
            if query is None or self.order is None:
                return [h for h in self.hosts if h.address not in self.ignored]
            rec = {'order': list(self.order), 'yielded': 0, 'exhausted': False, 'query': query}
            self.plans.append(rec)
            hosts = [self.host(a) for a in self.order]

            def gen():
                for h in hosts:
                    rec['yielded'] += 1
                    yield h
                rec['exhausted'] = True
            return gen()

    return FixedPlanPolicy()


class ErrGen(object):
    """Scripted failures: plan action + expected retry-policy call + expected RETHROW exception."""
    def __init__(self, rng):
        self.rng = rng

    def make(self, kind):
        """-> dict(kind, action, method, fields (dict of policy keyword arguments except query/retry_num/consistency),
                  consistency (the level the server reports, None = the level of the failed message))"""
        r = self.rng
        if kind == 'read_timeout':
            i = dict(consistency=r.choice(CLS), received=r.randint(0, 3), blockfor=r.randint(1, 4), data_present=r.random() < 0.5)
            return dict(kind=kind, action=('error', kind, i), method='on_read_timeout', consistency=i['consistency'],
                        fields=dict(required_responses=i['blockfor'], received_responses=i['received'], data_retrieved=i['data_present']))
        if kind == 'write_timeout':
            i = dict(consistency=r.choice(CLS), received=r.randint(0, 3), blockfor=r.randint(1, 4), write_type=r.choice(WRITE_TYPES))
            return dict(kind=kind, action=('error', kind, i), method='on_write_timeout', consistency=i['consistency'],
                        fields=dict(required_responses=i['blockfor'], received_responses=i['received'], write_type=i['write_type']))
        if kind == 'unavailable':
            i = dict(consistency=r.choice(CLS), required=r.randint(1, 4), alive=r.randint(0, 3))
            return dict(kind=kind, action=('error', kind, i), method='on_unavailable', consistency=i['consistency'],
                        fields=dict(required_replicas=i['required'], alive_replicas=i['alive']))
        if kind in ('overloaded', 'is_bootstrapping', 'server', 'truncate'):
            return dict(kind=kind, action=('error', kind, {}), method='on_request_error', consistency=None, fields=dict(error=kind))
        if kind in CONN_KINDS:
            return dict(kind=kind, action=kind, method='on_request_error', consistency=None, fields=dict(error='connection'))
        raise ValueError(kind)


def error_class_name(kind):
    return {'overloaded': 'OverloadedErrorMessage', 'is_bootstrapping': 'IsBootstrappingErrorMessage', 'server': 'ServerError',
            'truncate': 'TruncateError', 'connection': 'ConnectionShutdown'}[kind]


def describe_policy_error(error):
    """classify the ``error`` argument of on_request_error into the ErrGen vocabulary"""
    from cassandra.connection import ConnectionShutdown, ConnectionException
    from cassandra import protocol as P
    if isinstance(error, ConnectionShutdown):
        return 'connection'
    for kind, cls in (('overloaded', P.OverloadedErrorMessage), ('is_bootstrapping', P.IsBootstrappingErrorMessage),
                      ('truncate', P.TruncateError), ('server', P.ServerError)):
        if type(error) is cls:
            return kind
    if isinstance(error, ConnectionException):
        return 'connection-exception:' + type(error).__name__
    return 'other:' + type(error).__name__


def rethrown_matches(e, exc):
    """does the exception handed to the errback correspond to the scripted error ``e`` (ErrGen.make result)?"""
    import cassandra
    from cassandra import protocol as P
    from cassandra.connection import ConnectionShutdown
    k = e['kind']
    f = e['fields']
    if k == 'read_timeout':
        return (type(exc) is cassandra.ReadTimeout and exc.consistency == e['consistency'] and exc.required_responses == f['required_responses']
                and exc.received_responses == f['received_responses'] and exc.data_retrieved == f['data_retrieved'])
    if k == 'write_timeout':
        from cassandra import WriteType
        return (type(exc) is cassandra.WriteTimeout and exc.consistency == e['consistency'] and exc.required_responses == f['required_responses']
                and exc.received_responses == f['received_responses'] and exc.write_type == WriteType.name_to_value[f['write_type']])
    if k == 'unavailable':
        return (type(exc) is cassandra.Unavailable and exc.consistency == e['consistency'] and exc.required_replicas == f['required_replicas']
                and exc.alive_replicas == f['alive_replicas'])
    if k in CONN_KINDS:
        return isinstance(exc, ConnectionShutdown)
    cls = getattr(P, error_class_name(k))
    return type(exc) is cls


def make_oracle_retry_policy(rng=None, weights=(3, 1, 1, 3), p_keep_cl=0.4, script=None):
    """Recording RetryPolicy.  Decisions come from ``script`` (a list, consumed in order) if given, else from ``rng``
    (weights are for RETRY, RETHROW, IGNORE, RETRY_NEXT_HOST).  ``log`` holds one entry per consultation:
    dict(method, query, retry_num, consistency, fields, decision)."""
    from cassandra.policies import RetryPolicy

    class OraclePolicy(RetryPolicy):
        def __init__(self):
            self.log = []
            self.closed = False
            self.window = None       # dict(allowed=[decision kinds]): draw from these and keep the consistency level (concurrent errors)
            self.script = list(script) if script is not None else None

        def _decide(self, method, query, retry_num, consistency, fields):
            if self.closed:
                return (RetryPolicy.RETHROW, None)
            if self.script is not None:
                d = self.script.pop(0) if self.script else (RetryPolicy.RETHROW, None)
            elif self.window is not None:
                d = (rng.choice(self.window['allowed']), None)
            else:
                kind = rng.choices([RETRY, RETHROW, IGNORE, RETRY_NEXT_HOST], weights)[0]
                cl = None if rng.random() < p_keep_cl else rng.choice(CLS)
                d = (kind, cl)
            self.log.append(dict(method=method, query=query, retry_num=retry_num, consistency=consistency, fields=fields, decision=d))
            return d

        def on_read_timeout(self, query, consistency, required_responses, received_responses, data_retrieved, retry_num):
            return self._decide('on_read_timeout', query, retry_num, consistency,
                                dict(required_responses=required_responses, received_responses=received_responses, data_retrieved=data_retrieved))

        def on_write_timeout(self, query, consistency, write_type, required_responses, received_responses, retry_num):
            from cassandra import WriteType
            return self._decide('on_write_timeout', query, retry_num, consistency,
                                dict(required_responses=required_responses, received_responses=received_responses,
                                     write_type=dict((v, k) for k, v in WriteType.name_to_value.items()).get(write_type, write_type)))

        def on_unavailable(self, query, consistency, required_replicas, alive_replicas, retry_num):
            return self._decide('on_unavailable', query, retry_num, consistency,
                                dict(required_replicas=required_replicas, alive_replicas=alive_replicas))

        def on_request_error(self, query, consistency, error, retry_num):
            return self._decide('on_request_error', query, retry_num, consistency, dict(error=describe_policy_error(error)))

    assert (RetryPolicy.RETRY, RetryPolicy.RETHROW, RetryPolicy.IGNORE, RetryPolicy.RETRY_NEXT_HOST) == (RETRY, RETHROW, IGNORE, RETRY_NEXT_HOST)
    return OraclePolicy()


def harness_problems(env):
    return [('thread', n, repr(e)) for (n, e, tb) in env.world.errors] + [('parse', p) for p in env.net.parse_failures]


def unusable_addresses(session, lbp, addrs):
    """addresses whose host has no pool the session could borrow from right now (read at quiescence, under world.inspect())"""
    out = set()
    for a in addrs:
        try:
            h = lbp.host(a)
        except KeyError:
            out.add(a)
            continue
        p = session._pools.get(h)
        if not p or p.is_shutdown:
            out.add(a)
        elif hasattr(p, '_connection') and p._connection is None:
            out.add(a)
    return out


def connect_deterministically(env, cluster, chooser, keyspace=None):
    """cluster.connect() under a deterministic chooser (the world must have been built with W.PrefixChooser([])), then switch to
    ``chooser``.  Session.__init__ iterates sets of Future objects (address order): under a random chooser the number of choices made
    during connect - and with it the rest of the history - would differ from run to run."""
    session = cluster.connect(keyspace) if keyspace else cluster.connect()
    env.world.settle(advance=False)
    env.world.chooser = chooser
    return session
