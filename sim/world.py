"""Deterministic world: real OS threads, but exactly one runs at a time (a baton), and the
baton only changes hands at synchronisation points of the substituted primitives
(Lock/RLock/Event/Condition/Thread/time/executor/scheduler/wait_futures/Future.result).

The driver's Cluster / Session / pools / Connection / ResponseFuture code runs unmodified on
top of these primitives.  Which runnable thread continues, whether virtual time advances
instead, and in what chunks a node's bytes arrive are *choices* made by a Chooser: seeded
random, replay of a recorded choice list, or an enumerating explorer.  Time is virtual: it
only moves when the chooser elects to or when nothing else can run.

A blocked thread is described by a predicate and an optional virtual deadline; the scheduler
re-evaluates predicates at every step (there are only a handful of threads).
"""
import collections
import concurrent.futures
import heapq
import sys
import threading
import time as _real_time
import traceback

BASE_TIME = 100000.0      # small on purpose: doubles keep microsecond resolution around it


class WorldKilled(BaseException):
    """raised inside sim threads when the world is torn down"""


class WorldHang(Exception):
    """every thread is blocked forever (no deadline, nothing deliverable)"""


class WorldLimit(Exception):
    """step / virtual-time budget exhausted (inconclusive, never a verdict)"""


class SimThread(object):
    def __init__(self, world, name, kind):
        self.world = world
        self.name = name
        self.kind = kind              # main | exec | reactor | driver
        self.sem = threading.Semaphore(0)
        self.state = 'new'            # new runnable blocked done
        self.pred = None
        self.deadline = None
        self.why = ''
        self.real = None
        self.exc = None
        self.timed_out = False

    def __repr__(self):
        return "<SimThread %s %s %s>" % (self.name, self.state, self.why)


class RandomChooser(object):
    def __init__(self, rng, p_time=0.08, p_preempt=0.15):
        self.rng = rng
        self.p_time = p_time
        self.p_preempt = p_preempt
        self.log = []

    def choose(self, kind, options):
        """options: list of labels; returns index"""
        if len(options) == 1:
            i = 0
        elif kind == 'run' and options[-1] == '<time>':
            i = len(options) - 1 if self.rng.random() < self.p_time else self.rng.randrange(len(options) - 1)
        else:
            i = self.rng.randrange(len(options))
        self.log.append(i)
        return i

    def flip(self, kind, p=None):
        r = self.rng.random() < (self.p_preempt if p is None else p)
        self.log.append(1 if r else 0)
        return r


class ReplayChooser(object):
    def __init__(self, log):
        self.src = list(log)
        self.pos = 0
        self.log = []

    def _next(self, n):
        v = self.src[self.pos] if self.pos < len(self.src) else 0
        self.pos += 1
        v = min(v, n - 1)
        self.log.append(v)
        return v

    def choose(self, kind, options):
        return self._next(len(options))

    def flip(self, kind, p=None):
        return bool(self._next(2))


class PrefixChooser(object):
    """Follow a prefix of choices, then always take option 0 / no preemption; records the arity of every
    choice point so that an explorer can enumerate the tree (stateless DFS)."""
    def __init__(self, prefix):
        self.prefix = list(prefix)
        self.pos = 0
        self.log = []
        self.arity = []

    def _next(self, n):
        v = self.prefix[self.pos] if self.pos < len(self.prefix) else 0
        self.pos += 1
        v = min(v, n - 1)
        self.log.append(v)
        self.arity.append(n)
        return v

    def choose(self, kind, options):
        if len(options) == 1:
            return 0
        return self._next(len(options))

    def flip(self, kind, p=None):
        return False


class World(object):
    def __init__(self, chooser, max_steps=200000, max_virtual_time=3600.0, preempt=True):
        self.chooser = chooser
        self.now = 0.0
        self.threads = []
        self.by_ident = {}
        self.timers = []                 # heap of [when, seq, SimTimer]
        self.seq = 0
        self.steps = 0
        self.max_steps = max_steps
        self.max_virtual_time = max_virtual_time
        self.dead = False
        self.hang = None
        self.trace = []                  # (label, ...) event-order signature material
        self.preempt = preempt
        self.main = None
        self.reactor = None
        self.io_sources = []             # objects with .enabled_actions() -> list of (label, fn)
        self.errors = []                 # unexpected exceptions in sim threads
        self.quiesce = None              # None | 'no_time' | 'advance'
        self.quiesce_until = None
        self.tcount = 0
        self.listeners = []
        self.limit_hit = False

    # ------------------------------------------------------------------ threads
    def attach_main(self):
        t = SimThread(self, 'main', 'main')
        t.state = 'runnable'
        t.real = threading.current_thread()
        self.by_ident[threading.get_ident()] = t
        self.threads.append(t)
        self.main = t
        return t

    def cur(self):
        return self.by_ident.get(threading.get_ident())

    def spawn(self, fn, name=None, kind='driver'):
        self.tcount += 1
        t = SimThread(self, name or ('thr-%d' % self.tcount), kind)
        self.threads.append(t)

        def body():
            self.by_ident[threading.get_ident()] = t
            t.sem.acquire()
            try:
                if self.dead:
                    return
                fn()
            except WorldKilled:
                pass
            except BaseException as e:            # noqa
                t.exc = e
                self.errors.append((t.name, e, traceback.format_exc()))
            finally:
                t.state = 'done'
                self.by_ident.pop(threading.get_ident(), None)
                if not self.dead:
                    try:
                        self._handoff(t, leaving=True)
                    except WorldKilled:
                        pass
        old = threading.stack_size()
        try:
            threading.stack_size(512 * 1024)
        except (ValueError, RuntimeError):
            pass
        t.real = threading.Thread(target=body, name='sim-' + t.name, daemon=True)
        try:
            threading.stack_size(old)
        except (ValueError, RuntimeError):
            pass
        t.state = 'runnable'
        t.real.start()
        return t

    # ------------------------------------------------------------------ time / timers
    def time(self):
        # reading the clock takes (virtual) time: a loop such as ``while remaining >= 0: wait(remaining)`` must
        # make progress exactly as it does on a real clock
        self.now += 1e-6
        return BASE_TIME + self.now

    def add_timer(self, delay, fn, label='timer'):
        self.seq += 1
        tm = SimTimer(self, self.now + max(0.0, float(delay)), fn, label, self.seq)
        heapq.heappush(self.timers, (tm.when, tm.seq, tm))
        return tm

    def _due_timers(self):
        while self.timers and self.timers[0][2].cancelled:
            heapq.heappop(self.timers)
        return self.timers and self.timers[0][0] <= self.now

    def _next_deadline(self):
        while self.timers and self.timers[0][2].cancelled:
            heapq.heappop(self.timers)
        cands = []
        if self.timers:
            cands.append(self.timers[0][0])
        for t in self.threads:
            if t.state == 'blocked' and t.deadline is not None:
                cands.append(t.deadline)
        return min(cands) if cands else None

    # ------------------------------------------------------------------ scheduling core
    def _runnable(self, t):
        if t.state == 'runnable':
            return True
        if t.state != 'blocked':
            return False
        if t.pred is not None:
            try:
                if t.pred():
                    return True
            except WorldKilled:
                raise
        if t.deadline is not None and t.deadline <= self.now:
            return True
        return False

    def _pick(self, me):
        """Decide who runs next. Returns a SimThread."""
        while True:
            self.steps += 1
            if self.steps > self.max_steps or self.now > self.max_virtual_time:
                self.limit_hit = True
                self.hang = WorldLimit("step/time budget exhausted (steps=%d, t=%.1f)" % (self.steps, self.now))
                return self.main
            cands = [t for t in self.threads if t is not self.main and self._runnable(t)]
            main_ok = self._runnable(self.main) and self.quiesce is None
            if main_ok:
                cands.append(self.main)
            nd = self._next_deadline()
            if cands:
                labels = [t.name for t in cands]
                allow_time = (nd is not None and nd > self.now and self.quiesce != 'no_time' and
                              (self.quiesce_until is None or nd <= self.quiesce_until))
                if allow_time:
                    labels.append('<time>')
                i = self.chooser.choose('run', labels)
                if allow_time and i == len(labels) - 1:
                    self.now = nd
                    self.trace.append(('time',))
                    continue
                return cands[i]
            # nothing can run now
            if self.quiesce == 'no_time':
                return self.main
            if nd is not None and (self.quiesce_until is None or nd <= self.quiesce_until):
                if nd > self.now:
                    self.now = nd
                    self.trace.append(('time',))
                continue
            if self.quiesce is not None:
                return self.main
            # main is blocked forever as well
            blocked = [(t.name, t.why) for t in self.threads if t.state == 'blocked']
            self.hang = WorldHang("all threads blocked with no deadline: %r" % (blocked,))
            return self.main

    def _handoff(self, me, leaving=False):
        nxt = self._pick(me)
        if nxt is me and not leaving:
            return
        nxt.sem.release()
        if leaving:
            return
        me.sem.acquire()
        if self.dead and me is not self.main:
            raise WorldKilled()

    def block(self, pred=None, deadline=None, why=''):
        """Block the calling sim thread until pred() holds or the virtual deadline passes.
        Returns True if pred holds on wake-up."""
        me = self.cur()
        if me is None or self.dead:
            if self.dead and me is not None and me is not self.main:
                raise WorldKilled()
            return bool(pred()) if pred else True
        if pred is not None and pred():
            return True
        me.state, me.pred, me.deadline, me.why = 'blocked', pred, deadline, why
        while True:
            self._handoff(me)
            if me is self.main and self.hang is not None:
                h, self.hang = self.hang, None
                me.state, me.pred, me.deadline = 'runnable', None, None
                raise h
            ok = bool(pred()) if pred is not None else True
            if ok or (deadline is not None and deadline <= self.now) or pred is None:
                me.state, me.pred, me.deadline, me.why = 'runnable', None, None, ''
                return ok
            # woken spuriously (should not happen); block again

    def maybe_yield(self, tag=''):
        """Optional preemption point (e.g. before taking a lock)."""
        if not self.preempt or self.dead:
            return
        me = self.cur()
        if me is None:
            return
        if not self.chooser.flip('preempt'):
            return
        me.state = 'runnable'
        self._handoff(me)
        if me is self.main and self.hang is not None:
            h, self.hang = self.hang, None
            raise h

    # ------------------------------------------------------------------ main-thread controls
    def settle(self, advance=True, until=None):
        """Run everything else until nothing can run (optionally letting virtual time advance, at most up to
        virtual time ``until``).  Returns when quiescent."""
        me = self.cur()
        assert me is self.main
        self.quiesce = 'advance' if advance else 'no_time'
        self.quiesce_until = None if until is None else until
        me.state, me.pred, me.deadline, me.why = 'blocked', None, None, 'settle'
        try:
            self._handoff(me)
        finally:
            self.quiesce = None
            self.quiesce_until = None
            me.state, me.pred, me.deadline, me.why = 'runnable', None, None, ''
        if self.hang is not None:
            h, self.hang = self.hang, None
            raise h

    def run_for(self, dt):
        self.settle(advance=True, until=self.now + dt)
        if self.now < self.quiesce_target(dt):
            pass

    def quiesce_target(self, dt):
        return self.now

    def advance_to(self, t):
        self.settle(advance=True, until=t)
        if self.now < t:
            self.now = t

    def inspect(self):
        """Context manager for oracles: the calling (main) thread keeps the baton - no preemption at lock
        acquisitions - so the state it reads is the quiescent state it asked for."""
        w = self

        class _Inspect(object):
            def __enter__(self_):
                self_.saved = w.preempt
                w.preempt = False

            def __exit__(self_, *a):
                w.preempt = self_.saved
                return False
        return _Inspect()

    def pending_work(self):
        """Is anything other than main runnable or scheduled?"""
        for t in self.threads:
            if t is not self.main and self._runnable(t):
                return True
        return self._next_deadline() is not None

    def close(self):
        """Tear down: wake every sim thread with WorldKilled."""
        self.dead = True
        for t in list(self.threads):
            if t is not self.main and t.state != 'done':
                t.sem.release()
        for t in list(self.threads):
            if t is not self.main and t.real is not None:
                t.real.join(timeout=2.0)
        leaked = [t.name for t in self.threads if t is not self.main and t.real is not None and t.real.is_alive()]
        self.by_ident.pop(threading.get_ident(), None)
        return leaked


class SimTimer(object):
    def __init__(self, world, when, fn, label, seq):
        self.world, self.when, self.fn, self.label, self.seq = world, when, fn, label, seq
        self.cancelled = False
        self.fired = False

    def cancel(self):
        self.cancelled = True

    # the driver's Timer objects expose .end / .finish in some reactors; only cancel() is used through create_timer


# ---------------------------------------------------------------------- primitives
class Prims(object):
    """Factory of world-bound stand-ins for threading / time / futures primitives."""
    def __init__(self, world):
        self.world = world
        w = world

        class SimLock(object):
            def __init__(self):
                self.owner = None

            def acquire(self, blocking=True, timeout=-1):
                me = w.cur()
                if me is None or w.dead:
                    if self.owner is None:
                        self.owner = me or 'foreign'
                        return True
                    if w.dead:
                        return True
                    raise RuntimeError("sim lock contended from a foreign thread")
                w.maybe_yield('lock')
                if self.owner is None:
                    self.owner = me
                    return True
                if self.owner is me:
                    raise RuntimeError("deadlock: non-reentrant lock re-acquired by %s" % me.name)
                if not blocking:
                    return False
                dl = None if timeout is None or timeout < 0 else w.now + timeout
                ok = w.block(lambda: self.owner is None, dl, 'lock')
                if ok:
                    self.owner = me
                return ok

            def release(self):
                self.owner = None

            def locked(self):
                return self.owner is not None

            __enter__ = acquire

            def __exit__(self, *a):
                self.release()

        class SimRLock(object):
            def __init__(self):
                self.owner = None
                self.count = 0

            def acquire(self, blocking=True, timeout=-1):
                me = w.cur()
                if me is None or w.dead:
                    me = me or 'foreign'
                    if self.owner in (None, me) or w.dead:
                        self.owner = me
                        self.count += 1
                        return True
                    raise RuntimeError("sim rlock contended from a foreign thread")
                if self.owner is me:
                    self.count += 1
                    return True
                w.maybe_yield('rlock')
                if self.owner is None:
                    self.owner, self.count = me, 1
                    return True
                if not blocking:
                    return False
                dl = None if timeout is None or timeout < 0 else w.now + timeout
                ok = w.block(lambda: self.owner is None, dl, 'rlock')
                if ok:
                    self.owner, self.count = me, 1
                return ok

            hooks = None          # callables run at the outermost release while the lock is still held

            def release(self):
                if self.count == 1 and self.hooks and not w.dead:
                    for h in self.hooks:
                        h()
                self.count -= 1
                if self.count <= 0:
                    self.owner, self.count = None, 0

            def _is_owned(self):
                return self.owner is w.cur()

            def _release_save(self):
                st = (self.owner, self.count)
                self.owner, self.count = None, 0
                return st

            def _acquire_restore(self, st):
                me = st[0]
                w.block(lambda: self.owner is None, None, 'rlock-restore')
                self.owner, self.count = st

            __enter__ = acquire

            def __exit__(self, *a):
                self.release()

        class SimEvent(object):
            def __init__(self):
                self._flag = False

            def is_set(self):
                return self._flag

            isSet = is_set

            def set(self):
                self._flag = True
                w.maybe_yield('event-set')

            def clear(self):
                self._flag = False

            def wait(self, timeout=None):
                if self._flag:
                    return True
                dl = None if timeout is None else w.now + max(0.0, timeout)
                w.block(lambda: self._flag, dl, 'event')
                return self._flag

        class SimCondition(object):
            def __init__(self, lock=None):
                self._lock = lock if lock is not None else SimRLock()
                self._waiters = collections.deque()
                self.acquire = self._lock.acquire
                self.release = self._lock.release

            def __enter__(self):
                return self._lock.__enter__()

            def __exit__(self, *a):
                return self._lock.__exit__(*a)

            def wait(self, timeout=None):
                tok = [False]
                self._waiters.append(tok)
                if isinstance(self._lock, SimRLock):
                    st = self._lock._release_save()
                else:
                    st = None
                    self._lock.release()
                dl = None if timeout is None else w.now + max(0.0, timeout)
                try:
                    w.block(lambda: tok[0], dl, 'condition')
                finally:
                    try:
                        self._waiters.remove(tok)
                    except ValueError:
                        pass
                    if st is not None:
                        self._lock._acquire_restore(st)
                    else:
                        self._lock.acquire()
                return tok[0]

            def wait_for(self, predicate, timeout=None):
                end = None if timeout is None else w.now + timeout
                r = predicate()
                while not r:
                    if end is not None and w.now >= end:
                        break
                    self.wait(None if end is None else end - w.now)
                    r = predicate()
                return r

            def notify(self, n=1):
                k = 0
                for tok in self._waiters:
                    if not tok[0]:
                        tok[0] = True
                        k += 1
                        if k >= n:
                            break

            def notify_all(self):
                for tok in self._waiters:
                    tok[0] = True

            notifyAll = notify_all

        class SimThreadObj(object):
            """stand-in for threading.Thread(target=...) used directly by the driver"""
            def __init__(self, group=None, target=None, name=None, args=(), kwargs=None, daemon=None):
                if isinstance(self, threading.Thread):
                    # a driver class that subclassed the real Thread before the name was patched calls
                    # ``Thread.__init__(self, ...)`` through the module global: initialise the real base
                    threading.Thread.__init__(self, group=group, target=target, name=name, args=args, kwargs=kwargs, daemon=daemon)
                    return
                self._target, self._args, self._kwargs = target, args, kwargs or {}
                self.name = name or 'driver-thread'
                self.daemon = daemon
                self._t = None

            def run(self):
                if self._target:
                    self._target(*self._args, **self._kwargs)

            def start(self):
                self._t = w.spawn(self.run, name=None, kind='driver')

            def join(self, timeout=None):
                if self._t is None:
                    return
                dl = None if timeout is None else w.now + timeout
                w.block(lambda: self._t.state == 'done', dl, 'join')

            def is_alive(self):
                return self._t is not None and self._t.state != 'done'

            isAlive = is_alive

            def setDaemon(self, d):
                self.daemon = d

        class SimTime(object):
            def time(self):
                return w.time()

            def sleep(self, d):
                w.block(None, w.now + max(0.0, d), 'sleep')

            def monotonic(self):
                return w.now

            def perf_counter(self):
                return w.now

            def __getattr__(self, name):
                return getattr(_real_time, name)

        DoneAndNotDone = collections.namedtuple('DoneAndNotDoneFutures', 'done not_done')

        def wait_futures(fs, timeout=None, return_when=concurrent.futures.ALL_COMPLETED):
            fs = set(fs)

            def pred():
                done = [f for f in fs if f.done()]
                if return_when == concurrent.futures.FIRST_COMPLETED:
                    return bool(done) or not fs
                if return_when == concurrent.futures.FIRST_EXCEPTION:
                    return len(done) == len(fs) or any((not f.cancelled()) and f.exception() is not None for f in done)
                return len(done) == len(fs)
            dl = None if timeout is None else w.now + timeout
            w.block(pred, dl, 'wait_futures')
            # ordered results (by submission sequence) instead of sets: callers iterate them, and the
            # address-based order of a set of Future objects would make schedules irreproducible
            ordered = sorted(fs, key=lambda f: getattr(f, '_sim_seq', 0))
            done = [f for f in ordered if f.done()]
            return DoneAndNotDone(done, [f for f in ordered if not f.done()])

        self.Lock, self.RLock, self.Event, self.Condition = SimLock, SimRLock, SimEvent, SimCondition
        self.Thread, self.time, self.wait_futures = SimThreadObj, SimTime(), wait_futures


class SimExecutor(object):
    """ThreadPoolExecutor stand-in: N worker sim threads, FIFO queue, real concurrent.futures.Future objects."""
    def __init__(self, world, max_workers=2, name='exec'):
        self.world = world
        self.q = collections.deque()
        self._shutdown = False
        self.name = name
        self.workers = []
        self.submitted = 0
        self.max_workers = max_workers
        self.busy = 0

    def _ensure_workers(self):
        while len(self.workers) < self.max_workers:
            i = len(self.workers)
            self.workers.append(self.world.spawn(self._loop, name='%s-%d' % (self.name, i), kind='exec'))

    def _loop(self):
        w = self.world
        while True:
            w.block(lambda: bool(self.q) or self._shutdown, None, 'idle')
            if not self.q:
                if self._shutdown:
                    return
                continue
            fut, fn, a, kw = self.q.popleft()
            if not fut.set_running_or_notify_cancel():
                continue
            self.busy += 1
            try:
                r = fn(*a, **kw)
            except WorldKilled:
                raise
            except BaseException as e:       # noqa
                fut.set_exception(e)
            else:
                fut.set_result(r)
            finally:
                self.busy -= 1

    def submit(self, fn, *a, **kw):
        if self._shutdown:
            raise RuntimeError('cannot schedule new futures after shutdown')
        fut = concurrent.futures.Future()
        self.world.seq += 1
        fut._sim_seq = self.world.seq
        self.q.append((fut, fn, a, kw))
        self.submitted += 1
        self._ensure_workers()
        self.world.maybe_yield('submit')
        return fut

    def shutdown(self, wait=True, cancel_futures=False):
        self._shutdown = True
        if wait and self.world.cur() is not None:
            me = self.world.cur()
            others = [t for t in self.workers if t is not me]
            self.world.block(lambda: all(t.state == 'done' for t in others), None, 'executor-shutdown')

    def idle(self):
        return not self.q and self.busy == 0


class SimScheduler(object):
    """cluster.scheduler stand-in: delayed submission to the executor on the virtual clock."""
    def __init__(self, world, executor):
        self.world = world
        self._executor = executor
        self.is_shutdown = False
        self.scheduled = []          # (when, fn, args) log for monitors
        self.pending = []

    def shutdown(self):
        self.is_shutdown = True
        for tm in self.pending:
            tm.cancel()

    def schedule(self, delay, fn, *args, **kwargs):
        return self._insert(delay, (fn, args, tuple(kwargs.items())))

    def schedule_unique(self, delay, fn, *args, **kwargs):
        task = (fn, args, tuple(kwargs.items()))
        for tm in self.pending:
            if not tm.cancelled and not tm.fired and getattr(tm, 'task', None) == task:
                return
        return self._insert(delay, task)

    def _insert(self, delay, task):
        if self.is_shutdown:
            return
        fn, args, kw = task
        self.scheduled.append((self.world.now + delay, fn, args))

        def fire():
            tm.fired = True
            if self.is_shutdown:
                return
            try:
                fut = self._executor.submit(fn, *args, **dict(kw))
            except RuntimeError:
                return
        tm = self.world.add_timer(delay, fire, label='sched')
        tm.task = task
        self.pending.append(tm)
        self.pending = [t for t in self.pending if not t.fired and not t.cancelled]
        return tm


class Reactor(object):
    """The single event-loop thread: delivers node bytes to connections and fires timers."""
    def __init__(self, world):
        self.world = world
        self.thread = world.spawn(self._loop, name='reactor', kind='reactor')
        world.reactor = self

    def _enabled(self):
        w = self.world
        acts = []
        for src in w.io_sources:
            acts.extend(src.enabled_actions())
        if w._due_timers():
            acts.append(('timer', self._fire_timer))
        return acts

    def _fire_timer(self):
        w = self.world
        while w.timers and w.timers[0][2].cancelled:
            heapq.heappop(w.timers)
        if not w.timers or w.timers[0][0] > w.now:
            return
        _, _, tm = heapq.heappop(w.timers)
        tm.fired = True
        w.trace.append(('timer', tm.label))
        tm.fn()

    def _loop(self):
        w = self.world
        while True:
            w.block(lambda: bool(self._enabled()), None, 'io-idle')
            acts = self._enabled()
            if not acts:
                continue
            i = w.chooser.choose('io', [a[0] for a in acts])
            label, fn = acts[i]
            try:
                fn()
            except WorldKilled:
                raise
            except Exception as e:       # a reactor swallows/logs handler errors; record for monitors
                w.errors.append(('reactor:' + str(label), e, traceback.format_exc()))


_future_patched = []


def patch_future_result(world_getter):
    """Make concurrent.futures.Future.result()/exception() block through the world when called from a sim thread."""
    if _future_patched:
        _future_patched[0] = world_getter
        return
    _future_patched.append(world_getter)
    F = concurrent.futures.Future
    orig_result, orig_exc = F.result, F.exception

    def result(self, timeout=None):
        w = _future_patched[0]()
        if w is not None and not w.dead and w.cur() is not None and not self.done():
            dl = None if timeout is None else w.now + timeout
            w.block(self.done, dl, 'future.result')
            if not self.done():
                raise concurrent.futures.TimeoutError()
        return orig_result(self, timeout if (w is None or w.cur() is None) else 0)

    def exception(self, timeout=None):
        w = _future_patched[0]()
        if w is not None and not w.dead and w.cur() is not None and not self.done():
            dl = None if timeout is None else w.now + timeout
            w.block(self.done, dl, 'future.exception')
            if not self.done():
                raise concurrent.futures.TimeoutError()
        return orig_exc(self, timeout if (w is None or w.cur() is None) else 0)
    F.result, F.exception = result, exception
