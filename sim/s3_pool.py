"""Shared scaffolding of the pool monitors C12 / C13 (deterministic world).

Nothing of the driver is altered.  What is added, from the outside:

* ``Traced`` - subclass of the world's SimConnection whose ``close()`` first records what is still registered on
  the connection (pending handlers, orphaned ids, in_flight) and then runs the harness close; new connections get
  the in_flight invariant hook on ``conn.lock`` right after construction.
* ``FlakyNode`` - SimNode whose ``up`` can refuse the next N connection attempts, or follow a scripted accept/refuse pattern (bounded: a pool retries a failed
  replacement immediately and forever, an unbounded refusal would never quiesce).
* handshake hold - OPTIONS/STARTUP answers of connections opened by a pool's replace/grow path can be kept back, so
  that a scenario decides when a replacement finishes connecting (e.g. after ``shutdown()``).
* keyspace - a session keyspace makes every new pool connection do a blocking ``USE`` round trip, which the handshake hold covers too.
* timer thread - optionally ``create_timer`` callbacks (client timeouts) run on a thread of their own instead of the reactor thread, as in
  reactors whose timers are not served by the socket thread: a timeout and a response can then interleave at lock acquisitions.
* ``NeverConvict`` - a user conviction policy that never marks the host down, which is what sends a failed
  connection down the pool's ``_replace`` path instead of the shutdown path.
"""
import collections
import random

from sim import world as W
from sim.env import SimEnv
from sim.node import SimNode
from sim.scen import Plan, Recorder, uid_query, uid_of

POOL_CREATORS = ('pool-init', 'pool-replace', 'pool-grow')


class FlakyNode(SimNode):
    @property
    def up(self):
        pat = getattr(self, '_pattern', None)
        if pat:
            # scripted fate of the next connection attempts (True = refused); bounded, so a retrying pool always gets through in the end
            if pat.pop(0):
                self.refused = getattr(self, 'refused', 0) + 1
                return False
            return self.__dict__.get('_up', True)
        if getattr(self, '_refuse', 0) > 0:
            self._refuse -= 1
            self.refused = getattr(self, 'refused', 0) + 1
            return False
        return self.__dict__.get('_up', True)

    @up.setter
    def up(self, v):
        self.__dict__['_up'] = v


def owner_of(conn):
    """the pool that created this connection (it passed its bound on_orphaned_stream_released to the factory)"""
    cb = getattr(conn, '_on_orphaned_stream_released', None)
    return getattr(cb, '__self__', None)


class PoolWorld(object):
    def __init__(self, seed, proto, K=None, thr=None, nodes=1, p_preempt=0.1, never_convict=False, v2cfg=None, chunking=False, keyspace=None,
                 timer_thread=False):
        self.seed, self.proto, self.K, self.thr = seed, proto, K, thr
        self.never_convict = never_convict
        self.v2cfg = v2cfg
        self.keyspace = keyspace
        self.timer_thread = timer_thread
        self.timer_q = collections.deque()
        random.seed(seed)            # the driver draws from the global generator: pin it per history
        self.ch = W.RandomChooser(random.Random(seed * 7 + 1), p_time=0.0, p_preempt=p_preempt)
        self.addrs = ['127.0.0.%d' % (i + 1) for i in range(nodes)]
        self.env = SimEnv(self.ch, addresses=self.addrs)
        self.world = self.env.world
        self.net = self.env.net
        self.net.chunking = chunking
        self.plan = Plan()
        self.closes = []             # snapshots taken at the first close() of every connection
        self.minmax = {}             # sim_id -> [min in_flight, max in_flight] seen under conn.lock
        self.trashed = set()         # sim_ids seen in their pool's _trash under conn.lock
        self.checks = [0]
        self.phase = ['run']
        self.hold_handshake = [False]
        self.fail_when_ready = [None]
        self.use_script = {}            # node address -> [bool, ...]
        self.use_kills = 0
        self.hold_init_of = [None]      # address of a node whose pool-init connections are stuck in their set-up
        self.held_handshakes = []
        self.direct_events = []
        self.replace_log = []
        self.pool_info = {}
        self.in_service = set()
        self.trashed_at = {}
        self.free_and_orphaned = {}
        self.session_shutdown_trace = None
        self.viol = []
        pw = self
        base = self.env.conn_class

        class Traced(base):
            sim_connected_trace = None        # world.trace index at which the handshake completed (connected_event set)

            def __init__(self, *a, **kw):
                self.sim_created_trace = len(pw.world.trace)
                base.__init__(self, *a, **kw)
                pw.hook(self)
                pw.watch_pool(owner_of(self))
                ev = self.connected_event
                real_set = ev.set

                def set_and_note():
                    if not ev.is_set() and self.sim_connected_trace is None:
                        self.sim_connected_trace = len(pw.world.trace)
                    return real_set()
                ev.set = set_and_note

            @classmethod
            def create_timer(cls, timeout, callback):
                if not pw.timer_thread:
                    return base.create_timer(timeout, callback)
                # reactors whose timers do not run on the thread that reads the sockets: the callback is handed to a timer thread
                box = []

                def due():
                    pw.timer_q.append((box[0], callback))
                box.append(pw.world.add_timer(timeout, due, label='conn-timer'))
                return box[0]

            def close(self):
                if not self.is_closed:
                    pool = owner_of(self)
                    pw.closes.append({'conn': self.sim_id, 'pending': sorted(self._requests.keys()), 'orphans': sorted(self.orphaned_request_ids),
                                      'in_flight': self.in_flight, 'defunct': bool(self.is_defunct), 'phase': pw.phase[0],
                                      'threshold_reached': bool(self.orphaned_threshold_reached), 'connected': bool(self.connected_event.is_set()),
                                      'pool_shutdown': bool(getattr(pool, 'is_shutdown', False)), 't': pw.world.now,
                                      'trace_index': len(pw.world.trace)})
                return base.close(self)
        if K is not None:
            Traced.max_in_flight = K
            Traced.orphaned_threshold = thr if thr is not None else 3 * K // 4
        self.env.conn_class = Traced
        for n in self.net.nodes.values():
            n.__class__ = FlakyNode
            n._refuse = 0
            n.behaviour = self.behaviour

    # ------------------------------------------------------------------ node side
    def behaviour(self, node, cstate, req):
        is_use = req['op'] == 'QUERY' and req['query'].lstrip().upper().startswith('USE ')
        setup = req['op'] in ('OPTIONS', 'STARTUP') or is_use
        if setup and ((self.hold_handshake[0] and cstate.conn.sim_creator in ('pool-replace', 'pool-grow')) or
                      (self.hold_init_of[0] == node.address and cstate.conn.sim_creator == 'pool-init')):
            r = node.default_reaction(cstate, req)
            self.held_handshakes.append((cstate, req, r))
            return ('silence',)
        if is_use and cstate.conn.sim_creator == 'pool-init' and self.use_script.get(node.address):
            # scripted fate of the next USE round trips of connections a pool constructor opens on this node (True = the node drops the connection
            # instead of answering); bounded, so a pool that is rebuilt gets through in the end
            if self.use_script[node.address].pop(0):
                self.use_kills += 1
                return ('reset',) if self.use_kills % 2 else ('close',)
        if req['op'] == 'STARTUP' and self.fail_when_ready[0] is not None and cstate.conn.sim_creator == 'pool-replace':
            # the node finishes the replacement's handshake and drops the connection being replaced in the same breath
            victim, reset = self.fail_when_ready[0]
            self.fail_when_ready[0] = None
            if not victim.is_closed:
                self.net.server_close(victim, reset=reset)
        return self.plan.behaviour(node, cstate, req)

    def release_handshakes(self):
        hs, self.held_handshakes = self.held_handshakes, []
        for cstate, req, r in hs:
            cstate.node.apply(cstate, req, r)
        return len(hs)

    # ------------------------------------------------------------------ when did a pool shut down, and what was in its trash then
    def watch_pool(self, pool):
        if pool is None or id(pool) in self.pool_info:
            return
        rec = {'pool': pool, 'shutdown_trace': None, 'trash_at_shutdown': set(), 'installed_at_shutdown': set()}
        self.pool_info[id(pool)] = rec
        real_shutdown = pool.shutdown
        world = self.world

        def shutdown():
            if rec['shutdown_trace'] is None:
                rec['shutdown_trace'] = len(world.trace)
                rec['trash_at_shutdown'] = set(getattr(c, 'sim_id', None) for c in getattr(pool, '_trash', ()))
                inst = list(getattr(pool, '_connections', None) or []) + [getattr(pool, '_connection', None)]
                rec['installed_at_shutdown'] = set(c.sim_id for c in inst if c is not None)
            return real_shutdown()
        pool.shutdown = shutdown           # every caller looks the method up on the instance

    def pool_rec(self, pool):
        return self.pool_info.get(id(pool), {'pool': pool, 'shutdown_trace': None, 'trash_at_shutdown': set(), 'installed_at_shutdown': set()})

    def installed_after_shutdown(self, conn):
        """the pool's shutdown() had been called and this connection was not among the pool's connections at that moment"""
        rec = self.pool_rec(owner_of(conn))
        return rec['shutdown_trace'] is not None and conn.sim_id not in rec['installed_at_shutdown']

    # ------------------------------------------------------------------ monitors under conn.lock
    def hook(self, conn):
        if getattr(conn.lock, 'hooks', None):
            return
        mm = self.minmax.setdefault(conn.sim_id, [0, 0])

        def inv(conn=conn, mm=mm):
            self.checks[0] += 1
            f = conn.in_flight
            if f < mm[0]:
                mm[0] = f
            if f > mm[1]:
                mm[1] = f
            if conn.orphaned_request_ids and not conn.orphaned_request_ids.isdisjoint(conn.request_ids):
                # a stream id that is recorded as orphaned AND sits in the free list
                self.free_and_orphaned.setdefault(conn.sim_id, set()).update(conn.orphaned_request_ids.intersection(conn.request_ids))
            pool = owner_of(conn)
            if pool is not None:
                if conn in getattr(pool, '_trash', ()):
                    self.trashed.add(conn.sim_id)
                    self.trashed_at.setdefault(conn.sim_id, len(self.world.trace))
                if not pool.is_shutdown and (getattr(pool, '_connection', None) is conn or conn in (getattr(pool, '_connections', None) or ())):
                    self.in_service.add(conn.sim_id)       # seen installed in a live pool
        conn.lock.hooks = [inv]

    # ------------------------------------------------------------------ set-up (inside ``with pw.env``)
    def start(self, **cluster_kw):
        from cassandra.policies import ConvictionPolicy, HostDistance

        class NeverConvict(ConvictionPolicy):
            def add_failure(self, connection_exc):
                return False

            def reset(self):
                pass
        if self.never_convict:
            cluster_kw['conviction_policy_factory'] = NeverConvict
        self.cluster = self.env.cluster(protocol_version=self.proto, **cluster_kw)
        if self.proto < 3 and self.v2cfg:
            core, mx, minr, maxr = self.v2cfg
            c = self.cluster
            c.set_core_connections_per_host(HostDistance.LOCAL, core)
            c.set_max_connections_per_host(HostDistance.LOCAL, mx)
            c.set_min_requests_per_connection(HostDistance.LOCAL, minr)
            c.set_max_requests_per_connection(HostDistance.LOCAL, maxr)
        if self.timer_thread:
            w, q = self.world, self.timer_q

            def timer_loop():
                while True:
                    w.block(lambda: bool(q), None, 'timer-idle')
                    while q:
                        tm, cb = q.popleft()
                        if not tm.cancelled:
                            cb()
            w.spawn(timer_loop, name='timers', kind='driver')
        self.session = self.cluster.connect(self.keyspace) if self.keyspace else self.cluster.connect()
        self.rec = Recorder(self.world)
        # observe which code path asks for a replacement of which connection (Session.submit is looked up on the instance by the pools)
        import sys
        orig_submit = self.session.submit
        log = self.replace_log

        def submit(fn, *a, **kw):
            if getattr(fn, '__name__', '') == '_replace' and a:
                log.append((sys._getframe(1).f_code.co_name, getattr(a[0], 'sim_id', None), id(getattr(fn, '__self__', None))))
            return orig_submit(fn, *a, **kw)
        self.session.submit = submit
        real_shutdown = self.session.shutdown

        def shutdown():
            if self.session_shutdown_trace is None:
                self.session_shutdown_trace = len(self.world.trace)
            return real_shutdown()
        self.session.shutdown = shutdown
        return self.session

    def construction_interval(self, pool):
        """(first connection created, last connection connected) of a pool, as world.trace indices"""
        cs = [c for c in self.net.conns if owner_of(c) is pool and c.sim_creator == 'pool-init']
        done = [c.sim_connected_trace for c in cs if c.sim_connected_trace is not None]
        if not cs or not done:
            return None
        return (min(c.sim_created_trace for c in cs), max(done))

    def built_concurrently_for_same_host(self, pool):
        """other pools of the same host whose construction overlapped this pool's construction"""
        me = self.construction_interval(pool)
        out = []
        if me is None:
            return out
        seen = []
        for c in self.net.conns:
            q = owner_of(c)
            if q is None or q is pool or q in seen or getattr(q, 'host', None) is not getattr(pool, 'host', None):
                continue
            seen.append(q)
            iv = self.construction_interval(q)
            if iv is not None and iv[0] < me[1] and me[0] < iv[1]:
                out.append(q)
        return out

    def pool_finished_after_session_shutdown(self, pool):
        """Session.shutdown() had already been called when the last connection of this pool finished its handshake"""
        if self.session_shutdown_trace is None:
            return False
        done = [c.sim_connected_trace for c in self.net.conns if owner_of(c) is pool and c.sim_connected_trace is not None]
        return bool(done) and max(done) >= self.session_shutdown_trace

    def duplicate_replacements(self, pool):
        """connections for which borrow_connection asked for a replacement more than once (the second request found _is_replacing
        already reset by the first, completed, replacement)"""
        seen = {}
        for who, cid, pid in self.replace_log:
            if who == 'borrow_connection' and pid == id(pool):
                seen[cid] = seen.get(cid, 0) + 1
        return sorted(c for c, n in seen.items() if n > 1)

    def pools(self):
        return list(self.session._pools.values())

    def pool_conns(self):
        return [c for c in self.net.conns if c.sim_creator in POOL_CREATORS]

    def live_pool_conns(self):
        return [c for c in self.pool_conns() if not c.is_closed and not c.is_defunct and c.connected_event.is_set()]

    def open_held(self):
        return [h for h in self.net.held if not h.done]

    def uid_of_held(self, h):
        q = h.req.get('query')
        if q is None and h.req.get('query_id') is not None:
            q = self.plan.prepared.get(h.req['query_id'], '')
        return uid_of(q or '')

    # ------------------------------------------------------------------ a request driven directly through borrow/return
    def direct_request(self, pool, uid, kind, timeout=0.3):
        from cassandra import ConsistencyLevel
        from cassandra.protocol import QueryMessage
        self.plan.set(uid, kind)
        was_shutdown = bool(pool.is_shutdown)
        try:
            conn, rid = pool.borrow_connection(timeout=timeout)
        except Exception as e:       # noqa - NoConnectionsAvailable / ConnectionException are legitimate answers
            self.direct_events.append(('borrow-raised', uid, type(e).__name__))
            return None
        self.direct_events.append(('borrowed', uid, conn.sim_id, rid))
        if was_shutdown:
            self.viol.append(('borrow-succeeded-after-shutdown', 'borrow_connection on a pool that was already shut down returned conn %d stream %d' % (conn.sim_id, rid)))
        if conn.in_flight > conn.max_request_id:
            # every reservation in the pools tests ``in_flight < max_request_id`` first: a pool hands out at most max_request_id streams of a connection
            self.viol.append(('borrow-beyond-capacity', 'borrow_connection (timeout %s) returned conn %d with in_flight=%d, the pool\'s capacity per connection is '
                              'max_request_id=%d' % (timeout, conn.sim_id, conn.in_flight, conn.max_request_id)))
        if rid in conn._requests or rid in conn.orphaned_request_ids:
            self.viol.append(('borrow-returned-stream-in-use', 'borrow_connection returned stream %d of conn %d which is still in use' % (rid, conn.sim_id)))

        def cb(resp, conn=conn, uid=uid):
            self.direct_events.append(('answered', uid, conn.sim_id, type(resp).__name__))
            pool.return_connection(conn)
        try:
            conn.send_msg(QueryMessage(uid_query(uid), ConsistencyLevel.ONE), rid, cb)
        except Exception as e:       # noqa - what ResponseFuture._query does
            self.direct_events.append(('send-raised', uid, conn.sim_id, type(e).__name__))
            pool.return_connection(conn)
            return None
        return conn, rid

    # ------------------------------------------------------------------ signature / harness health
    def signature(self):
        return tuple(x[:2] for x in self.world.trace)

    def harness_errors(self):
        return list(self.world.errors) + [('parse', p) for p in self.net.parse_failures]
