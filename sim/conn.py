"""Harness connection classes: the driver's real ``cassandra.connection.Connection`` logic
with the socket replaced by in-memory byte hand-off.

``make_classes()`` must be called after sys.path points at the repository under test; it
returns (BareConnection, SimConnection).  Nothing of the Connection logic is overridden
except the four things every reactor implements itself: __init__ tail, push, close,
create_timer - and they follow the reactors' contract:

  * ``push(data)``   hands the bytes to the peer (recorded in order)
  * inbound bytes    ``conn._iobuf.write(chunk); conn.process_io_buffer()``  (what every reactor does)
  * ``close()``      under ``self.lock`` set ``is_closed`` (return if already closed); then, if the
                     connection is not defunct, ``error_all_requests(ConnectionShutdown(...))`` and
                     ``connected_event.set()``
"""


def make_classes():
    from cassandra.connection import Connection, ConnectionShutdown

    class BareConnection(Connection):
        """No handshake: used to monitor frame/segment reassembly and request bookkeeping directly."""
        def __init__(self, *args, **kwargs):
            Connection.__init__(self, *args, **kwargs)
            self.sent = []            # every push() in order
            self.closed_count = 0

        def push(self, data):
            self.sent.append(bytes(data))

        def feed(self, chunk):
            # one read: the work is proportional to the bytes buffered; a busy loop inside process_io_buffer surfaces as NeverReturned
            from vlib.stepbound import cpu_bound
            self._iobuf.write(chunk)
            with cpu_bound(20, "process_io_buffer() after a read of %d bytes" % len(chunk)):
                self.process_io_buffer()

        def close(self):
            with self.lock:
                if self.is_closed:
                    return
                self.is_closed = True
            self.closed_count += 1
            if not self.is_defunct:
                self.error_all_requests(ConnectionShutdown("Connection to %s was closed" % (self.endpoint,)))
                self.connected_event.set()

        @classmethod
        def create_timer(cls, timeout, callback):
            raise NotImplementedError("BareConnection has no timers")

    return BareConnection
