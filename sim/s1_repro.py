"""Minimal deterministic reproductions of the known findings of C14 / C15 against the real driver code
(no random choices: RandomChooser with p_time = p_preempt = 0, fixed scripts).

    cd /verif && PYTHONHASHSEED=0 /venv/bin/python -m sim.s1_repro [a b c d e] [--repo DIR]

  a  C14 double-completion-after-speculative-executions
  b  C14 completion-after-timeout-by-late-response
  c  C14 double-timeout-error
  d  C14 earlier-page-execution-completes-later-page-fetch
  e  C15 next-page-fetch-has-no-timeout
  f  C14 timeout-error-after-completion
  g  C14 response-dropped-after-another-requests-timeout (a scripted schedule: the timeout of request 1 fires between the two
     assignments `self._connection = connection` (in _query) and `self._req_id = req_id` (in send_request) of its retry)
Each prints what the user callbacks saw and exits 1 if the defect shows (0 if the tree behaves).
"""
import os
import random
import sys


def _setup(repo):
    here = os.path.dirname(os.path.dirname(os.path.abspath(__file__)))
    for p in (os.path.join(here, '.deps'), here, repo):
        while p in sys.path:
            sys.path.remove(p)
        sys.path.insert(0, p)
    import warnings
    warnings.simplefilter('ignore')
    from vlib import shim
    shim.import_cluster()


class Box(object):
    pass


def world(nodes, spec=None, timeout=1.0, max_in_flight=None):
    from sim.env import SimEnv
    from sim import world as W
    from sim import s1_req as R
    from cassandra.cluster import ExecutionProfile, EXEC_PROFILE_DEFAULT
    from cassandra.policies import RoundRobinPolicy, ConstantSpeculativeExecutionPolicy
    random.seed(1)
    b = Box()
    b.env = SimEnv(W.RandomChooser(random.Random(1), p_time=0.0, p_preempt=0.0), addresses=['127.0.0.%d' % (i + 1) for i in range(nodes)])
    if max_in_flight:
        b.env.conn_class.max_in_flight = max_in_flight
    b.plan = R.ReqPlan(b.env.world)
    for n in b.env.net.nodes.values():
        n.behaviour = b.plan.behaviour
    b.profile = ExecutionProfile(load_balancing_policy=RoundRobinPolicy(), request_timeout=timeout,
                                 speculative_execution_policy=ConstantSpeculativeExecutionPolicy(*spec) if spec else None)
    b.profiles = {EXEC_PROFILE_DEFAULT: b.profile}
    return b


def log_to(seen, w):
    return (lambda rows: seen.append(('callback', round(w.now, 3), rows)), lambda exc: seen.append(('errback', round(w.now, 3), exc)))


def show(title, seen):
    print(title)
    for s in seen:
        print('   %-8s t=%.3f  %r' % (s[0], s[1], s[2]))


def repro_a():
    from sim import s1_req as R
    from cassandra.query import SimpleStatement
    b = world(2, spec=(0.1, 1))
    seen = []
    with b.env:
        w = b.env.world
        cluster = b.env.cluster(execution_profiles=b.profiles)
        session = cluster.connect()
        b.plan.set_page(1, 0, ['hold', 'hold'])
        f = session.execute_async(SimpleStatement(R.uid_query(1), is_idempotent=True))
        f.add_callbacks(*log_to(seen, w))
        w.advance_to(w.now + 0.2)                 # the speculative execution has been sent to the second host
        for h in b.env.net.held:
            h.release()                           # both executions are answered
        w.settle(advance=False)
        cluster.shutdown()
        w.settle()
    show("a) two speculative executions, both answered -> one registered callback pair saw:", seen)
    return len(seen) != 1


def repro_b():
    from sim import s1_req as R
    from cassandra.query import SimpleStatement
    b = world(2, spec=(0.1, 1), timeout=1.0)
    seen = []
    with b.env:
        w = b.env.world
        cluster = b.env.cluster(execution_profiles=b.profiles)
        session = cluster.connect()
        b.plan.set_page(1, 0, ['hold', 'silent'])
        f = session.execute_async(SimpleStatement(R.uid_query(1), is_idempotent=True))
        f.add_callbacks(*log_to(seen, w))
        w.advance_to(w.now + 1.5)                 # client timeout fires at 1.0 (it forgets only the *last* execution's stream id)
        for h in b.env.net.held:
            h.release()                           # the first execution is answered late
        w.settle(advance=False)
        try:
            res = ('returned', f.result().current_rows)
        except Exception as e:                    # noqa
            res = ('raised', e)
        cluster.shutdown()
        w.settle()
    show("b) client timeout, then the late answer of the other execution -> one registered pair saw:", seen)
    print("   result() afterwards %s %r" % res)
    return len(seen) != 1


def repro_c():
    from sim import s1_req as R
    from cassandra.query import SimpleStatement
    b = world(1, timeout=1.0, max_in_flight=4)    # 3 usable stream ids per connection
    seen = []
    with b.env:
        w = b.env.world
        cluster = b.env.cluster(execution_profiles=b.profiles)
        session = cluster.connect()
        for uid in (1, 2, 3):
            b.plan.set_page(uid, 0, ['silent'])
            session.execute_async(SimpleStatement(R.uid_query(uid)), timeout=30.0)       # occupy every stream id
        b.plan.set_page(4, 0, ['rows'])
        fut = []
        session.add_request_init_listener(lambda rf: (fut.append(rf), rf.add_callbacks(*log_to(seen, w))) if not fut else None)
        session.execute_async(SimpleStatement(R.uid_query(4)))       # blocks 2 s in borrow_connection (pool has no free stream id), timeout is 1 s
        w.advance_to(w.now + 3.0)
        w.settle(advance=False)
        cluster.shutdown()
        w.settle()
    show("c) request waiting longer than its timeout for a free stream id -> one registered pair saw:", seen)
    return len(seen) != 1


def repro_d():
    from sim import s1_req as R
    from cassandra.query import SimpleStatement
    b = world(2, spec=(0.1, 1), timeout=5.0)
    seen = []
    with b.env:
        w = b.env.world
        cluster = b.env.cluster(execution_profiles=b.profiles)
        session = cluster.connect()
        b.plan.pages[1] = [[0, 1], [10, 11], [20]]
        b.plan.set_page(1, 0, ['hold', 'rows'])   # first execution of page 1 answered late, the speculative one at once
        b.plan.set_page(1, 1, ['hold'])
        f = session.execute_async(SimpleStatement(R.uid_query(1), is_idempotent=True, fetch_size=2))
        f.add_callbacks(*log_to(seen, w))
        w.advance_to(w.now + 0.2)
        w.settle(advance=False)
        n1 = len(seen)
        f.start_fetching_next_page()              # second page fetch; its own answer is still held by the node
        w.settle(advance=False)
        stale = [h for h in b.env.net.held if h.req.get('paging_state') is None][0]
        stale.release()                           # the late answer to the first execution of page 1 arrives now
        w.settle(advance=False)
        n2 = len(seen)
        for h in b.env.net.held:
            h.release()
        w.settle(advance=False)
        cluster.shutdown()
        w.settle()
    show("d) answer to a speculative execution of page 1 arriving during the fetch of page 2 (row ids: page 1 = 1000,1001; page 2 = 1010,1011):", seen)
    print("   outcomes during page fetch 1: %d, during page fetch 2: %d" % (n1, len(seen) - n1))
    return len(seen) - n1 != 1 or n2 - n1 != 0


def repro_e():
    from sim import s1_req as R
    from sim import world as W
    from cassandra.query import SimpleStatement
    b = world(1, timeout=1.0)
    seen = []
    hang = False
    with b.env:
        w = b.env.world
        cluster = b.env.cluster(execution_profiles=b.profiles)
        session = cluster.connect()
        b.plan.pages[1] = [[0, 1], [10, 11]]
        b.plan.set_page(1, 0, ['rows'])
        b.plan.set_page(1, 1, ['silent'])
        f = session.execute_async(SimpleStatement(R.uid_query(1), fetch_size=2))
        f.add_callbacks(*log_to(seen, w))
        w.settle(advance=False)
        t0 = w.now
        f.start_fetching_next_page()              # timeout 1.0 s, the node never answers
        w.advance_to(t0 + 1.0 + 0.05)
        w.settle(advance=False)
        n = len(seen)
        print("e) page fetch 2 started at t=%.3f with a 1.0 s timeout against a silent node; outcomes at t=%.3f: %d; pending timers: %d" % (
            t0, w.now, n - 1, sum(1 for x in w.timers if not x[2].cancelled)))
        try:
            f.result()
        except W.WorldHang as e:
            hang = True
            print("   future.result() can never return: %s" % (str(e)[:160],))
        except Exception as e:        # noqa
            print("   result() raised %r at t=%.3f" % (e, w.now))
        cluster.shutdown()
        w.settle()
    show("   the registered pair saw:", seen)
    return hang or n != 2


def repro_f():
    from sim import s1_req as R
    from cassandra.query import SimpleStatement
    b = world(3, spec=(0.1, 1), timeout=1.0)
    seen = []
    with b.env:
        w = b.env.world
        net = b.env.net
        cluster = b.env.cluster(execution_profiles=b.profiles)
        session = cluster.connect()
        w.settle(advance=False)
        b.plan.set_page(1, 0, ['silent', 'rows'])
        f = session.execute_async(SimpleStatement(R.uid_query(1), is_idempotent=True))    # query plan: a snapshot of the three hosts
        f.add_callbacks(*log_to(seen, w))
        w.advance_to(w.now + 0.2)                 # execution 1 unanswered, speculative execution 2 answered: the request is complete
        w.settle(advance=False)
        used = [a['node'] for a in b.plan.arrivals]
        third = [a for a in net.nodes if a not in used][0]
        net.nodes[third].up = False               # the third host of the plan goes down after the plan was made
        for c in net.conns:
            if str(c.endpoint).startswith(third + ':') and not c.is_closed:
                net.server_close(c, reset=True)
        w.advance_to(w.now + 0.1)
        first = [a for a in b.plan.arrivals if a['action'] == 'silent'][0]
        w.advance_to(1.5)
        net.server_close(net.conns[first['conn']], reset=True)    # long after the completion the connection of execution 1 fails
        w.advance_to(1.6)
        w.settle(advance=False)
        cluster.shutdown()
        w.settle()
    show("f) request completed by its speculative execution at 0.1 s; at 1.5 s the connection of the unanswered first execution fails (-> retry on the next host, which is down):", seen)
    return len(seen) != 1


class TriggerChooser(object):
    """Deterministic schedule: option 0 everywhere, except that while armed the executor thread is kept running with a
    preemption point at every opportunity until ``when()`` holds; at that point virtual time jumps to the next deadline."""
    def __init__(self):
        self.world = None
        self.when = None
        self.fired = False
        self.log = []

    def choose(self, kind, options):
        i = 0
        if self.when is not None and not self.fired and kind == 'run':
            if self.when() and options[-1] == '<time>':
                self.fired = True
                i = len(options) - 1
            else:
                for k, o in enumerate(options):
                    if str(o).startswith('exec'):
                        i = k
                        break
        self.log.append(i)
        return i

    def flip(self, kind, p=None):
        if self.when is not None and not self.fired:
            cur = self.world.cur()
            return cur is not None and cur.name.startswith('exec')
        return False


def repro_g():
    from sim.env import SimEnv
    from sim import s1_req as R
    from cassandra.cluster import ExecutionProfile, EXEC_PROFILE_DEFAULT
    from cassandra.policies import RoundRobinPolicy
    from cassandra.query import SimpleStatement
    random.seed(1)
    ch = TriggerChooser()
    env = SimEnv(ch, addresses=['127.0.0.1', '127.0.0.2'])
    ch.world = env.world
    plan = R.ReqPlan(env.world)
    for n in env.net.nodes.values():
        n.behaviour = plan.behaviour
    seen1, seen2 = [], []
    with env:
        w = env.world
        cluster = env.cluster(execution_profiles={EXEC_PROFILE_DEFAULT: ExecutionProfile(load_balancing_policy=RoundRobinPolicy(), request_timeout=1.0)})
        session = cluster.connect()
        w.settle(advance=False)
        plan.set_page(2, 0, ['hold'])                                   # request 2: answered at 1.2 s, its timeout is 10 s
        plan.set_page(1, 0, [R.held_err('unavailable'), 'hold'])        # request 1: Unavailable -> default policy retries on the next host
        f2 = session.execute_async(SimpleStatement(R.uid_query(2)), timeout=10.0)
        f2.add_callbacks(*log_to(seen2, w))
        f1 = session.execute_async(SimpleStatement(R.uid_query(1)))
        f1.add_callbacks(*log_to(seen1, w))
        w.settle(advance=False)
        m2 = [a for a in plan.arrivals if a['uid'] == 2][0]
        m1 = [a for a in plan.arrivals if a['uid'] == 1][0]
        print("g) request 2 waits on conn%d stream %d (node %s); request 1 first went to conn%d stream %d (node %s)" % (
            m2['conn'], m2['stream'], m2['node'], m1['conn'], m1['stream'], m1['node']))
        conn2 = env.net.conns[m2['conn']]
        ch.when = lambda: f1._connection is conn2 and f1._req_id == m1['stream']
        [h for h in env.net.held if h.req.get('_s1_uid') == 1][0].release()      # Unavailable for request 1 -> retry task on the executor
        w.advance_to(1.1)
        w.settle(advance=False)
        print("   schedule trigger fired: %s; request 1 retried on conn%d stream %d; orphaned stream ids on conn%d: %r" % (
            ch.fired, [a for a in plan.arrivals if a['uid'] == 1][-1]['conn'], [a for a in plan.arrivals if a['uid'] == 1][-1]['stream'],
            m2['conn'], sorted(conn2.orphaned_request_ids)))
        w.advance_to(1.2)
        [h for h in env.net.held if h.req.get('_s1_uid') == 2][0].release()      # the answer to request 2 arrives, well inside its 10 s
        w.advance_to(2.0)
        w.settle(advance=False)
        n2 = len(seen2)
        w.advance_to(10.5)
        w.settle(advance=False)
        cluster.shutdown()
        w.settle()
    show("   request 1 (timeout 1.0 s) saw:", seen1)
    print("   request 2 (timeout 10 s, answered by the node at 1.2 s) had %d outcomes at t=2.0; finally:" % n2)
    show("", seen2)
    return n2 != 1


def main():
    args = [a for a in sys.argv[1:] if not a.startswith('--')]
    repo = '/repo'
    if '--repo' in sys.argv:
        repo = sys.argv[sys.argv.index('--repo') + 1]
        args = [a for a in args if a != repo]
    _setup(repo)
    bad = 0
    for k in (args or ['a', 'b', 'c', 'd', 'e', 'f', 'g']):
        r = globals()['repro_' + k]()
        print("   -> %s" % ("DEFECT SHOWS" if r else "behaves"))
        bad += bool(r)
    return 1 if bad else 0


if __name__ == '__main__':
    sys.exit(main())
