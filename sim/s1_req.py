"""Helpers shared by the request-completion monitors C14 / C15 / C18 (sim world).

* ``ReqPlan``        - scripted node behaviour per request uid *and page*, recording every arrival
                       (node, connection, stream, virtual time, paging state) so that an oracle can tell
                       which of the messages the driver sent for a request were answered or failed;
* ``scripted_retry`` - a ``cassandra.policies.RetryPolicy`` subclass returning seeded decisions;
* ``Mon`` / ``Watch`` - client-boundary monitor of one ResponseFuture: any number of registered
                       (callback, errback) pairs, each invocation stamped with the page epoch and virtual time.

Nothing here imports the driver at module import time (the repository path is set up by the check).
"""
import random
import re

from spec import frames as F
from sim.scen import Plan, uid_of, uid_query, ECHO_COLS      # noqa: F401  (re-exported)

EPS = 0.05          # the driver's own 3 x 0.01 s re-arm of the timeout plus slack

ERR_INFO = {
    'unavailable': {'consistency': 1, 'required': 1, 'alive': 0},
    'read_timeout': {'consistency': 1, 'received': 0, 'blockfor': 1, 'data_present': False},
    'write_timeout': {'consistency': 1, 'received': 0, 'blockfor': 1, 'write_type': 'SIMPLE'},
}
RETRYABLE = ['overloaded', 'unavailable', 'read_timeout', 'write_timeout', 'server', 'is_bootstrapping', 'truncate']
FINAL_ERRORS = ['invalid', 'syntax', 'unauthorized', 'config']


def err(kind):
    return ('error', kind, dict(ERR_INFO.get(kind, {})))


def held_err(kind):
    return ('hold-error', kind, dict(ERR_INFO.get(kind, {})))


FOLLOWUP_USE_RE = re.compile(r'\s*use\s+"?ks(\d+)"?\s*;?\s*$', re.I)


def use_statement(uid):
    """a USE statement carrying the request uid: the node answers it with RESULT set_keyspace 'ks<uid>'"""
    return "USE /*uid=%d*/ ks%d" % (uid, uid)


def ddl_statement(uid):
    """a DDL statement carrying the request uid: the node answers it with RESULT schema_change CREATED KEYSPACE ks<uid>"""
    return "CREATE KEYSPACE /*uid=%d*/ ks%d WITH replication = {'class': 'SimpleStrategy', 'replication_factor': 1}" % (uid, uid)


def page_state(uid, k):
    """opaque paging state that lets the node (only) find the page"""
    return b'\x00ps\xff' + str(uid).encode() + b':' + str(k).encode() + b'\x00'


def page_of_state(ps):
    if ps is None:
        return 0
    body = bytes(ps)[4:-1]
    return int(body.split(b':')[1])


class ReqPlan(Plan):
    """Plan with per-page scripts and an arrival log.

    ``script[(uid, page)]`` = list of actions consumed one per arrival of a request for that page
    (the last one repeats); ``pages[uid]`` = list of row lists for paged statements (page k carries the paging
    state of page k+1 unless it is the last).  ``started`` = uids whose execute_async has been called (arrivals
    before that, e.g. PREPAREs sent by session.prepare, are not attributed to the request).
    """
    def __init__(self, world, default='rows'):
        Plan.__init__(self, default)
        self.world = world
        self.script = {}
        self.pages = {}
        self.started = set()
        self.epoch_of = {}           # uid -> page epoch the client is in (maintained by the scenario)
        self.use_followup = {}       # uid -> actions for the internal per-pool `USE "ks<uid>"` the driver sends after a set_keyspace result
        self.arrivals = []
        self.unexpected = []

    def set_page(self, uid, page, actions):
        self.script[(uid, page)] = list(actions)

    def _next(self, uid, page):
        a = self.script.get((uid, page))
        if a is None:
            return self.next_action(uid)
        if len(a) > 1:
            return a.pop(0)
        return a[0] if a else self.default

    def behaviour(self, node, cstate, req):
        op = req['op']
        if op == 'PREPARE':
            qid = node.net.query_id(req['query'], req.get('keyspace') or cstate.keyspace)
            self.prepared[qid] = req['query']
            uid = uid_of(req['query'])
            if uid is not None and uid in self.started:
                self._note(node, cstate, req, uid, 0, 'prepare')
            return None
        if op == 'QUERY':
            uid = uid_of(req['query'])
            if uid is None:
                m = FOLLOWUP_USE_RE.match(req['query'] or '')
                if m and int(m.group(1)) in self.use_followup and int(m.group(1)) in self.started:
                    # the driver switches the keyspace of every pool's connection after the coordinator answered the USE statement
                    fu = int(m.group(1))
                    acts = self.use_followup[fu]
                    a = acts.pop(0) if len(acts) > 1 else (acts[0] if acts else 'rows')
                    self._note(node, cstate, req, fu, 0, 'followup-use:' + a)
                    if a == 'silent':
                        return ('silence',)
                    cstate.keyspace = 'ks%d' % fu
                    r = node.reply(cstate, req, 'RESULT', F.body_result_set_keyspace('ks%d' % fu))
                    if a in ('hold', 'late'):
                        req['_s1_action'] = a
                        return ('hold', r[1])
                    return r
        elif op == 'EXECUTE':
            uid = uid_of(self.prepared.get(req['query_id'], ''))
        else:
            return None
        if uid is None:
            return None
        page = 0
        if req.get('paging_state') is not None:
            try:
                page = page_of_state(req['paging_state'])
            except Exception:
                self.unexpected.append(('bad paging state', uid, req.get('paging_state')))
                page = 0
        a = self._next(uid, page)
        self.seen.append((node.address, cstate.conn.sim_id, req['stream'], uid, op, req.get('consistency')))
        self._note(node, cstate, req, uid, page, a)
        return self.react(node, cstate, req, uid, page, a)

    def _note(self, node, cstate, req, uid, page, action):
        req['_s1_uid'], req['_s1_action'] = uid, action
        self.arrivals.append({'uid': uid, 'page': page, 'epoch': self.epoch_of.get(uid, 0), 'node': node.address, 'conn': cstate.conn.sim_id, 'stream': req['stream'],
                              'op': req['op'], 't': self.world.now, 'ps': req.get('paging_state'), 'fetch': req.get('page_size'),
                              'action': action if isinstance(action, str) else repr(action)[:40],
                              'ev': len(node.net.events) - 1, 'answered': None})

    def react(self, node, cstate, req, uid, page, a):
        if a == 'use':
            cstate.keyspace = 'ks%d' % uid
            return node.reply(cstate, req, 'RESULT', F.body_result_set_keyspace('ks%d' % uid))
        if a == 'ddl':
            return node.reply(cstate, req, 'RESULT', F.body_result_schema_change(req['version'], 'CREATED', 'KEYSPACE', 'ks%d' % uid))
        if a in ('rows', 'hold', 'late'):
            md = {}
            if uid in self.pages:
                pages = self.pages[uid]
                rows = pages[page] if page < len(pages) else []
                if page + 1 < len(pages):
                    md['paging_state'] = page_state(uid, page + 1)
                body = [[uid * 1000 + r, node.address] for r in rows]
            else:
                body = [[uid, node.address]]
            r = node.rows(cstate, req, ECHO_COLS, body, 'ks', 't', **md)
            return r if a == 'rows' else ('hold', r[1])
        return self.reaction(node, cstate, req, uid, a)

    def resolve(self, events):
        """Mark each recorded arrival as answered ('sent', t) / failed ('failed',) from the node-side event history."""
        by_ev = dict((a['ev'], a) for a in self.arrivals)
        open_ = {}
        last_t = 0.0
        for i, e in enumerate(events):
            if e[0] in ('node_recv', 'node_send') and isinstance(e[-1], float):
                last_t = e[-1]
            if e[0] == 'node_recv':
                a = by_ev.get(i)
                if a is not None:
                    open_[(e[1], e[2])] = a
                else:
                    open_.pop((e[1], e[2]), None)
            elif e[0] == 'node_send':
                a = open_.pop((e[1], e[2]), None)
                if a is not None and a['answered'] is None:
                    a['answered'] = ('sent', e[3])
                    a['answered_ev'] = i
            elif e[0] == 'conn_closed':
                for k in [k for k in open_ if k[0] == e[1]]:
                    a = open_.pop(k)
                    if a['answered'] is None:
                        a['answered'] = ('failed',)
                        a['answered_ev'] = i
                        a['failed_not_before'] = last_t
        return self.arrivals


def scripted_retry(seed, weights=(3, 3, 2, 1), max_retries=3):
    """RetryPolicy whose decisions come from a seeded generator: weights for RETRY, RETRY_NEXT_HOST, RETHROW, IGNORE.
    Finite: RETHROW once ``retry_num`` reaches ``max_retries``."""
    from cassandra.policies import RetryPolicy

    class Scripted(RetryPolicy):
        def __init__(self):
            self.rng = random.Random(seed)
            self.calls = []

        def _decide(self, what, retry_num):
            if retry_num >= max_retries:
                d = self.RETHROW
            else:
                d = self.rng.choices([self.RETRY, self.RETRY_NEXT_HOST, self.RETHROW, self.IGNORE], weights)[0]
            self.calls.append((what, retry_num, d))
            return d, None

        def on_read_timeout(self, query, retry_num=0, **kw):
            return self._decide('read_timeout', retry_num)

        def on_write_timeout(self, query, retry_num=0, **kw):
            return self._decide('write_timeout', retry_num)

        def on_unavailable(self, query, retry_num=0, **kw):
            return self._decide('unavailable', retry_num)

        def on_request_error(self, query, consistency=None, error=None, retry_num=0, **kw):
            return self._decide('request_error', retry_num)
    return Scripted()


class Watch(object):
    """one registered (callback, errback) pair"""
    def __init__(self, mon, kind):
        self.mon = mon
        self.kind = kind              # pre | post | mid | late
        self.epoch = mon.epoch        # epoch in which it was registered
        self.events = []              # (cb|eb, epoch, t, value, length of the node-side event history at that moment)
        self.immediate = None         # for late registrations: events delivered during the registering call

    def cb(self, value):
        if not self.mon.frozen:
            self.events.append(('cb', self.mon.epoch, self.mon.world.now, value, self.mon.ev_index()))

    def eb(self, exc):
        if not self.mon.frozen:
            self.events.append(('eb', self.mon.epoch, self.mon.world.now, exc, self.mon.ev_index()))

    def in_epoch(self, e):
        return [x for x in self.events if x[1] == e]


class Mon(object):
    """monitor of one ResponseFuture (all its page epochs)"""
    def __init__(self, world, uid, timeout, net=None):
        self.world = world
        self.net = net
        self.uid = uid
        self.timeout = timeout
        self.future = None
        self.epoch = 0
        self.epoch_start = []         # virtual time at which each epoch's fetch was started
        self.epoch_start_ev = []      # length of the node-side event history at that moment
        self.watches = []
        self.frozen = False
        self.results = {}             # epoch -> ('ok', ResultSet) | ('exc', exception) as reported by result()
        self.raised = None
        self.info = {}

    def watch(self, kind, how='pair'):
        """how: 'pair' = add_callbacks(cb, eb); 'cb-eb' / 'eb-cb' = add_callback and add_errback as two calls in that order"""
        w = Watch(self, kind)
        w.how = how
        self.watches.append(w)
        if how == 'pair':
            self.future.add_callbacks(w.cb, w.eb)
        elif how == 'cb-eb':
            self.future.add_callback(w.cb)
            self.future.add_errback(w.eb)
        else:
            self.future.add_errback(w.eb)
            self.future.add_callback(w.cb)
        return w

    def ev_index(self):
        return len(self.net.events) if self.net is not None else 0

    def next_epoch(self, net=None):
        """call immediately before ResponseFuture.start_fetching_next_page()"""
        self.epoch += 1
        self.epoch_start.append(self.world.now)
        self.epoch_start_ev.append(len(net.events) if net is not None else 0)

    @property
    def primary(self):
        return self.watches[0]

    def outcomes(self, e=None):
        return self.primary.in_epoch(self.epoch if e is None else e)


class Starter(object):
    """Registers the first watch *before* the request is sent (Session.add_request_init_listener), the second
    right after execute_async returned."""
    def __init__(self, session, world, net=None):
        self.session = session
        self.world = world
        self.net = net
        self.pending = None
        session.add_request_init_listener(self._on_init)

    def _on_init(self, rf):
        mon = self.pending
        if mon is None:
            return
        self.pending = None
        mon.future = rf
        mon.watch('pre')

    def start(self, mon, statement, **kw):
        self.pending = mon
        mon.epoch_start.append(self.world.now)
        mon.epoch_start_ev.append(len(self.net.events) if self.net is not None else 0)
        try:
            f = self.session.execute_async(statement, timeout=mon.timeout, **kw)
        except Exception as e:            # execute_async is not supposed to raise for these inputs
            mon.raised = e
            self.pending = None
            return None
        assert f is mon.future
        mon.watch('post')
        return f
