"""Handshake-aware scripted node for the connection-establishment monitors (C41, C47, C44).

``HSNode`` extends the stock ``SimNode`` (sim/node.py is shared and not edited) with what a
real server does around STARTUP:

  * version rejection for *any* supported set (also the empty one) and the beta-flag error
    (``Beta version of the protocol used (6/v6-beta), but USE_BETA flag is unset``);
  * after it accepted STARTUP (answered READY or AUTHENTICATE) it
      - decompresses compressed request frames with the algorithm STARTUP named (v1-v4, DSE),
      - on protocol v5/v6 reads *segments* (spec/segments.py, strict CRC checks) and answers
        in segments; the answer to STARTUP itself is still a plain frame;
  * every framing problem (a segment where a frame is due or the reverse, CRC errors, a
    compressed flag nobody negotiated) is recorded in ``net.framing_errors`` instead of being
    swallowed: for the handshake monitors that is evidence about the client, not harness noise.

``upgrade(env)`` swaps the nodes of a SimEnv for HSNodes and wraps ``net.send`` so that bytes
towards a client whose connection is in segment mode are wrapped into segments.

Stand-in compressors (lz4 / snappy are not installed in the sandbox) follow the contracts the
driver documents for its wrappers: 'lz4' = 4-byte big-endian uncompressed length + block,
'snappy' = opaque block.  ``StandIns(names)`` installs them for the duration of a ``with``.
"""
import zlib

from sim.node import SimNode
from spec import frames as F
from spec import segments as SG

BETA = {6: '6/v6-beta'}       # default server-side beta set (Cassandra 4.x); per node: HSNode.beta_versions (C* 3.10/3.11: {5})


def settle_heap():
    """SimEnv runs a full gc.collect() when a world is entered and left; with every driver module loaded that costs ~30 ms a time.
    Moving what is alive after the imports into the permanent generation makes those collections cheap (only young objects are
    scanned); nothing that a world creates is affected."""
    import gc
    gc.collect()
    gc.freeze()


# ------------------------------------------------------------------ stand-in compression
def lz4_comp(data):
    data = bytes(data)
    return len(data).to_bytes(4, 'big') + zlib.compress(data, 1)


def lz4_decomp(data):
    data = bytes(data)
    n = int.from_bytes(data[:4], 'big')
    out = zlib.decompress(data[4:])
    if len(out) != n:
        raise ValueError("stand-in lz4: uncompressed length %d announced, %d found" % (n, len(out)))
    return out


def snappy_comp(data):
    return b'\xfe' + zlib.compress(bytes(data), 1)


def snappy_decomp(data):
    data = bytes(data)
    if data[:1] != b'\xfe':
        raise ValueError("stand-in snappy: bad block marker")
    return zlib.decompress(data[1:])


CODECS = {'lz4': (lz4_comp, lz4_decomp), 'snappy': (snappy_comp, snappy_decomp)}


def seg_block_compress(data):
    """block form used inside compressed segments: the lz4 wrapper output without its 4 length bytes"""
    return lz4_comp(data)[4:]


def seg_block_decompress(wire, ulen):
    return zlib.decompress(bytes(wire))


class StandIns(object):
    """Install stand-in codecs as the driver's locally supported compressions (restored on exit)."""
    def __init__(self, names=('lz4',)):
        self.names = [n for n in ('lz4', 'snappy') if n in names]       # lz4 first: the driver prefers it by order

    def __enter__(self):
        import collections
        import cassandra.connection as C
        from cassandra.segment import SegmentCodec
        self._saved = (C.locally_supported_compressions, C.segment_codec_lz4)
        d = collections.OrderedDict()
        for n in self.names:
            d[n] = CODECS[n]
        C.locally_supported_compressions = d
        C.segment_codec_lz4 = SegmentCodec(lz4_comp, lz4_decomp) if 'lz4' in self.names else self._saved[1]
        return self

    def __exit__(self, *a):
        import cassandra.connection as C
        C.locally_supported_compressions, C.segment_codec_lz4 = self._saved
        return False


# ------------------------------------------------------------------ the node
class HSNode(SimNode):
    def __init__(self, net, info):
        SimNode.__init__(self, net, info)
        self.compress_responses = False      # compress answers once an algorithm is negotiated (a server may or may not)
        self.validate_startup_compression = True
        self.beta_versions = set(BETA)       # versions this server only speaks with the USE_BETA flag (when it supports them at all)
        self.observer = None                 # callable(node, cstate, req) for every parsed request, before any rejection

    # -- per connection state
    def accept(self, conn):
        cs = SimNode.accept(self, conn)
        cs.segbuf = bytearray()
        cs.seg_pending = bytearray()
        cs.seg_need = None
        cs.seg_compressed = False
        cs.segments_out = False
        cs.plain_once = None             # the answer to STARTUP leaves unsegmented even if it is released later
        cs.algo = None
        cs.compress_out = None
        cs.startup_accepted_at = None    # index into cs.frames of the accepted STARTUP
        cs.frames = []                   # (parsed request | None, 'frame'|'segment', compressed flag) in arrival order
        cs.segments_seen = 0
        cs.dead_framing = False
        self.net.cstates[conn.sim_id] = cs
        return cs

    # -- replies (optionally compressed at frame level for v1-v4 / DSE)
    def reply(self, cstate, req, op, body, **kw):
        v = req['version']
        if cstate.compress_out is not None and self.compress_responses and not (5 <= v < 0x41):
            kw.setdefault('compress', cstate.compress_out)
        return ('reply', F.response(v, req['stream'], op, body, **kw))

    # -- inbound
    def _framing_error(self, cstate, what, data=b''):
        self.net.framing_errors.append((self.address, cstate.conn.sim_id, what, bytes(data[:48])))
        cstate.dead_framing = True

    def receive(self, cstate, data):
        if cstate.dead_framing:
            return
        if cstate.segments:
            cstate.segbuf += data
        else:
            cstate.inbuf += data
        while not cstate.dead_framing:
            if cstate.segments:
                if cstate.inbuf:
                    cstate.segbuf = bytearray(bytes(cstate.inbuf) + bytes(cstate.segbuf))
                    del cstate.inbuf[:]
                if not self._one_segment(cstate):
                    return
            else:
                fr = self._one_frame(cstate)
                if fr is None:
                    return
                self.handle_frame(cstate, fr, 'frame')

    def _one_frame(self, cstate):
        buf = cstate.inbuf
        if not buf:
            return None
        v = buf[0]
        if v not in F.KNOWN_VERSIONS:
            self._framing_error(cstate, "expected a request frame but the first byte is 0x%02x (not a request of a known version)" % v, buf)
            return None
        hl = F.header_len(v)
        if len(buf) < hl:
            return None
        ln = int.from_bytes(buf[hl - 4:hl], 'big', signed=True)
        if ln < 0 or ln > (256 << 20):
            self._framing_error(cstate, "frame body length %d" % ln, buf)
            return None
        if len(buf) < hl + ln:
            return None
        out = bytes(buf[:hl + ln])
        del buf[:hl + ln]
        return out

    def _one_segment(self, cstate):
        buf = cstate.segbuf
        hl = 5 if cstate.seg_compressed else 3
        if len(buf) < hl + 3:
            return False
        h = int.from_bytes(buf[:hl], 'little')
        plen = h & SG.MAX_PAYLOAD
        total = hl + 3 + plen + 4
        if int.from_bytes(buf[hl:hl + 3], 'little') != SG.crc24(bytes(buf[:hl])):
            self._framing_error(cstate, "expected a %s segment but the header CRC24 does not match (plain frame sent after STARTUP was accepted on v5?)" % (
                'compressed' if cstate.seg_compressed else 'plain'), buf)
            return False
        if len(buf) < total:
            return False
        raw = bytes(buf[:total])
        del buf[:total]
        try:
            (payload, sc), = SG.decode_stream(raw, cstate.seg_compressed, seg_block_decompress)
        except (SG.SegmentError, zlib.error, ValueError) as e:
            self._framing_error(cstate, "bad segment: %s" % e, raw)
            return False
        cstate.segments_seen += 1
        frames = []
        try:
            if sc:
                if cstate.seg_pending:
                    raise SG.SegmentError("self-contained segment inside a multi-segment frame")
                frames = SG.frames_from_segments([(payload, True)])
            else:
                cstate.seg_pending += payload
                if cstate.seg_need is None and len(cstate.seg_pending) >= 9:
                    cstate.seg_need = 9 + int.from_bytes(cstate.seg_pending[5:9], 'big')
                if cstate.seg_need is not None and len(cstate.seg_pending) >= cstate.seg_need:
                    if len(cstate.seg_pending) != cstate.seg_need:
                        raise SG.SegmentError("multi-segment frame has trailing bytes")
                    frames = [bytes(cstate.seg_pending)]
                    cstate.seg_pending, cstate.seg_need = bytearray(), None
        except SG.SegmentError as e:
            self._framing_error(cstate, "bad segment content: %s" % e, raw)
            return False
        for fr in frames:
            self.handle_frame(cstate, fr, 'segment')
        return True

    def reject_version(self, cstate, req):
        sv = self.supported_versions
        plain = [v for v in sv if v < 0x40]
        top = max(plain) if plain else (max(sv) if sv else 4)
        low = min(sv) if sv else top
        v = req['version']
        rv = top if (v > top or not sv) else low
        names = ', '.join('%d/v%d' % (x, x) for x in sorted(sv))
        body = F.body_error(rv, 'protocol', 'Invalid or unsupported protocol version (%d); supported versions are (%s)' % (v, names))
        stream = req['stream'] if rv >= 3 else max(-128, min(127, req['stream']))
        self.net.send(cstate.conn, F.frame(rv, 0, stream, F.OPNUM['ERROR'], body))

    def handle_frame(self, cstate, fr, framing='frame'):
        net = self.net
        try:
            req = F.parse_request(fr, cstate.decompress)
        except F.FrameError as e:
            net.parse_failures.append((self.address, cstate.conn.sim_id, str(e), bytes(fr[:64])))
            cstate.frames.append((None, framing, bool(len(fr) > 1 and fr[1] & 1), str(e)))
            return
        net.requests_parsed += 1
        req['_conn'] = cstate.conn.sim_id
        req['_node'] = self.address
        req['_t'] = net.world.now
        req['_framing'] = framing
        self.log.append(req)
        net.wire_log.append(req)
        cstate.frames.append((req, framing, req['compressed'], None))
        net.events.append(('node_recv', cstate.conn.sim_id, req['stream'], req['op'], net.world.now))
        cstate.outstanding[req['stream']] = req
        v = req['version']
        if self.observer is not None:
            self.observer(self, cstate, req)
        if v not in self.supported_versions:
            self.reject_version(cstate, req)
            return
        if v in self.beta_versions and not req['beta']:
            body = F.body_error(v, 'protocol', 'Beta version of the protocol used (%d/v%d-beta), but USE_BETA flag is unset' % (v, v))
            net.send(cstate.conn, F.frame(v, 0, req['stream'], F.OPNUM['ERROR'], body))
            return
        reaction = None
        if self.behaviour is not None:
            reaction = self.behaviour(self, cstate, req)
        if reaction is None:
            if self.silent and req['op'] not in ('OPTIONS', 'STARTUP', 'REGISTER', 'AUTH_RESPONSE', 'CREDENTIALS'):
                reaction = ('silence',)
            else:
                reaction = self.default_reaction(cstate, req)
        accepted = req['op'] == 'STARTUP' and self._accepts(reaction)
        if accepted and 5 <= v < 0x41:
            cstate.plain_once = accepted
        self.apply(cstate, req, reaction)
        if accepted:
            self.startup_accepted(cstate, req)

    def default_reaction(self, cstate, req):
        if req['op'] == 'STARTUP' and self.validate_startup_compression:
            algo = req['options'].get('COMPRESSION')
            if algo is not None and algo not in self.compression:
                return self.error(cstate, req, 'protocol', 'Unknown compression algorithm: %s' % algo)
        if req['op'] == 'CREDENTIALS':
            cstate.ready = True
            return self.reply(cstate, req, 'READY', b'')
        return SimNode.default_reaction(self, cstate, req)

    @staticmethod
    def _accepts(reaction):
        """the READY / AUTHENTICATE frame inside a reaction (the server accepted STARTUP), else None"""
        if reaction[0] in ('reply', 'hold'):
            try:
                op = F.OPCODES.get(F.split_header(reaction[1])[3])
            except Exception:
                return None
            return reaction[1] if op in ('READY', 'AUTHENTICATE') else None
        if reaction[0] == 'multi':
            for r in reaction[1]:
                x = HSNode._accepts(r)
                if x:
                    return x
        return None

    def startup_accepted(self, cstate, req):
        cstate.startup_accepted_at = len(cstate.frames) - 1
        algo = req['options'].get('COMPRESSION')
        cstate.algo = algo
        v = req['version']
        if 5 <= v < 0x41:
            cstate.segments = True
            cstate.segments_out = True
            cstate.seg_compressed = algo == 'lz4'
        elif algo in CODECS:
            cstate.decompress = CODECS[algo][1]
            cstate.compress_out = CODECS[algo][0]


def upgrade(env, cls=HSNode):
    """Replace the nodes of a fresh SimEnv (no connection made yet) by handshake-aware ones."""
    net = env.net
    net.cstates = {}
    net.framing_errors = []
    for a, old in list(net.nodes.items()):
        n = cls(net, old.info)
        n.supported_versions = set(old.supported_versions)
        net.nodes[a] = n
    plain_send = net.send

    def send(conn, data):
        cs = net.cstates.get(conn.sim_id)
        if cs is not None and cs.plain_once is not None and bytes(data) == bytes(cs.plain_once):
            cs.plain_once = None
            return plain_send(conn, data)
        if cs is None or not cs.segments_out:
            return plain_send(conn, data)
        try:
            stream = F.split_header(data)[2]
        except Exception:
            stream = None
        net.events.append(('node_send', conn.sim_id, stream, net.world.now))
        if conn.is_closed:
            return
        node = cs.node
        wire, _ = SG.encode_stream([bytes(data)], cs.seg_compressed,
                                   seg_block_compress if (cs.seg_compressed and node.compress_responses) else None)
        net.inbound[conn.sim_id].append(('data', wire))
    net.send = send
    return net
