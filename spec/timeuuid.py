"""Reference arithmetic for C34 (never imports cassandra).

* proleptic Gregorian day count <-> (year, month, day)  (integer algorithm, no datetime involved)
* version-1 UUID field extraction and the Unix-epoch offset of the UUID clock, in integers
* Cassandra's ``TimeUUIDType`` ordering

TimeUUIDType (org.apache.cassandra.db.marshal.TimeUUIDType.compareCustom, 2.x - 4.x; 4.1+/5.0 keep the order for
compatibility): first the 60-bit timestamp, reassembled from time_hi | time_mid | time_low, is compared as a number
(the version nibble is equal on both sides); on a tie the remaining 8 bytes (clock_seq_hi_and_variant, clock_seq_low,
node[0..5]) are compared one by one **as signed bytes** ("this has to be a signed per-byte comparison for
compatibility" - implemented there as ``lsb ^ 0x0080808080808080`` followed by a signed long comparison, which is
the same order).
"""

DAY_NS = 86400 * 10 ** 9


def days_from_civil(y, m, d):
    """Days since 1970-01-01 of the proleptic Gregorian date y-m-d (any integer year)."""
    y -= m <= 2
    era = y // 400
    yoe = y - era * 400
    mp = (m + 9) % 12
    doy = (153 * mp + 2) // 5 + d - 1
    doe = yoe * 365 + yoe // 4 - yoe // 100 + doy
    return era * 146097 + doe - 719468


def civil_from_days(z):
    """Inverse of days_from_civil."""
    z += 719468
    era = z // 146097
    doe = z - era * 146097
    yoe = (doe - doe // 1460 + doe // 36524 - doe // 146096) // 365
    y = yoe + era * 400
    doy = doe - (365 * yoe + yoe // 4 - yoe // 100)
    mp = (5 * doy + 2) // 153
    d = doy - (153 * mp + 2) // 5 + 1
    m = mp + 3 if mp < 10 else mp - 9
    return (y + (m <= 2), m, d)


FIRST_DAY = days_from_civil(1, 1, 1)          # -719162
LAST_DAY = days_from_civil(9999, 12, 31)      # 2932896

# 100-ns intervals between the UUID epoch 1582-10-15 and 1970-01-01
UUID_EPOCH_OFFSET = -days_from_civil(1582, 10, 15) * 86400 * 10 ** 7
MAX_TS100 = (1 << 60) - 1


def uuid_fields(b):
    """16 bytes -> (timestamp in 100 ns since 1582-10-15, version, variant bits, clock_seq, node)."""
    b = bytes(b)
    time_low = int.from_bytes(b[0:4], "big")
    time_mid = int.from_bytes(b[4:6], "big")
    thv = int.from_bytes(b[6:8], "big")
    ts = ((thv & 0x0FFF) << 48) | (time_mid << 32) | time_low
    clock = ((b[8] & 0x3F) << 8) | b[9]
    return ts, thv >> 12, b[8] >> 6, clock, int.from_bytes(b[10:16], "big")


def make_uuid_bytes(ts100, clock_seq, node):
    time_low = ts100 & 0xFFFFFFFF
    time_mid = (ts100 >> 32) & 0xFFFF
    thv = ((ts100 >> 48) & 0x0FFF) | 0x1000
    return (time_low.to_bytes(4, "big") + time_mid.to_bytes(2, "big") + thv.to_bytes(2, "big") +
            bytes([0x80 | ((clock_seq >> 8) & 0x3F), clock_seq & 0xFF]) + node.to_bytes(6, "big"))


def unix_us_of_uuid(b):
    """Microseconds since the Unix epoch of a v1 UUID, truncating the 100-ns digit (floor)."""
    return (uuid_fields(b)[0] - UUID_EPOCH_OFFSET) // 10


def _signed(x):
    return x - 256 if x >= 128 else x


def timeuuid_key(b):
    b = bytes(b)
    return (uuid_fields(b)[0], tuple(_signed(x) for x in b[8:16]))


def timeuuid_compare(a, b):
    ka, kb = timeuuid_key(a), timeuuid_key(b)
    return (ka > kb) - (ka < kb)
