"""Independent native-protocol frame codec (trusted base; never imports the driver).

Written from native_protocol_v1..v5.spec (+ the DSE v1/v2 additions the driver documents:
int-width query flags, continuous-paging options, REVISE_REQUEST).  Two halves:

  * ``parse_request(frame)``  - strict parser of CLIENT frames: every byte must be consumed.
  * response *encoders*       - build SERVER frames from plain Python descriptions.

Versions: 1..6, 0x41 (DSE_V1), 0x42 (DSE_V2).  Feature switches are derived from the specs:
  stream id 2 bytes            v >= 3
  query flags as [int]         v >= 5 (and DSE)           (v1-v4: [byte])
  per-request keyspace / PREPARE flags / result_metadata_id     v5, v6, DSE_V2   (not DSE_V1)
  unset values                 v >= 4
  custom payload, warnings     v >= 4
  continuous paging options    DSE_V1, DSE_V2 ; next-pages field DSE_V2
"""
import struct
import uuid as _uuid

OPCODES = {0x00: 'ERROR', 0x01: 'STARTUP', 0x02: 'READY', 0x03: 'AUTHENTICATE', 0x04: 'CREDENTIALS', 0x05: 'OPTIONS',
           0x06: 'SUPPORTED', 0x07: 'QUERY', 0x08: 'RESULT', 0x09: 'PREPARE', 0x0A: 'EXECUTE', 0x0B: 'REGISTER',
           0x0C: 'EVENT', 0x0D: 'BATCH', 0x0E: 'AUTH_CHALLENGE', 0x0F: 'AUTH_RESPONSE', 0x10: 'AUTH_SUCCESS',
           0xFF: 'REVISE_REQUEST'}
OPNUM = {v: k for k, v in OPCODES.items()}

F_COMPRESS, F_TRACING, F_PAYLOAD, F_WARNING, F_BETA = 0x01, 0x02, 0x04, 0x08, 0x10

Q_VALUES, Q_SKIP_META, Q_PAGE_SIZE, Q_PAGING_STATE, Q_SERIAL, Q_TIMESTAMP, Q_NAMES, Q_KEYSPACE, Q_NOW = \
    0x01, 0x02, 0x04, 0x08, 0x10, 0x20, 0x40, 0x80, 0x100
Q_DSE_PAGE_BYTES, Q_DSE_PAGING_OPTIONS = 0x40000000, 0x80000000

KNOWN_VERSIONS = (1, 2, 3, 4, 5, 6, 0x41, 0x42)

NULL = None


class Unset(object):
    def __repr__(self):
        return 'UNSET'


UNSET = Unset()


class FrameError(Exception):
    pass


def stream_bytes(v):
    return 2 if v >= 3 else 1


def header_len(v):
    return 9 if v >= 3 else 8


def int_flags(v):
    return v >= 5


def has_keyspace_flag(v):
    return v >= 5 and v != 0x41


def has_prepare_flags(v):
    return v >= 5 and v != 0x41


def has_result_metadata_id(v):
    return v >= 5 and v != 0x41


def has_continuous_paging(v):
    return v >= 0x41


def has_next_pages(v):
    return v >= 0x42


def error_code_map(v):
    return v >= 5


# ------------------------------------------------------------------------- reader
class R(object):
    def __init__(self, b):
        self.b = bytes(b)
        self.p = 0

    def take(self, n):
        if n < 0 or self.p + n > len(self.b):
            raise FrameError("truncated: need %d bytes at %d of %d" % (n, self.p, len(self.b)))
        out = self.b[self.p:self.p + n]
        self.p += n
        return out

    def u8(self):
        return self.take(1)[0]

    def u16(self):
        return int.from_bytes(self.take(2), 'big')

    def i32(self):
        return int.from_bytes(self.take(4), 'big', signed=True)

    def u32(self):
        return int.from_bytes(self.take(4), 'big')

    def i64(self):
        return int.from_bytes(self.take(8), 'big', signed=True)

    def _text(self, raw, what):
        try:
            return raw.decode('utf-8')
        except UnicodeDecodeError as e:
            raise FrameError("%s is not valid UTF-8: %s" % (what, e))

    def string(self):
        return self._text(self.take(self.u16()), "[string]")

    def long_string(self):
        n = self.i32()
        if n < 0:
            raise FrameError("negative long string length")
        return self._text(self.take(n), "[long string]")

    def short_bytes(self):
        return self.take(self.u16())

    def bytes_(self):
        n = self.i32()
        if n < 0:
            return None
        return self.take(n)

    def value(self, v):
        n = self.i32()
        if n == -1:
            return None
        if n == -2:
            if v < 4:
                raise FrameError("'not set' value (-2) before protocol v4")
            return UNSET
        if n < 0:
            raise FrameError("bad [value] length %d" % n)
        return self.take(n)

    def string_list(self):
        return [self.string() for _ in range(self.u16())]

    def string_map(self):
        out = {}
        for _ in range(self.u16()):
            k = self.string()
            if k in out:
                raise FrameError("duplicate map key %r" % k)
            out[k] = self.string()
        return out

    def bytes_map(self):
        out = {}
        for _ in range(self.u16()):
            k = self.string()
            out[k] = self.bytes_()
        return out

    def done(self):
        if self.p != len(self.b):
            raise FrameError("%d trailing bytes after the message body" % (len(self.b) - self.p))


# ------------------------------------------------------------------------- request parser
def split_header(data, v_hint=None):
    """Return (version, flags, stream, opcode, length, header_len) of the frame starting at data[0]."""
    if len(data) < 1:
        raise FrameError("empty")
    vb = data[0]
    v = vb & 0x7f
    hl = header_len(v)
    if len(data) < hl:
        raise FrameError("short header")
    flags = data[1]
    if v >= 3:
        stream = int.from_bytes(data[2:4], 'big', signed=True)
        opcode = data[4]
        length = int.from_bytes(data[5:9], 'big', signed=True)
    else:
        stream = int.from_bytes(data[2:3], 'big', signed=True)
        opcode = data[3]
        length = int.from_bytes(data[4:8], 'big', signed=True)
    return vb, flags, stream, opcode, length, hl


def parse_request(frame, decompress=None):
    """Strictly parse one complete client frame. Returns a dict of everything it carries."""
    frame = bytes(frame)
    vb, flags, stream, opcode, length, hl = split_header(frame)
    if vb & 0x80:
        raise FrameError("direction bit set on a request")
    v = vb
    if v not in KNOWN_VERSIONS:
        raise FrameError("unknown protocol version %d" % v)
    if length < 0:
        raise FrameError("negative length")
    if len(frame) != hl + length:
        raise FrameError("header length %d but %d body bytes present" % (length, len(frame) - hl))
    if opcode not in OPCODES:
        raise FrameError("unknown opcode 0x%02x" % opcode)
    op = OPCODES[opcode]
    allowed = F_COMPRESS | F_TRACING
    if v >= 4:
        allowed |= F_PAYLOAD
    # 0x10 (USE_BETA) is defined from v5 on; v1-v4 say "the rest of the flags is currently unused and ignored",
    # so a client that sets it on an older version still sends a well-formed frame
    allowed |= F_BETA
    if flags & ~allowed:
        raise FrameError("flags 0x%02x not defined for requests at v%d" % (flags, v))
    if stream < 0:
        raise FrameError("negative stream id on a request")
    body = frame[hl:]
    out = {'version': v, 'flags': flags, 'stream': stream, 'opcode': opcode, 'op': op, 'length': length,
           'compressed': bool(flags & F_COMPRESS), 'tracing': bool(flags & F_TRACING), 'beta': bool(flags & F_BETA)}
    if flags & F_COMPRESS:
        if 5 <= v < 0x41:
            raise FrameError("frame-level compression flag on a v5+ frame (compression is per segment)")
        if op in ('STARTUP', 'OPTIONS'):
            raise FrameError("%s must not be compressed" % op)
        if decompress is None:
            raise FrameError("compressed frame but no decompressor")
        body = decompress(body)
    r = R(body)
    out['payload'] = r.bytes_map() if flags & F_PAYLOAD else None
    getattr(_Req, op.lower(), _Req.unknown)(r, v, out)
    r.done()
    return out


def _read_values(r, v, names=False):
    n = r.u16()
    vals = []
    for _ in range(n):
        if names:
            nm = r.string()
            vals.append((nm, r.value(v)))
        else:
            vals.append(r.value(v))
    return vals


def _query_params(r, v, out):
    out['consistency'] = r.u16()
    fl = r.u32() if int_flags(v) else r.u8()
    out['qflags'] = fl
    known = Q_VALUES | Q_SKIP_META | Q_PAGE_SIZE | Q_PAGING_STATE | Q_SERIAL
    if v >= 3:
        known |= Q_TIMESTAMP | Q_NAMES
    if has_keyspace_flag(v):
        known |= Q_KEYSPACE
    if v in (5, 6):
        known |= Q_NOW
    if has_continuous_paging(v):
        known |= Q_DSE_PAGING_OPTIONS | Q_DSE_PAGE_BYTES
    if fl & ~known:
        raise FrameError("query flags 0x%x not defined at v%d" % (fl & ~known, v))
    out['values'] = _read_values(r, v, bool(fl & Q_NAMES)) if fl & Q_VALUES else None
    out['skip_metadata'] = bool(fl & Q_SKIP_META)
    out['page_size'] = r.i32() if fl & Q_PAGE_SIZE else None
    out['paging_state'] = r.bytes_() if fl & Q_PAGING_STATE else None
    out['serial_consistency'] = r.u16() if fl & Q_SERIAL else None
    out['timestamp'] = r.i64() if fl & Q_TIMESTAMP else None
    out['keyspace'] = r.string() if fl & Q_KEYSPACE else None
    out['now_in_seconds'] = r.i32() if fl & Q_NOW else None
    if fl & Q_DSE_PAGING_OPTIONS:
        cp = {'max_pages': r.i32(), 'max_pages_per_second': r.i32()}
        if has_next_pages(v):
            cp['max_queue_size'] = r.i32()
        out['continuous_paging'] = cp
    else:
        out['continuous_paging'] = None


class _Req(object):
    @staticmethod
    def unknown(r, v, out):
        raise FrameError("opcode %s is not a request" % out['op'])

    @staticmethod
    def startup(r, v, out):
        out['options'] = r.string_map()

    @staticmethod
    def options(r, v, out):
        pass

    @staticmethod
    def auth_response(r, v, out):
        if v < 2:
            raise FrameError("AUTH_RESPONSE before v2")
        out['token'] = r.bytes_()

    @staticmethod
    def credentials(r, v, out):
        if v != 1:
            raise FrameError("CREDENTIALS only exists in v1")
        out['credentials'] = r.string_map()

    @staticmethod
    def register(r, v, out):
        out['events'] = r.string_list()

    @staticmethod
    def query(r, v, out):
        out['query'] = r.long_string()
        if v == 1:
            out['consistency'] = r.u16()
            for k in ('values', 'page_size', 'paging_state', 'serial_consistency', 'timestamp', 'keyspace', 'continuous_paging'):
                out[k] = None
            out['qflags'] = None
        else:
            _query_params(r, v, out)

    @staticmethod
    def prepare(r, v, out):
        out['query'] = r.long_string()
        out['keyspace'] = None
        if has_prepare_flags(v):
            fl = r.u32()
            out['pflags'] = fl
            if fl & ~0x01:
                raise FrameError("PREPARE flags 0x%x undefined" % fl)
            if fl & 0x01:
                out['keyspace'] = r.string()

    @staticmethod
    def execute(r, v, out):
        out['query_id'] = r.short_bytes()
        out['result_metadata_id'] = r.short_bytes() if has_result_metadata_id(v) else None
        if v == 1:
            out['values'] = _read_values(r, v)
            out['consistency'] = r.u16()
            for k in ('page_size', 'paging_state', 'serial_consistency', 'timestamp', 'keyspace', 'continuous_paging'):
                out[k] = None
            out['qflags'] = None
        else:
            _query_params(r, v, out)

    @staticmethod
    def batch(r, v, out):
        if v < 2:
            raise FrameError("BATCH before v2")
        out['batch_type'] = r.u8()
        if out['batch_type'] not in (0, 1, 2):
            raise FrameError("bad batch type")
        qs = []
        for _ in range(r.u16()):
            kind = r.u8()
            if kind == 0:
                q = ('query', r.long_string())
            elif kind == 1:
                q = ('id', r.short_bytes())
            else:
                raise FrameError("bad batch query kind %d" % kind)
            qs.append(q + (_read_values(r, v),))
        out['queries'] = qs
        out['consistency'] = r.u16()
        out['serial_consistency'] = out['timestamp'] = out['keyspace'] = None
        if v >= 3:
            fl = r.u32() if int_flags(v) else r.u8()
            out['qflags'] = fl
            known = Q_SERIAL | Q_TIMESTAMP | Q_NAMES
            if has_keyspace_flag(v):
                known |= Q_KEYSPACE
            if v in (5, 6):
                known |= Q_NOW
            if fl & ~known:
                raise FrameError("batch flags 0x%x not defined at v%d" % (fl & ~known, v))
            if fl & Q_SERIAL:
                out['serial_consistency'] = r.u16()
            if fl & Q_TIMESTAMP:
                out['timestamp'] = r.i64()
            if fl & Q_KEYSPACE:
                out['keyspace'] = r.string()
            if fl & Q_NOW:
                out['now_in_seconds'] = r.i32()

    @staticmethod
    def revise_request(r, v, out):
        if not has_continuous_paging(v):
            raise FrameError("REVISE_REQUEST outside DSE protocols")
        out['op_type'] = r.i32()
        out['op_id'] = r.i32()
        out['next_pages'] = None
        if out['op_type'] == 2:
            if not has_next_pages(v):
                raise FrameError("backpressure revision before DSE_V2")
            out['next_pages'] = r.i32()
        elif out['op_type'] != 1:
            raise FrameError("unknown revision type")


# ------------------------------------------------------------------------- writer primitives
def w_u8(x):
    return bytes([x & 0xff])


def w_u16(x):
    if not 0 <= x <= 0xffff:
        raise ValueError("short out of range: %r" % x)
    return x.to_bytes(2, 'big')


def w_i32(x):
    return x.to_bytes(4, 'big', signed=True)


def w_i64(x):
    return x.to_bytes(8, 'big', signed=True)


def w_string(s):
    b = s.encode('utf-8')
    return w_u16(len(b)) + b


def w_long_string(s):
    b = s.encode('utf-8')
    return w_i32(len(b)) + b


def w_short_bytes(b):
    return w_u16(len(b)) + bytes(b)


def w_bytes(b):
    if b is None:
        return w_i32(-1)
    return w_i32(len(b)) + bytes(b)


def w_string_list(l):
    return w_u16(len(l)) + b''.join(w_string(s) for s in l)


def w_string_multimap(m):
    return w_u16(len(m)) + b''.join(w_string(k) + w_string_list(v) for k, v in m.items())


def w_bytes_map(m):
    return w_u16(len(m)) + b''.join(w_string(k) + w_bytes(v) for k, v in m.items())


def w_inet(addr, port):
    """[inet]: address bytes (4 or 16) with size byte, then int port."""
    return w_u8(len(addr)) + bytes(addr) + w_i32(port)


def w_inetaddr(addr):
    return w_u8(len(addr)) + bytes(addr)


TYPE_IDS = {'ascii': 0x01, 'bigint': 0x02, 'blob': 0x03, 'boolean': 0x04, 'counter': 0x05, 'decimal': 0x06, 'double': 0x07,
            'float': 0x08, 'int': 0x09, 'timestamp': 0x0B, 'uuid': 0x0C, 'varchar': 0x0D, 'text': 0x0D, 'varint': 0x0E,
            'timeuuid': 0x0F, 'inet': 0x10, 'date': 0x11, 'time': 0x12, 'smallint': 0x13, 'tinyint': 0x14, 'duration': 0x15}
MARSHAL = 'org.apache.cassandra.db.marshal.'
_MARSHAL_NAMES = {'ascii': 'AsciiType', 'bigint': 'LongType', 'blob': 'BytesType', 'boolean': 'BooleanType', 'counter': 'CounterColumnType',
                  'date': 'SimpleDateType', 'decimal': 'DecimalType', 'double': 'DoubleType', 'duration': 'DurationType', 'float': 'FloatType',
                  'inet': 'InetAddressType', 'int': 'Int32Type', 'smallint': 'ShortType', 'text': 'UTF8Type', 'varchar': 'UTF8Type',
                  'time': 'TimeType', 'timestamp': 'TimestampType', 'timeuuid': 'TimeUUIDType', 'tinyint': 'ByteType', 'uuid': 'UUIDType',
                  'varint': 'IntegerType'}


def marshal_name(t):
    k = t[0]
    if k in _MARSHAL_NAMES:
        return MARSHAL + _MARSHAL_NAMES[k]
    if k == 'list':
        return MARSHAL + 'ListType(%s)' % marshal_name(t[1])
    if k == 'set':
        return MARSHAL + 'SetType(%s)' % marshal_name(t[1])
    if k == 'map':
        return MARSHAL + 'MapType(%s,%s)' % (marshal_name(t[1]), marshal_name(t[2]))
    if k == 'tuple':
        return MARSHAL + 'TupleType(%s)' % ','.join(marshal_name(x) for x in t[1:])
    if k == 'frozen':
        return MARSHAL + 'FrozenType(%s)' % marshal_name(t[1])
    if k == 'reversed':
        return MARSHAL + 'ReversedType(%s)' % marshal_name(t[1])
    if k == 'vector':
        return MARSHAL + 'VectorType(%s , %d)' % (marshal_name(t[1]), t[2])
    if k == 'udt':
        return MARSHAL + 'UserType(%s,%s,%s)' % (t[1], t[2].encode('utf-8').hex(),
                                                 ','.join('%s:%s' % (n.encode('utf-8').hex(), marshal_name(ft)) for n, ft in t[3]))
    raise ValueError(t)


def w_type(t):
    """[option] describing a column type (spec type tuple as in spec/cqlcodec.py)."""
    k = t[0]
    if k in ('frozen', 'reversed'):
        return w_type(t[1])          # the binary type option has no frozen/reversed marker
    if k in TYPE_IDS:
        return w_u16(TYPE_IDS[k])
    if k == 'list':
        return w_u16(0x20) + w_type(t[1])
    if k == 'map':
        return w_u16(0x21) + w_type(t[1]) + w_type(t[2])
    if k == 'set':
        return w_u16(0x22) + w_type(t[1])
    if k == 'udt':
        return w_u16(0x30) + w_string(t[1]) + w_string(t[2]) + w_u16(len(t[3])) + b''.join(w_string(n) + w_type(ft) for n, ft in t[3])
    if k == 'tuple':
        return w_u16(0x31) + w_u16(len(t) - 1) + b''.join(w_type(x) for x in t[1:])
    if k == 'vector':
        return w_u16(0x00) + w_string(marshal_name(t))      # custom type: marshal class string
    raise ValueError("no type option for %r" % (t,))


# ------------------------------------------------------------------------- response encoders
def frame(v, flags, stream, opcode, body, response=True):
    vb = (0x80 | v) if response else v
    if v >= 3:
        hdr = bytes([vb, flags & 0xff]) + stream.to_bytes(2, 'big', signed=True) + bytes([opcode])
    else:
        hdr = bytes([vb, flags & 0xff]) + stream.to_bytes(1, 'big', signed=True) + bytes([opcode])
    return hdr + w_i32(len(body)) + bytes(body)


def response(v, stream, op, body, tracing_id=None, warnings=None, payload=None, compress=None, beta=False):
    """Complete response frame.  tracing id first, then warnings, then custom payload, then the message body."""
    flags = 0
    pre = b''
    if tracing_id is not None:
        flags |= F_TRACING
        pre += tracing_id.bytes if isinstance(tracing_id, _uuid.UUID) else bytes(tracing_id)
    if warnings is not None:
        if v < 4:
            raise ValueError("warnings need v4")
        flags |= F_WARNING
        pre += w_string_list(warnings)
    if payload is not None:
        if v < 4:
            raise ValueError("custom payload needs v4")
        flags |= F_PAYLOAD
        pre += w_bytes_map(payload)
    if beta:
        flags |= F_BETA
    full = pre + body
    if compress is not None and not (5 <= v < 0x41) and len(full) > 0:
        full = compress(full)
        flags |= F_COMPRESS
    return frame(v, flags, stream, OPNUM[op], full)


def body_ready():
    return b''


def body_supported(options):
    return w_string_multimap(options)


def body_authenticate(classname):
    return w_string(classname)


def body_auth_challenge(token):
    return w_bytes(token)


def body_auth_success(token):
    return w_bytes(token)


ERR = {'server': 0x0000, 'protocol': 0x000A, 'bad_credentials': 0x0100, 'unavailable': 0x1000, 'overloaded': 0x1001,
       'is_bootstrapping': 0x1002, 'truncate': 0x1003, 'write_timeout': 0x1100, 'read_timeout': 0x1200, 'read_failure': 0x1300,
       'function_failure': 0x1400, 'write_failure': 0x1500, 'cdc_write_failure': 0x1600, 'cas_write_unknown': 0x1700,
       'syntax': 0x2000, 'unauthorized': 0x2100, 'invalid': 0x2200, 'config': 0x2300, 'already_exists': 0x2400, 'unprepared': 0x2500}


def body_error(v, kind, message, **i):
    code = ERR[kind]
    b = w_i32(code) + w_string(message)
    if kind == 'unavailable':
        b += w_u16(i['consistency']) + w_i32(i['required']) + w_i32(i['alive'])
    elif kind == 'write_timeout':
        b += w_u16(i['consistency']) + w_i32(i['received']) + w_i32(i['blockfor']) + w_string(i['write_type'])
        if v in (5, 6) and i['write_type'] == 'CAS':
            b += w_u16(i.get('contentions', 0))
    elif kind == 'read_timeout':
        b += w_u16(i['consistency']) + w_i32(i['received']) + w_i32(i['blockfor']) + w_u8(1 if i['data_present'] else 0)
    elif kind in ('read_failure', 'write_failure'):
        if v < 4:
            raise ValueError("%s needs v4" % kind)
        b += w_u16(i['consistency']) + w_i32(i['received']) + w_i32(i['blockfor'])
        if error_code_map(v):
            m = i['reason_map']          # list of (addr bytes, code)
            b += w_i32(len(m)) + b''.join(w_inetaddr(a) + w_u16(c) for a, c in m)
        else:
            b += w_i32(i['failures'])
        b += w_u8(1 if i['data_present'] else 0) if kind == 'read_failure' else w_string(i['write_type'])
    elif kind == 'function_failure':
        b += w_string(i['keyspace']) + w_string(i['function']) + w_string_list(i['arg_types'])
    elif kind in ('cdc_write_failure',):
        pass
    elif kind == 'cas_write_unknown':
        b += w_u16(i['consistency']) + w_i32(i['received']) + w_i32(i['blockfor'])
    elif kind == 'already_exists':
        b += w_string(i['keyspace']) + w_string(i['table'])
    elif kind == 'unprepared':
        b += w_short_bytes(i['query_id'])
    return b


R_GLOBAL, R_MORE_PAGES, R_NO_METADATA, R_METADATA_CHANGED = 0x0001, 0x0002, 0x0004, 0x0008
R_DSE_CONTINUOUS, R_DSE_LAST = 0x40000000, 0x80000000


def rows_metadata(v, columns, global_spec=True, paging_state=None, no_metadata=False, new_metadata_id=None,
                  continuous_seq=None, continuous_last=False):
    """columns: list of (keyspace, table, name, type)."""
    flags = 0
    body = b''
    if paging_state is not None:
        flags |= R_MORE_PAGES
        body += w_bytes(paging_state)
    if no_metadata:
        flags |= R_NO_METADATA
        return w_i32(flags) + w_i32(len(columns)) + body
    if continuous_seq is not None:
        flags |= R_DSE_CONTINUOUS
        if continuous_last:
            flags |= R_DSE_LAST
        body += w_i32(continuous_seq)
    if new_metadata_id is not None:
        if not has_result_metadata_id(v):
            raise ValueError("metadata id needs v5")
        flags |= R_METADATA_CHANGED
        body += w_short_bytes(new_metadata_id)
    if global_spec and columns:
        if len(set((c[0], c[1]) for c in columns)) != 1:
            raise ValueError("global table spec needs one table")
        flags |= R_GLOBAL
        body += w_string(columns[0][0]) + w_string(columns[0][1])
        for c in columns:
            body += w_string(c[2]) + w_type(c[3])
    else:
        for c in columns:
            body += w_string(c[0]) + w_string(c[1]) + w_string(c[2]) + w_type(c[3])
    return (flags & 0xffffffff).to_bytes(4, 'big') + w_i32(len(columns)) + body


def body_result_void():
    return w_i32(1)


def body_result_rows(v, columns, rows, **md):
    """rows: list of lists of encoded cell bytes (None = null)."""
    b = w_i32(2) + rows_metadata(v, columns, **md) + w_i32(len(rows))
    for row in rows:
        if len(row) != len(columns):
            raise ValueError("row width")
        for cell in row:
            b += w_bytes(cell)
    return b


def body_result_set_keyspace(ks):
    return w_i32(3) + w_string(ks)


def body_result_prepared(v, query_id, bind_columns, pk_indexes, result_columns, result_metadata_id=None,
                         bind_global=True, result_md=None):
    b = w_i32(4) + w_short_bytes(query_id)
    if has_result_metadata_id(v):
        b += w_short_bytes(result_metadata_id if result_metadata_id is not None else b'')
    flags = 0
    spec = b''
    if bind_global and bind_columns and len(set((c[0], c[1]) for c in bind_columns)) == 1:
        flags |= R_GLOBAL
        spec += w_string(bind_columns[0][0]) + w_string(bind_columns[0][1])
        for c in bind_columns:
            spec += w_string(c[2]) + w_type(c[3])
    else:
        for c in bind_columns:
            spec += w_string(c[0]) + w_string(c[1]) + w_string(c[2]) + w_type(c[3])
    b += w_i32(flags) + w_i32(len(bind_columns))
    if v >= 4:
        b += w_i32(len(pk_indexes)) + b''.join(w_u16(x) for x in pk_indexes)
    b += spec
    if v >= 2:
        b += rows_metadata(v, result_columns, **(result_md or {}))
    return b


def schema_change_body(v, change, target, keyspace, name=None, arg_types=None):
    if v >= 3:
        b = w_string(change) + w_string(target) + w_string(keyspace)
        if target != 'KEYSPACE':
            b += w_string(name)
            if target in ('FUNCTION', 'AGGREGATE'):
                if v < 4:
                    raise ValueError("function targets need v4")
                b += w_string_list(arg_types)
        return b
    if target not in ('KEYSPACE', 'TABLE'):
        raise ValueError("v1/v2 schema change has only keyspace/table")
    return w_string(change) + w_string(keyspace) + w_string(name if target == 'TABLE' else '')


def body_result_schema_change(v, change, target, keyspace, name=None, arg_types=None):
    return w_i32(5) + schema_change_body(v, change, target, keyspace, name, arg_types)


def body_event_topology(change, addr, port):
    return w_string('TOPOLOGY_CHANGE') + w_string(change) + w_inet(addr, port)


def body_event_status(change, addr, port):
    return w_string('STATUS_CHANGE') + w_string(change) + w_inet(addr, port)


def body_event_schema(v, change, target, keyspace, name=None, arg_types=None):
    return w_string('SCHEMA_CHANGE') + schema_change_body(v, change, target, keyspace, name, arg_types)


# ------------------------------------------------------------------------- self check
def selfcheck():
    n = 0
    # v4 QUERY with values, page size, serial, timestamp
    body = (w_long_string("SELECT 1") + w_u16(1) + w_u8(Q_VALUES | Q_PAGE_SIZE | Q_SERIAL | Q_TIMESTAMP) + w_u16(2) + w_i32(1) + b'a' +
            w_i32(-1) + w_i32(5000) + w_u16(8) + w_i64(-5))
    p = parse_request(frame(4, 0, 12, 0x07, body, response=False))
    assert p['query'] == "SELECT 1" and p['values'] == [b'a', None] and p['page_size'] == 5000 and p['serial_consistency'] == 8 and p['timestamp'] == -5
    n += 1
    # trailing byte must be rejected
    try:
        parse_request(frame(4, 0, 12, 0x07, body + b'\x00', response=False))
        raise AssertionError("trailing byte accepted")
    except FrameError:
        n += 1
    # v1 QUERY has no flags
    p = parse_request(frame(1, 0, 3, 0x07, w_long_string("x") + w_u16(1), response=False))
    assert p['consistency'] == 1 and p['values'] is None
    n += 1
    # v5 uses int flags + keyspace
    body = w_long_string("q") + w_u16(6) + w_i32(Q_KEYSPACE) + w_string("ks")
    p = parse_request(frame(5, F_BETA, 0, 0x07, body, response=False))
    assert p['keyspace'] == 'ks' and p['beta']
    n += 1
    # header shapes
    assert len(frame(2, 0, 1, 5, b'')) == 8 and len(frame(3, 0, 1, 5, b'')) == 9
    assert frame(4, 0, -1, 0x0C, b'')[2:4] == b'\xff\xff'
    n += 2
    return n
