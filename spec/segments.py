"""Independent implementation of native protocol v5 framing ("segments"), section 2 of
native_protocol_v5.spec.  Never imports the driver.

Segment, uncompressed:   header 3 bytes LE = payload_length(17 bits) | self_contained << 17
                         + CRC24(header) 3 bytes LE + payload + CRC32(payload) 4 bytes LE
Segment, compressed:     header 5 bytes LE = payload_length(17) | uncompressed_length(17) << 17 | self_contained << 34
                         + CRC24(header) 3 bytes LE + payload + CRC32(payload) 4 bytes LE
                         uncompressed_length == 0 means "payload was left uncompressed".
CRC32 is the standard (IEEE) CRC-32 computed over the 4 bytes FA 2D 55 CA followed by the payload.
CRC24 is Cassandra's Crc.crc24: init 0x875060, polynomial 0x1974F0B, bytes consumed in
little-endian order of the header value.
A self-contained segment holds one or more whole frames; a frame larger than 131071 bytes is
cut into consecutive non-self-contained segments which carry nothing else.
"""
MAX_PAYLOAD = (1 << 17) - 1


class SegmentError(Exception):
    pass


def _make_crc32_table():
    tbl = []
    for n in range(256):
        c = n
        for _ in range(8):
            c = (c >> 1) ^ 0xEDB88320 if c & 1 else c >> 1
        tbl.append(c)
    return tbl


_T32 = _make_crc32_table()


def crc32(data, crc=0):
    c = crc ^ 0xFFFFFFFF
    for b in data:
        c = _T32[(c ^ b) & 0xFF] ^ (c >> 8)
    return c ^ 0xFFFFFFFF


def payload_crc(payload):
    return crc32(bytes(payload), crc32(b'\xfa\x2d\x55\xca'))


def crc24(header_bytes):
    crc = 0x875060
    for b in header_bytes:
        crc ^= b << 16
        for _ in range(8):
            crc <<= 1
            if crc & 0x1000000:
                crc ^= 0x1974F0B
    return crc          # stays below 2**24: the polynomial clears bit 24 whenever the shift sets it


def encode_segment(payload, self_contained, compressed_codec=False, compress_block=None, leave_uncompressed=False):
    """One segment. With compressed_codec the 5-byte header is used; compress_block(data)->bytes gives the block form."""
    payload = bytes(payload)
    if len(payload) > MAX_PAYLOAD:
        raise SegmentError("payload too long")
    if compressed_codec:
        if leave_uncompressed or compress_block is None:
            wire, ulen = payload, 0
        else:
            wire, ulen = compress_block(payload), len(payload)
            if len(wire) > MAX_PAYLOAD or ulen == 0:
                wire, ulen = payload, 0
        h = len(wire) | (ulen << 17) | ((1 if self_contained else 0) << 34)
        hb = h.to_bytes(5, 'little')
    else:
        wire = payload
        h = len(wire) | ((1 if self_contained else 0) << 17)
        hb = h.to_bytes(3, 'little')
    return hb + crc24(hb).to_bytes(3, 'little') + wire + payload_crc(wire).to_bytes(4, 'little')


def encode_stream(frames, compressed_codec=False, compress_block=None, choose_uncompressed=None, pack=None):
    """Encode whole frames into segments.

    pack(i) -> bool: may frame i share a self-contained segment with the previous small frames?
    choose_uncompressed() -> bool: per segment, leave it uncompressed although compression is on.
    Returns (bytes, layout) where layout = list of dicts(start, end, frames=[indices wholly inside], part_of=index|None).
    """
    out = bytearray()
    layout = []
    cur, cur_idx = bytearray(), []

    def flush():
        nonlocal cur, cur_idx
        if cur_idx:
            seg = encode_segment(cur, True, compressed_codec, compress_block, bool(choose_uncompressed and choose_uncompressed()))
            layout.append({'start': len(out), 'end': len(out) + len(seg), 'frames': list(cur_idx), 'part_of': None,
                           'header_len': 5 if compressed_codec else 3, 'payload_len': len(seg) - (5 if compressed_codec else 3) - 7})
            out.extend(seg)
            cur, cur_idx = bytearray(), []

    for i, fr in enumerate(frames):
        fr = bytes(fr)
        if len(fr) > MAX_PAYLOAD:
            flush()
            for off in range(0, len(fr), MAX_PAYLOAD):
                part = fr[off:off + MAX_PAYLOAD]
                seg = encode_segment(part, False, compressed_codec, compress_block, bool(choose_uncompressed and choose_uncompressed()))
                layout.append({'start': len(out), 'end': len(out) + len(seg), 'frames': [], 'part_of': i,
                               'header_len': 5 if compressed_codec else 3, 'payload_len': len(seg) - (5 if compressed_codec else 3) - 7})
                out.extend(seg)
            continue
        if cur_idx and (len(cur) + len(fr) > MAX_PAYLOAD or not (pack and pack(i))):
            flush()
        cur.extend(fr)
        cur_idx.append(i)
    flush()
    return bytes(out), layout


def decode_stream(data, compressed_codec=False, decompress_block=None):
    """Strict decoder: returns the list of (payload, self_contained); raises SegmentError on any CRC/shape problem."""
    data = bytes(data)
    p = 0
    out = []
    hl = 5 if compressed_codec else 3
    while p < len(data):
        if p + hl + 3 > len(data):
            raise SegmentError("truncated segment header")
        hb = data[p:p + hl]
        if int.from_bytes(data[p + hl:p + hl + 3], 'little') != crc24(hb):
            raise SegmentError("header CRC24 mismatch")
        h = int.from_bytes(hb, 'little')
        plen = h & MAX_PAYLOAD
        if compressed_codec:
            ulen = (h >> 17) & MAX_PAYLOAD
            sc = (h >> 34) & 1
            if h >> 35:
                raise SegmentError("reserved header bits set")
        else:
            ulen = None
            sc = (h >> 17) & 1
            if h >> 18:
                raise SegmentError("reserved header bits set")
        p += hl + 3
        if p + plen + 4 > len(data):
            raise SegmentError("truncated segment payload")
        wire = data[p:p + plen]
        if int.from_bytes(data[p + plen:p + plen + 4], 'little') != payload_crc(wire):
            raise SegmentError("payload CRC32 mismatch")
        p += plen + 4
        if compressed_codec and ulen:
            payload = decompress_block(wire, ulen)
            if len(payload) != ulen:
                raise SegmentError("uncompressed length mismatch")
        else:
            payload = wire
        out.append((payload, bool(sc)))
    return out


def frames_from_segments(segments, header_len=9):
    """Reassemble whole frames (bytes) from decoded segments; strict about the self-contained rule."""
    frames = []
    pending = bytearray()
    need = None
    for payload, sc in segments:
        if sc:
            if pending:
                raise SegmentError("self-contained segment inside a multi-segment frame")
            q = 0
            while q < len(payload):
                if q + header_len > len(payload):
                    raise SegmentError("partial frame in a self-contained segment")
                ln = int.from_bytes(payload[q + 5:q + 9], 'big')
                if q + header_len + ln > len(payload):
                    raise SegmentError("frame overflows a self-contained segment")
                frames.append(bytes(payload[q:q + header_len + ln]))
                q += header_len + ln
        else:
            pending.extend(payload)
            if need is None and len(pending) >= header_len:
                need = header_len + int.from_bytes(pending[5:9], 'big')
            if need is not None and len(pending) >= need:
                if len(pending) != need:
                    raise SegmentError("multi-segment frame has trailing bytes")
                frames.append(bytes(pending))
                pending, need = bytearray(), None
    if pending:
        raise SegmentError("incomplete multi-segment frame")
    return frames


def selfcheck():
    import zlib
    n = 0
    for d in (b'', b'a', b'123456789', bytes(range(256)) * 5):
        assert crc32(d) == zlib.crc32(d)
        assert payload_crc(d) == zlib.crc32(d, zlib.crc32(b'\xfa\x2d\x55\xca'))
        n += 2
    # CRC-24 must detect every single-bit flip of a header
    hb = (1234 | (1 << 17)).to_bytes(3, 'little')
    c = crc24(hb)
    for bit in range(24):
        hb2 = bytearray(hb)
        hb2[bit // 8] ^= 1 << (bit % 8)
        assert crc24(hb2) != c
        n += 1
    frames = [bytes([0x85, 0, 0, i, 8]) + (10).to_bytes(4, 'big') + bytes(10) for i in range(3)] + \
             [bytes([0x85, 0, 0, 9, 8]) + (300000).to_bytes(4, 'big') + bytes(300000)]
    for cc in (False, True):
        data, layout = encode_stream(frames, cc, (lambda b: zlib.compress(b)) if cc else None, None, lambda i: True)
        segs = decode_stream(data, cc, (lambda w, u: zlib.decompress(w)) if cc else None)
        assert frames_from_segments(segs) == frames
        n += 1
    return n
