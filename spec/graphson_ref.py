"""Reference facts about GraphSON wire forms used by C40.  Never imports the driver.

``parse_iso_duration(text) -> Fraction`` (seconds)
    Reads the day-time form ``PnDTnHnMn.nS`` the way ``java.time.Duration.parse`` does (the peer of ``gx:Duration``):
    optional leading sign, every component optional and individually signed, seconds with an optional decimal fraction.
    Exponent notation (``1e-06``) is not part of the syntax -> ``ValueError``.  The 9-digit limit Java puts on the fraction
    is NOT enforced here (not needed by the oracle, and not demanded).

``INT_RANGES``  value range of the integer type tags (TinkerPop GraphSON: g:Int32 = Java Integer, g:Int64 = Java Long,
    gx:Int16 = Java Short, gx:Byte = Java Byte).
``tag_admits(tag, value)``  True / False for the tags in ``INT_RANGES``; None for other tags.
``walk_typed(obj)``  yields every ``(tag, value)`` pair of ``{"@type": tag, "@value": value}`` nodes in a decoded JSON document.
"""
from fractions import Fraction

INT_RANGES = {
    "g:Int32": (-2 ** 31, 2 ** 31 - 1),
    "g:Int64": (-2 ** 63, 2 ** 63 - 1),
    "gx:Int16": (-2 ** 15, 2 ** 15 - 1),
    "gx:Byte": (-2 ** 7, 2 ** 7 - 1),
}


def tag_admits(tag, value):
    r = INT_RANGES.get(tag)
    if r is None:
        return None
    if isinstance(value, bool) or not isinstance(value, int):
        return False
    return r[0] <= value <= r[1]


def walk_typed(obj):
    if isinstance(obj, dict):
        if "@type" in obj:
            yield obj["@type"], obj.get("@value")
        for v in obj.values():
            for x in walk_typed(v):
                yield x
    elif isinstance(obj, list):
        for v in obj:
            for x in walk_typed(v):
                yield x


def _int(text, what):
    t = text
    if t[:1] in ("+", "-"):
        t = t[1:]
    if not t or not all("0" <= c <= "9" for c in t):
        raise ValueError("bad %s component %r" % (what, text))
    return int(text)


def parse_iso_duration(text):
    s = text
    neg = False
    if s[:1] in ("+", "-"):
        neg = s[0] == "-"
        s = s[1:]
    if s[:1] not in ("P", "p"):
        raise ValueError("duration must start with P: %r" % text)
    s = s[1:]
    date, sep, time = s.upper().partition("T")
    if not date and not sep:
        raise ValueError("empty duration %r" % text)
    total = Fraction(0)
    if date:
        if not date.endswith("D"):
            raise ValueError("only a day component may precede T: %r" % text)
        total += _int(date[:-1], "day") * 86400
    if sep:
        if not time:
            raise ValueError("nothing after T: %r" % text)
        rest = time
        for unit, mult in (("H", 3600), ("M", 60)):
            i = rest.find(unit)
            if i >= 0:
                total += _int(rest[:i], unit) * mult
                rest = rest[i + 1:]
        if rest:
            if not rest.endswith("S"):
                raise ValueError("trailing text in duration %r" % text)
            sec = rest[:-1]
            whole, dot, frac = sec.replace(",", ".").partition(".")
            sign = -1 if whole[:1] == "-" else 1
            w = _int(whole, "second")
            if dot and frac and not all("0" <= c <= "9" for c in frac):
                raise ValueError("bad second fraction %r" % sec)
            total += w
            if frac:
                total += sign * Fraction(int(frac), 10 ** len(frac))
    return -total if neg else total


def _selftest():
    assert parse_iso_duration("P0DT0H0M0.0S") == 0
    assert parse_iso_duration("P1DT1H1M1.5S") == 86400 + 3600 + 60 + Fraction(3, 2)
    assert parse_iso_duration("P-1DT23H59M59.0S") == -1
    assert parse_iso_duration("PT-1.5S") == Fraction(-3, 2)
    assert parse_iso_duration("-PT2M") == -120
    assert parse_iso_duration("P2D") == 172800
    for bad in ("P0DT0H0M1e-06S", "", "P", "PT", "1S", "P1H", "PT1.5.5S", "PT1X"):
        try:
            parse_iso_duration(bad)
        except ValueError:
            pass
        else:
            raise AssertionError("accepted %r" % bad)
    assert tag_admits("g:Int32", 2 ** 31 - 1) and not tag_admits("g:Int32", 2 ** 31) and tag_admits("g:Float", 1.0) is None
    assert list(walk_typed({"a": [{"@type": "g:Int32", "@value": 1}]})) == [("g:Int32", 1)]
    return True


if __name__ == "__main__":
    _selftest()
    print("spec.graphson_ref self-test ok")
