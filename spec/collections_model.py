"""Reference models for C33 (never imports cassandra).

* ``ModelSet``   - a mathematical set over elements that only support ``==`` and ``<``: a plain list kept
                   unique (by ``==``) and ascending (by ``<``) with linear scans - no bisection, no hashing.
* ``ModelMap``   - insertion-ordered mapping whose key identity is an arbitrary ``ident(key) -> bytes``.
* ``encode_key`` - CQL (native protocol v3+) encoding of a value of a small type language, used as key identity:
                   'int' | 'bigint' | 'text' | ('list', T) | ('set', T) | ('map', K, V) | ('tuple', T1, T2, ...)
"""
import struct


class ModelSet(object):
    def __init__(self, iterable=(), ordered=True):
        self.xs = []
        self.ordered = ordered      # False: elements are only partially ordered; position is then meaningless
        for x in iterable:
            self.add(x)

    def index(self, x):
        for i, e in enumerate(self.xs):
            if e == x:
                return i
        return -1

    def __contains__(self, x):
        return self.index(x) >= 0

    def __len__(self):
        return len(self.xs)

    def add(self, x):
        if self.index(x) >= 0:
            return
        if self.ordered:
            for i, e in enumerate(self.xs):
                if x < e:
                    self.xs.insert(i, x)
                    return
        self.xs.append(x)

    def discard(self, x):
        i = self.index(x)
        if i >= 0:
            del self.xs[i]
            return True
        return False

    def copy(self):
        m = ModelSet(ordered=self.ordered)
        m.xs = list(self.xs)
        return m

    # set algebra against any iterable
    def union(self, *others):
        m = self.copy()
        for o in others:
            for x in o:
                m.add(x)
        return m

    def intersection(self, *others):
        m = ModelSet(ordered=self.ordered)
        for x in self.xs:
            if all(any(x == y for y in o) for o in others):
                m.add(x)
        return m

    def difference(self, *others):
        m = ModelSet(ordered=self.ordered)
        for x in self.xs:
            if not any(any(x == y for y in o) for o in others):
                m.add(x)
        return m

    def symmetric_difference(self, other):
        o = ModelSet(other, ordered=self.ordered)
        return self.difference(o.xs).union(o.difference(self.xs).xs)

    def issubset(self, other):
        return all(any(x == y for y in other) for x in self.xs)

    def issuperset(self, other):
        return all(any(x == y for x in self.xs) for y in other)

    def isdisjoint(self, other):
        return not any(any(x == y for y in other) for x in self.xs)

    def same_elements(self, other):
        o = ModelSet(other, ordered=self.ordered)
        return len(o) == len(self) and self.issubset(o.xs)


class ModelMap(object):
    def __init__(self, ident):
        self.ident = ident
        self.entries = []         # [ident, key object, value] in insertion order

    def _find(self, key):
        k = self.ident(key)
        for i, e in enumerate(self.entries):
            if e[0] == k:
                return i
        return -1

    def set(self, key, value):
        i = self._find(key)
        if i >= 0:
            self.entries[i][2] = value      # position is kept, as in an insertion-ordered dict
        else:
            self.entries.append([self.ident(key), key, value])

    def has(self, key):
        return self._find(key) >= 0

    def get(self, key):
        i = self._find(key)
        if i < 0:
            raise KeyError(key)
        return self.entries[i][2]

    def delete(self, key):
        i = self._find(key)
        if i < 0:
            raise KeyError(key)
        del self.entries[i]

    def popitem(self):
        if not self.entries:
            raise KeyError()
        e = self.entries.pop()
        return e[0], e[2]

    def idents(self):
        return [e[0] for e in self.entries]

    def values(self):
        return [e[2] for e in self.entries]

    def __len__(self):
        return len(self.entries)


def _elem(t, v):
    if v is None:
        return struct.pack(">i", -1)
    b = encode_key(t, v)
    return struct.pack(">i", len(b)) + b


def encode_key(t, v):
    """CQL binary form (collections with 4-byte counts/lengths, i.e. native protocol v3 and later)."""
    if t == "int":
        return struct.pack(">i", v)
    if t == "bigint":
        return struct.pack(">q", v)
    if t == "text":
        return v.encode("utf-8")
    kind = t[0]
    if kind in ("list", "set"):
        items = list(v)
        return struct.pack(">i", len(items)) + b"".join(_elem(t[1], x) for x in items)
    if kind == "map":
        pairs = list(v.items()) if hasattr(v, "items") else list(v)
        return struct.pack(">i", len(pairs)) + b"".join(_elem(t[1], k) + _elem(t[2], x) for k, x in pairs)
    if kind == "tuple":
        items = list(v)
        if len(items) > len(t) - 1:
            raise ValueError("tuple too long")
        return b"".join(_elem(st, x) for st, x in zip(t[1:], items))
    raise ValueError("unknown type %r" % (t,))


def encode_map(kt, vt, pairs, proto=4):
    """A map<kt, vt> cell as a v3+ coordinator sends it (proto 1/2: 2-byte count/lengths at the outer level)."""
    if proto >= 3:
        out = [struct.pack(">i", len(pairs))]
        for k, v in pairs:
            out.append(_elem(kt, k))
            out.append(_elem(vt, v))
        return b"".join(out)
    out = [struct.pack(">H", len(pairs))]
    for k, v in pairs:
        for t, x in ((kt, k), (vt, v)):
            b = encode_key(t, x)
            out.append(struct.pack(">H", len(b)) + b)
    return b"".join(out)


def casstype_name(t):
    """Cassandra class-name notation for the type language above (collections nested in a key are frozen)."""
    simple = {"int": "Int32Type", "bigint": "LongType", "text": "UTF8Type"}
    if t in simple:
        return simple[t]
    kind = t[0]
    inner = ", ".join(casstype_name(s) for s in t[1:])
    name = {"list": "ListType", "set": "SetType", "map": "MapType", "tuple": "TupleType"}[kind]
    return "FrozenType(%s(%s))" % (name, inner)
