"""Cassandra's serialized partition key (what the partitioner hashes) - independent reference.

A table with ONE partition-key column hashes the column's serialized value as is.  A table with
several partition-key columns hashes the ``CompositeType`` image of the components in
PARTITION KEY order (``CompositeType.build``): for every component

    <unsigned 16-bit big-endian length> <component bytes> <end-of-component byte 0x00>

(the last component carries the 0x00 as well).  A component longer than 65535 bytes cannot be part
of a key.  This module never imports ``cassandra``.
"""


class KeyError_(Exception):
    pass


def partition_key(components):
    """``components``: serialized partition-key column values (bytes) in partition key order."""
    comps = [bytes(c) for c in components]
    if not comps:
        raise KeyError_("a partition key has at least one component")
    if len(comps) == 1:
        return comps[0]
    out = bytearray()
    for c in comps:
        n = len(c)
        if n > 0xFFFF:
            raise KeyError_("component of %d bytes" % n)
        out.append(n >> 8)
        out.append(n & 0xFF)
        out += c
        out.append(0)
    return bytes(out)


def split_composite(key):
    """Inverse of the multi-component layout; raises KeyError_ when ``key`` is not one (classification aid)."""
    key = bytes(key)
    pos, out = 0, []
    while pos < len(key):
        if pos + 2 > len(key):
            raise KeyError_("truncated length")
        n = (key[pos] << 8) | key[pos + 1]
        pos += 2
        if pos + n + 1 > len(key):
            raise KeyError_("truncated component")
        out.append(key[pos:pos + n])
        if key[pos + n] != 0:
            raise KeyError_("end-of-component byte is %d" % key[pos + n])
        pos += n + 1
    return out


def selfcheck():
    # hand-verified: (1, 'ab') as (int, text)
    assert partition_key([b'\x00\x00\x00\x01']) == b'\x00\x00\x00\x01'
    assert partition_key([b'\x00\x00\x00\x01', b'ab']).hex() == '0004' '00000001' '00' '0002' '6162' '00'
    assert partition_key([b'', b'x', b'']).hex() == '0000' '00' '0001' '78' '00' '0000' '00'
    assert split_composite(partition_key([b'a', b'', b'\x00\x01'])) == [b'a', b'', b'\x00\x01']
    return 4
