"""Independent implementation of the token Cassandra's Murmur3Partitioner assigns.

Written from Cassandra's ``org.apache.cassandra.utils.MurmurHash.hash3_x64_128`` and
``Murmur3Partitioner.getToken`` (seed 0, first 64-bit half, ``Long.MIN_VALUE`` mapped to
``Long.MAX_VALUE``).  Cassandra's variant differs from the canonical MurmurHash3_x64_128 in
exactly one place: the tail bytes are read with ``ByteBuffer.get`` and widened with
``(long)``, i.e. they are SIGN-extended before being shifted into k1/k2.  For keys whose tail
bytes are all < 0x80 the two variants agree, which is what makes the canonical published
vectors below usable.

Style on purpose unlike the driver's: every intermediate value is kept as an unsigned 64-bit
number under an explicit mask and blocks are read with ``int.from_bytes``.

This module never imports ``cassandra``.
"""

M64 = 0xFFFFFFFFFFFFFFFF
C1 = 0x87C37B91114253D5
C2 = 0x4CF5AD432745937F
MIN_LONG = -(1 << 63)
MAX_LONG = (1 << 63) - 1


def _rotl(x, r):
    return ((x << r) | (x >> (64 - r))) & M64


def _fmix(k):
    k ^= k >> 33
    k = (k * 0xFF51AFD7ED558CCD) & M64
    k ^= k >> 33
    k = (k * 0xC4CEB9FE1A85EC53) & M64
    k ^= k >> 33
    return k


def _java_byte_as_long(b):
    """(long) of a Java byte: sign extension to 64 bits, as an unsigned 64-bit pattern."""
    if b & 0x80:
        return b | 0xFFFFFFFFFFFFFF00
    return b


def _mix_k1(k1):
    k1 = (k1 * C1) & M64
    k1 = _rotl(k1, 31)
    return (k1 * C2) & M64


def _mix_k2(k2):
    k2 = (k2 * C2) & M64
    k2 = _rotl(k2, 33)
    return (k2 * C1) & M64


def hash3_x64_128(data, seed=0, signed_tail=True):
    """Returns (h1, h2) as unsigned 64-bit integers.

    ``signed_tail=True`` is Cassandra's behaviour; ``False`` gives the canonical
    MurmurHash3_x64_128 (used only to validate this module against published vectors).
    """
    data = bytes(data)
    n = len(data)
    h1 = h2 = seed & M64
    nblocks = n >> 4
    for blk in range(nblocks):
        off = blk << 4
        k1 = int.from_bytes(data[off:off + 8], "little")
        k2 = int.from_bytes(data[off + 8:off + 16], "little")
        h1 ^= _mix_k1(k1)
        h1 = _rotl(h1, 27)
        h1 = (h1 + h2) & M64
        h1 = (h1 * 5 + 0x52DCE729) & M64
        h2 ^= _mix_k2(k2)
        h2 = _rotl(h2, 31)
        h2 = (h2 + h1) & M64
        h2 = (h2 * 5 + 0x38495AB5) & M64
    tail = data[nblocks << 4:]
    widen = _java_byte_as_long if signed_tail else (lambda b: b)
    k1 = k2 = 0
    # Java's switch falls through from the highest tail index to the lowest
    for idx in range(len(tail) - 1, -1, -1):
        if idx >= 8:
            k2 ^= (widen(tail[idx]) << ((idx - 8) * 8)) & M64
        else:
            k1 ^= (widen(tail[idx]) << (idx * 8)) & M64
    if len(tail) > 8:
        h2 ^= _mix_k2(k2)
    if len(tail) > 0:
        h1 ^= _mix_k1(k1)
    h1 ^= n
    h2 ^= n
    h1 = (h1 + h2) & M64
    h2 = (h2 + h1) & M64
    h1 = _fmix(h1)
    h2 = _fmix(h2)
    h1 = (h1 + h2) & M64
    h2 = (h2 + h1) & M64
    return h1, h2


def to_signed64(u):
    return u - (1 << 64) if u & (1 << 63) else u


def hash_long(data):
    """hash[0] of hash3_x64_128(key, 0, len, 0) as a Java long."""
    return to_signed64(hash3_x64_128(data, 0, True)[0])


def normalize(v):
    """Murmur3Partitioner.normalize: Long.MIN_VALUE is not a legal token."""
    return MAX_LONG if v == MIN_LONG else v


def token(data):
    """Token of a (non-empty) partition key under Murmur3Partitioner."""
    return normalize(hash_long(data))


# --- inversion: keys with a chosen hash ---------------------------------------------------
# Every step of the finalisation and of the 16-byte body-block mixing is a bijection on 64-bit
# words (multiplication by an odd constant, rotation, x ^= x >> 33, addition of a known word), so
# a key ending in a full 16-byte block can be solved for ANY wanted h1.  Used to reach hash values
# random keys never hit (Long.MIN_VALUE has probability 2**-64).
_INV_C1 = pow(C1, -1, 1 << 64)
_INV_C2 = pow(C2, -1, 1 << 64)
_INV_5 = pow(5, -1, 1 << 64)
_INV_F1 = pow(0xFF51AFD7ED558CCD, -1, 1 << 64)
_INV_F2 = pow(0xC4CEB9FE1A85EC53, -1, 1 << 64)


def _rotr(x, r):
    return ((x >> r) | (x << (64 - r))) & M64


def _unfmix(k):
    k ^= k >> 33                       # x ^ (x >> 33) is its own inverse on 64 bits (2 * 33 > 64)
    k = (k * _INV_F2) & M64
    k ^= k >> 33
    k = (k * _INV_F1) & M64
    k ^= k >> 33
    return k


def _unmix_k1(m):
    return (_rotr((m * _INV_C2) & M64, 31) * _INV_C1) & M64


def _unmix_k2(m):
    return (_rotr((m * _INV_C1) & M64, 33) * _INV_C2) & M64


def _state_after_blocks(data):
    """(h1, h2) after the body loop over ``data`` (length a multiple of 16), seed 0."""
    h1 = h2 = 0
    for off in range(0, len(data), 16):
        k1 = int.from_bytes(data[off:off + 8], "little")
        k2 = int.from_bytes(data[off + 8:off + 16], "little")
        h1 ^= _mix_k1(k1)
        h1 = _rotl(h1, 27)
        h1 = (h1 + h2) & M64
        h1 = (h1 * 5 + 0x52DCE729) & M64
        h2 ^= _mix_k2(k2)
        h2 = _rotl(h2, 31)
        h2 = (h2 + h1) & M64
        h2 = (h2 * 5 + 0x38495AB5) & M64
    return h1, h2


def key_with_hash(target_h1, prefix=b"", other=0):
    """A key ``prefix + 16 bytes`` whose hash3_x64_128 h1 (as a Java long or as an unsigned word)
    is ``target_h1``.  ``prefix`` must be a whole number of 16-byte blocks; ``other`` (any 64-bit
    word) is the value fmix64 gives the second half and selects one of the 2**64 solutions."""
    prefix = bytes(prefix)
    if len(prefix) % 16:
        raise ValueError("prefix must be a multiple of 16 bytes")
    n = len(prefix) + 16
    want = target_h1 & M64
    f2 = other & M64
    f1 = (want - f2) & M64              # result h1 = fmix(a1) + fmix(a2)
    a1 = _unfmix(f1)
    a2 = _unfmix(f2)
    b2 = (a2 - a1) & M64                # a2 = b2 + a1 ; a1 = b1 + b2
    b1 = (a1 - b2) & M64
    H1 = b1 ^ n                         # state after the last block
    H2 = b2 ^ n
    p1, p2 = _state_after_blocks(prefix)
    t = ((H2 - 0x38495AB5) * _INV_5) & M64
    t = (t - H1) & M64
    t = _rotr(t, 31)
    k2 = _unmix_k2(t ^ p2)
    u = ((H1 - 0x52DCE729) * _INV_5) & M64
    u = (u - p2) & M64
    u = _rotr(u, 27)
    k1 = _unmix_k1(u ^ p1)
    return prefix + k1.to_bytes(8, "little") + k2.to_bytes(8, "little")


# --- hand-verified vectors --------------------------------------------------------------
# canonical MurmurHash3_x64_128, seed 0, as published with the reference implementation
# (hex digest = h1 big-endian || h2 big-endian); all-ASCII input, so Cassandra's variant
# must give the same numbers.
CANONICAL_VECTORS = [
    (b"", 0x0000000000000000, 0x0000000000000000),
    (b"hello", 0xCBD8A7B341BD9B02, 0x5B1E906A48AE1D19),
    (b"The quick brown fox jumps over the lazy dog", 0xE34BBC7BBC071B6C, 0x7A433CA9C49A9347),
]
# tokens Cassandra's Murmur3Partitioner reports (``SELECT token(k)``), including inputs whose
# tail carries bytes >= 0x80 (the signed-tail case); these literals are the well-known ones
# used by every driver's test-suite.
TOKEN_VECTORS = [
    (b"123", -7468325962851647638),
    (b"\x00\xff\x10\xfa\x99" * 10, 5837342703291459765),
    (b"\xfe" * 8, -8927430733708461935),
    (b"\x10" * 8, 1446172840243228796),
    (b"9223372036854775807", 7162290910810015547),
]


def self_check():
    """Returns a list of disagreements inside the trusted base (empty = fine)."""
    bad = []
    for data, h1, h2 in CANONICAL_VECTORS:
        got = hash3_x64_128(data, 0, False)
        if got != (h1, h2):
            bad.append(("canonical", data, got))
        if hash3_x64_128(data, 0, True) != (h1, h2):
            bad.append(("canonical-vs-signed-on-ascii", data, got))
    for data, tok in TOKEN_VECTORS:
        if token(data) != tok:
            bad.append(("token", data, token(data)))
    if normalize(MIN_LONG) != MAX_LONG or normalize(MIN_LONG + 1) != MIN_LONG + 1 or normalize(MAX_LONG) != MAX_LONG:
        bad.append(("normalize", None, None))
    # the signed tail must matter: 0x80 in the tail differs from the canonical variant
    if hash3_x64_128(b"\x80", 0, True) == hash3_x64_128(b"\x80", 0, False):
        bad.append(("signed-tail-not-effective", b"\x80", None))
    # the inversion against the forward hash (deterministic sample of targets / prefixes / free words)
    x = 0x9E3779B97F4A7C15
    for i in range(60):
        x = (x * 6364136223846793005 + 1442695040888963407) & M64
        tgt = [MIN_LONG, MAX_LONG, -1, 0, MIN_LONG + 1, to_signed64(x)][i % 6]
        pre = bytes((x >> (8 * (j % 8)) ^ j * 37) & 0xFF for j in range(16 * (i % 4)))
        k = key_with_hash(tgt, pre, x ^ (i * 0x0123456789ABCDEF))
        if len(k) != len(pre) + 16 or k[:len(pre)] != pre or hash_long(k) != tgt:
            bad.append(("key_with_hash", tgt, k))
    for w in (0, 1, 0x8000000000000000, M64, x):
        if _unfmix(_fmix(w)) != w or _unmix_k1(_mix_k1(w)) != w or _unmix_k2(_mix_k2(w)) != w:
            bad.append(("inverse-step", w, None))
    return bad
