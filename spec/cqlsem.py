"""A small in-memory interpreter of CQL data manipulation with current (3.x / 4.x) Cassandra semantics - trusted base of C35.

Never imports the driver.  Statements arrive as text (read by ``spec/cqlstmt.py``) plus a dict of bound values for the
``%(name)s`` placeholders; bound values are plain Python objects and are taken as the CQL values they denote:

    int / str / bool / float / Decimal / bytes / UUID / anything hashable   scalar (opaque unless the column is an integer type,
                                                                           text or boolean, whose values are shape-checked)
    set / frozenset      set<T>          list / tuple     list<T>          dict     map<K, V>
    None                 null

``Database.adapt`` (a callable, default identity) is applied to every bound value first, so that a harness can unwrap
driver-side wrappers (IN-list quoters, sorted sets, ordered maps).

WHAT IS MODELLED
  * tables with partition key, clustering columns (ascending order), static columns, regular columns, counter tables
  * INSERT (row marker; a static-only INSERT without clustering columns; null = delete the cell)
  * UPDATE  c = v | c = c + v | c = c - v | c = v + c | c[k] = v   on scalars, sets, lists, maps, counters; no row marker
  * DELETE  of rows / clustering ranges / partitions, of columns, of map / set elements and list indexes
  * BEGIN [UNLOGGED|COUNTER] BATCH: statements applied in order; a batch whose statements touch the same cell twice is
    *undefined* here (all statements of a batch share one timestamp in Cassandra and ties are broken by value) -> ``Undefined``
  * an empty collection IS a null cell; a row lives while it has a row marker or a non-null regular cell; a partition without
    live rows but with a non-null static cell yields one row with null clustering / regular columns when the query does not
    restrict the clustering columns
  * SELECT of one table: restrictions = IN < > <= >= on primary-key columns, = and CONTAINS [KEY] on other columns (evaluated by
    filtering), column selection, COUNT, ORDER BY on clustering columns (ASC / all DESC), LIMIT
  * validation (``Invalid`` = Cassandra answers InvalidRequest): unknown table / column, missing or null primary-key parts,
    "a non-static column needs the full primary key" for INSERT / UPDATE / column DELETE, primary-key columns in SET or in a
    DELETE selection, non-key columns in the WHERE of UPDATE / DELETE, clustering restrictions that are not a prefix, slices in
    UPDATE, incompatible double assignment of a column, collection operations on scalars, counter rules (INSERT on counter
    tables, SET of a counter, mixing counter and non-counter updates / batches), value shape vs. column type

WHAT IS CARRIED BUT NOT EVALUATED (stated limits)
  * USING TTL / TIMESTAMP: parsed, kept in ``Database.log``; nothing expires, statements apply in arrival order
  * IF EXISTS / IF NOT EXISTS / IF conditions: parsed, kept in the log; every statement is applied
  * which SELECTs need ALLOW FILTERING or an index; token() restrictions raise ``Undefined``
  * whether Cassandra accepts clustering-column restrictions on an UPDATE / DELETE that touches only static columns differs
    between releases: both forms are accepted
"""
from spec import cqllex as L
from spec import cqlstmt as P

__all__ = ["Invalid", "Undefined", "Table", "Database"]

INT_BITS = {"tinyint": 8, "smallint": 16, "int": 32, "bigint": 64, "counter": 64}


class Invalid(Exception):
    """Cassandra would reject the statement (syntax error or InvalidRequest)."""


class Undefined(Exception):
    """outside what this interpreter defines"""


class Table(object):
    """columns: ordered [(name, type, role)], role in partition / clustering / static / regular; type = nested tuple as in
    spec/cqlcodec.py: ('int',) ('text',) ('set', T) ('list', T) ('map', K, V) ('counter',)"""

    def __init__(self, keyspace, name, columns):
        self.keyspace, self.name = keyspace, name
        self.columns = list(columns)
        self.types = dict((n, t) for n, t, _ in columns)
        self.roles = dict((n, r) for n, _, r in columns)
        if len(self.types) != len(self.columns):
            raise ValueError("duplicate column")
        self.partition = [n for n, _, r in columns if r == "partition"]
        self.clustering = [n for n, _, r in columns if r == "clustering"]
        self.static = [n for n, _, r in columns if r == "static"]
        self.regular = [n for n, _, r in columns if r == "regular"]
        if not self.partition:
            raise ValueError("no partition key")
        if self.static and not self.clustering:
            raise ValueError("static columns need clustering columns")
        counters = [n for n in self.static + self.regular if self.types[n][0] == "counter"]
        self.is_counter = bool(counters)
        if counters and len(counters) != len(self.static + self.regular):
            raise ValueError("counter tables hold only counters")
        self.partitions = {}         # pkey tuple -> {"static": {col: value}, "rows": {ckey tuple: {"marker": bool, "cells": {col: value}}}}

    # -- state helpers -----------------------------------------------------------------------------------
    def part(self, pkey, create=False):
        p = self.partitions.get(pkey)
        if p is None and create:
            p = self.partitions[pkey] = {"static": {}, "rows": {}}
        return p

    def row(self, pkey, ckey, create=False):
        p = self.part(pkey, create)
        if p is None:
            return None
        r = p["rows"].get(ckey)
        if r is None and create:
            r = p["rows"][ckey] = {"marker": False, "cells": {}}
        return r

    @staticmethod
    def row_alive(r):
        return r["marker"] or any(v is not None for v in r["cells"].values())

    def live_rows(self, pkey):
        p = self.partitions.get(pkey)
        if p is None:
            return []
        return sorted(((ck, r) for ck, r in p["rows"].items() if self.row_alive(r)), key=lambda x: _sort_key(x[0]))

    def snapshot(self):
        """{pkey: {'static': {col: v}, 'rows': {ckey: {col: v}}}} of live content (null cells omitted)"""
        out = {}
        for pk, p in self.partitions.items():
            st = dict((c, v) for c, v in p["static"].items() if v is not None)
            rows = dict((ck, dict((c, v) for c, v in r["cells"].items() if v is not None)) for ck, r in self.live_rows(pk))
            if st or rows:
                out[pk] = {"static": st, "rows": rows}
        return out


def _sort_key(t):
    return tuple((0, x) if isinstance(x, (int, float)) and not isinstance(x, bool) else (1, str(x)) for x in t)


# ------------------------------------------------------------------------------------------------
# values
# ------------------------------------------------------------------------------------------------
def check_value(t, v, what):
    """normalised value of CQL type t for python value v (None stays None); raises Invalid on a shape mismatch"""
    if v is None:
        return None
    k = t[0]
    if k in ("frozen",):
        return check_value(t[1], v, what)
    if k in INT_BITS or k == "varint":
        if isinstance(v, bool) or not isinstance(v, int):
            raise Invalid("%s: %r is not an integer (%s)" % (what, v, k))
        if k in INT_BITS:
            b = INT_BITS[k]
            if not -(1 << (b - 1)) <= v < (1 << (b - 1)):
                raise Invalid("%s: %d out of range for %s" % (what, v, k))
        return int(v)
    if k in ("text", "varchar", "ascii"):
        if not isinstance(v, str):
            raise Invalid("%s: %r is not a string" % (what, v))
        return str(v)
    if k == "boolean":
        if not isinstance(v, bool):
            raise Invalid("%s: %r is not a boolean" % (what, v))
        return v
    if k == "list":
        if not isinstance(v, (list, tuple)):
            raise Invalid("%s: %r is not a list" % (what, v))
        out = [check_value(t[1], e, what) for e in v]
        if any(e is None for e in out):
            raise Invalid("%s: null inside a collection" % what)
        return out or None
    if k == "set":
        if isinstance(v, dict) and not v:
            return None                                   # {} is accepted for sets
        if not isinstance(v, (set, frozenset)):
            raise Invalid("%s: %r is not a set" % (what, v))
        out = set(check_value(t[1], e, what) for e in v)
        if None in out:
            raise Invalid("%s: null inside a collection" % what)
        return out or None
    if k == "map":
        if isinstance(v, (set, frozenset)) and not v:
            return None
        if not isinstance(v, dict):
            raise Invalid("%s: %r is not a map" % (what, v))
        out = {}
        for a, b in v.items():
            ka, vb = check_value(t[1], a, what), check_value(t[2], b, what)
            if ka is None or vb is None:
                raise Invalid("%s: null inside a collection" % what)
            out[ka] = vb
        return out or None
    try:
        hash(v)
    except TypeError:
        raise Invalid("%s: %r is not a scalar value (%s)" % (what, v, k))
    return v


class Database(object):
    def __init__(self, adapt=None):
        self.tables = {}
        self.adapt = adapt or (lambda v: v)
        self.log = []            # (kind, table, extras) of every applied statement: using / conditions carried here
        self.default_keyspace = None

    def add_table(self, table):
        self.tables[(table.keyspace, table.name)] = table
        return table

    # -- entry -------------------------------------------------------------------------------------------
    def execute(self, text, params=None):
        """Apply one statement.  SELECT returns a list of dict rows; everything else returns None.
        Raises Invalid (Cassandra rejects it) or Undefined."""
        try:
            st = P.parse(text)
        except P.StmtError as e:
            raise Invalid("syntax: %s" % e)
        params = params or {}
        if st.kind == "batch":
            return self._batch(st, params)
        if st.kind == "select":
            return self._select(st, params)
        touched = []
        self._apply(st, params, touched)
        return None

    # -- helpers -----------------------------------------------------------------------------------------
    def _table(self, ref):
        ks, name = ref
        t = self.tables.get((ks if ks is not None else self.default_keyspace, name))
        if t is None:
            raise Invalid("unconfigured table %s" % (name if ks is None else "%s.%s" % (ks, name)))
        return t

    def _val(self, v, params):
        """python value of a statement value (Term / Func)"""
        if isinstance(v, P.Func):
            raise Undefined("function call %s()" % v.name)
        if v.kind == "marker":
            style, name = v.value
            if style != "%(":
                raise Undefined("bind marker style %r" % style)
            if name not in params:
                raise Invalid("no value bound to placeholder %%(%s)s" % name)
            return self.adapt(params[name])
        if v.kind in ("list", "tuple"):
            return [self._val(x, params) for x in v.value]
        if v.kind == "set":
            return set(self._val(x, params) for x in v.value)
        if v.kind == "map":
            return dict((self._val(a, params), self._val(b, params)) for a, b in v.value)
        if v.kind == "empty_braces":
            return {}
        if v.kind in ("udt", "duration"):
            raise Undefined("%s literal" % v.kind)
        return v.value

    def _col(self, t, name, what):
        if name not in t.types:
            raise Invalid("%s: undefined column name %s" % (what, name))
        return t.types[name], t.roles[name]

    def _key_restrictions(self, t, where, params, kind, allow_slices):
        """-> (list of partition keys, clustering restriction list [(col, op, value(s))]) for UPDATE / DELETE"""
        per_col = {}
        for r in where:
            if r.lhs[0] != "col":
                raise Invalid("%s: only primary-key column relations are allowed in WHERE" % kind) if r.lhs[0] != "token" else Undefined("token()")
            name = r.lhs[1]
            ctype, role = self._col(t, name, kind + " WHERE")
            if role not in ("partition", "clustering"):
                raise Invalid("%s: non PRIMARY KEY column %s found in where clause" % (kind, name))
            if r.op == "=":
                vals = ("=", [check_value(ctype, self._val(r.rhs, params), "WHERE " + name)])
            elif r.op == "in":
                raw = r.rhs if isinstance(r.rhs, list) else None
                if raw is None:
                    got = self._val(r.rhs, params)
                    if not isinstance(got, (list, tuple)):
                        raise Invalid("%s: IN needs a list of values for %s, got %r" % (kind, name, got))
                    vs = [check_value(ctype, x, "WHERE " + name) for x in got]
                else:
                    vs = [check_value(ctype, self._val(x, params), "WHERE " + name) for x in raw]
                vals = ("in", vs)
            elif r.op in ("<", ">", "<=", ">="):
                if role == "partition":
                    raise Invalid("%s: only EQ and IN relation are supported on the partition key" % kind)
                if not allow_slices:
                    raise Invalid("%s: slice restrictions are not supported on the clustering columns in %s statements" % (kind, kind))
                vals = (r.op, [check_value(ctype, self._val(r.rhs, params), "WHERE " + name)])
            else:
                raise Invalid("%s: operator %s is not allowed in WHERE" % (kind, r.op))
            if any(x is None for x in vals[1]):
                raise Invalid("%s: invalid null value for primary key column %s" % (kind, name))
            if name in per_col:
                prev = per_col[name]
                both_slices = all(x[0] in ("<", ">", "<=", ">=") for x in prev) and vals[0] in ("<", ">", "<=", ">=")
                if not both_slices:
                    raise Invalid("%s: column %s is restricted more than once" % (kind, name))
                prev.append(vals)
            else:
                per_col[name] = [vals]
        pkeys = [()]
        for name in t.partition:
            if name not in per_col:
                raise Invalid("%s: some partition key parts are missing: %s" % (kind, name))
            op, vs = per_col[name][0]
            pkeys = [pk + (v,) for pk in pkeys for v in vs]
        clus = []
        gap = None
        sliced = False
        for name in t.clustering:
            if name not in per_col:
                gap = gap or name
                continue
            if gap is not None:
                raise Invalid("%s: PRIMARY KEY column %s cannot be restricted as preceding column %s is not restricted" % (kind, name, gap))
            if sliced:
                raise Invalid("%s: clustering column %s cannot be restricted (preceding column is restricted by a non-EQ relation)" % (kind, name))
            for op, vs in per_col[name]:
                if op in ("<", ">", "<=", ">="):
                    sliced = True
            clus.append((name, per_col[name]))
        return pkeys, clus

    @staticmethod
    def _full_clustering(t, clus):
        """list of complete clustering keys if every clustering column is restricted by = / IN, else None"""
        if len(clus) != len(t.clustering):
            return None
        keys = [()]
        for name, restr in clus:
            if len(restr) != 1 or restr[0][0] not in ("=", "in"):
                return None
            keys = [k + (v,) for k in keys for v in restr[0][1]]
        return keys

    @staticmethod
    def _ck_matches(t, clus, ckey):
        for i, (name, restr) in enumerate(clus):
            x = ckey[i]
            for op, vs in restr:
                if op == "=" and x != vs[0]:
                    return False
                if op == "in" and x not in vs:
                    return False
                if op in ("<", ">", "<=", ">="):
                    a, b = _sort_key((x,)), _sort_key((vs[0],))
                    if not {"<": a < b, ">": a > b, "<=": a <= b, ">=": a >= b}[op]:
                        return False
        return True

    # -- writes ------------------------------------------------------------------------------------------
    def _touch(self, touched, t, pkey, ckey, col, how, elems=None, deletion=False):
        """batch conflict bookkeeping: (table, pkey, ckey or 'static' or '*', col or '*', how, element keys or None)
        how: write (whole cell / collection) | element (single elements; elems = their keys, None for list append / prepend whose
        cells are always new) | counter | rows;  deletion = the operation only removes data (two deletions never conflict)"""
        if touched is not None:
            touched.append((t.name, pkey, ckey, col, how, None if elems is None else frozenset(elems), deletion))

    def _apply(self, st, params, touched):
        t = self._table(st.table)
        if st.kind == "insert":
            self._insert(t, st, params, touched)
        elif st.kind == "update":
            self._update(t, st, params, touched)
        elif st.kind == "delete":
            self._delete(t, st, params, touched)
        else:
            raise Invalid("%s is not a modification statement" % st.kind)

    def _using(self, st, params, counter_table):
        out = {}
        for k, v in st.using.items():
            val = self._val(v, params)
            if isinstance(val, bool) or not isinstance(val, int):
                raise Invalid("USING %s needs an integer" % k.upper())
            if k == "ttl" and (val < 0 or val > 20 * 365 * 24 * 3600):
                raise Invalid("ttl out of range")
            if counter_table and k == "ttl":
                raise Invalid("Cannot provide custom TTL for counter updates")
            if counter_table and k == "timestamp":
                raise Invalid("Cannot provide custom timestamp for counter updates")
            out[k] = val
        return out

    def _insert(self, t, st, params, touched):
        if t.is_counter:
            raise Invalid("INSERT statements are not allowed on counter tables, use UPDATE instead")
        using = self._using(st, params, False)
        vals = {}
        for name, v in zip(st.columns, st.values):
            ctype, role = self._col(t, name, "INSERT")
            vals[name] = check_value(ctype, self._val(v, params), "INSERT " + name)
        for name in t.partition:
            if name not in vals:
                raise Invalid("INSERT: some partition key parts are missing: %s" % name)
            if vals[name] is None:
                raise Invalid("INSERT: invalid null value in condition for column %s" % name)
        given_ck = [n for n in t.clustering if n in vals]
        sets_regular = any(t.roles[n] == "regular" for n in vals)
        sets_static = any(t.roles[n] == "static" for n in vals)
        pkey = tuple(vals[n] for n in t.partition)
        if len(given_ck) != len(t.clustering):
            if given_ck or sets_regular or not sets_static:
                missing = [n for n in t.clustering if n not in vals]
                raise Invalid("INSERT: some clustering keys are missing: %s" % ", ".join(missing))
            ckey = None
        else:
            for n in t.clustering:
                if vals[n] is None:
                    raise Invalid("INSERT: invalid null value in condition for column %s" % n)
            ckey = tuple(vals[n] for n in t.clustering)
        p = t.part(pkey, True)
        if ckey is not None:
            r = t.row(pkey, ckey, True)
            r["marker"] = True
            self._touch(touched, t, pkey, ckey, "<marker>", "write")
        for name, v in vals.items():
            role = t.roles[name]
            if role == "static":
                p["static"][name] = v
                self._touch(touched, t, pkey, "static", name, "write", deletion=v is None)
            elif role == "regular":
                r["cells"][name] = v
                self._touch(touched, t, pkey, ckey, name, "write", deletion=v is None)
        self.log.append(("insert", t.name, {"using": using, "if_not_exists": st.if_not_exists}))

    def _compat(self, assignments):
        seen = {}
        for a in assignments:
            for b in seen.get(a.column, []):
                if a.kind == "set" or b.kind == "set":
                    raise Invalid("multiple incompatible setting of column %s" % a.column)
            seen.setdefault(a.column, []).append(a)

    def _update(self, t, st, params, touched):
        using = self._using(st, params, t.is_counter)
        self._compat(st.assignments)
        ops = []
        for a in st.assignments:
            ctype, role = self._col(t, a.column, "UPDATE SET")
            if role in ("partition", "clustering"):
                raise Invalid("UPDATE: PRIMARY KEY part %s found in SET part" % a.column)
            ops.append((a, ctype, role))
        only_static = all(role == "static" for _, _, role in ops)
        pkeys, clus = self._key_restrictions(t, st.where, params, "UPDATE", allow_slices=False)
        full = self._full_clustering(t, clus)
        if not only_static and full is None:
            missing = [n for n in t.clustering if n not in [c for c, _ in clus]]
            raise Invalid("UPDATE: some clustering keys are missing: %s" % ", ".join(missing))
        for c in st.conditions:
            if c.lhs[0] in ("col", "elem"):
                self._col(t, c.lhs[1], "UPDATE IF")
        targets = [None] if (only_static and full is None) else full
        for pkey in pkeys:
            for ckey in targets:
                removed_added = {}
                for a, ctype, role in ops:
                    self._assign(t, pkey, ckey, a, ctype, role, params, touched, removed_added)
        self.log.append(("update", t.name, {"using": using, "conditions": len(st.conditions), "if_exists": st.if_exists}))

    def _cells(self, t, pkey, ckey, role):
        if role == "static":
            return t.part(pkey, True)["static"]
        return t.row(pkey, ckey, True)["cells"]

    def _assign(self, t, pkey, ckey, a, ctype, role, params, touched, removed_added):
        k = ctype[0]
        what = "UPDATE %s" % a.column
        cells = self._cells(t, pkey, ckey, role)
        where = "static" if role == "static" else ckey
        cur = cells.get(a.column)
        raw = self._val(a.value, params)
        if k == "counter":
            if a.kind not in ("add", "sub"):
                raise Invalid("%s: cannot set the value of a counter column (counters can only be incremented / decremented)" % what)
            if isinstance(raw, bool) or not isinstance(raw, int):
                raise Invalid("%s: counter delta %r is not an integer" % (what, raw))
            check_value(("bigint",), raw, what)
            cells[a.column] = (cur or 0) + (raw if a.kind == "add" else -raw)
            self._touch(touched, t, pkey, where, a.column, "counter")
            return
        if t.is_counter:
            raise Invalid("%s: non-counter operation on a counter table" % what)
        if a.kind == "set":
            cells[a.column] = check_value(ctype, raw, what)
            self._touch(touched, t, pkey, where, a.column, "write", deletion=cells[a.column] is None)
            return
        if k not in ("set", "list", "map"):
            raise Invalid("%s: invalid operation (%s) for non collection, non counter column" % (what, a.kind))
        if a.kind == "put":
            key = self._val(a.key, params)
            self._touch(touched, t, pkey, where, a.column, "element", [_hkey(key)], deletion=raw is None)
            if k == "map":
                kk = check_value(ctype[1], key, what + " key")
                if kk is None:
                    raise Invalid("%s: invalid null map key" % what)
                vv = check_value(ctype[2], raw, what + " value")
                m = dict(cur or {})
                if vv is None:
                    m.pop(kk, None)
                else:
                    m[kk] = vv
                cells[a.column] = m or None
                return
            if k == "list":
                if isinstance(key, bool) or not isinstance(key, int):
                    raise Invalid("%s: list index %r is not an integer" % (what, key))
                lst = list(cur or [])
                if not 0 <= key < len(lst):
                    raise Invalid("%s: list index %d out of bound, list has size %d" % (what, key, len(lst)))
                vv = check_value(ctype[1], raw, what)
                if vv is None:
                    del lst[key]
                else:
                    lst[key] = vv
                cells[a.column] = lst or None
                return
            raise Invalid("%s: element assignment on a set" % what)
        if a.kind == "prepend":
            if k != "list":
                raise Invalid("%s: prepend on a %s" % (what, k))
            v = check_value(ctype, raw, what) or []
            self._touch(touched, t, pkey, where, a.column, "element", None)
            cells[a.column] = (v + list(cur or [])) or None
            return
        if a.kind == "add":
            v = check_value(ctype, raw, what)
            self._touch(touched, t, pkey, where, a.column, "element", None if k == "list" else [_hkey(x) for x in (v or ())])
            if k == "list":
                cells[a.column] = (list(cur or []) + (v or [])) or None
            elif k == "set":
                for e in (v or ()):
                    if removed_added.get((a.column, e)) == "sub":
                        raise Undefined("element added and removed by the same statement")
                    removed_added[(a.column, e)] = "add"
                cells[a.column] = (set(cur or ()) | (v or set())) or None
            else:
                m = dict(cur or {})
                m.update(v or {})
                cells[a.column] = m or None
            return
        if a.kind == "sub":
            if k == "list":
                v = check_value(ctype, raw, what) or []
                self._touch(touched, t, pkey, where, a.column, "write", deletion=True)
                cells[a.column] = [x for x in (cur or []) if x not in v] or None
            elif k == "set":
                v = check_value(ctype, raw, what) or set()
                self._touch(touched, t, pkey, where, a.column, "element", [_hkey(x) for x in v], deletion=True)
                for e in v:
                    if removed_added.get((a.column, e)) == "add":
                        raise Undefined("element added and removed by the same statement")
                    removed_added[(a.column, e)] = "sub"
                cells[a.column] = (set(cur or ()) - v) or None
            else:
                v = check_value(("set", ctype[1]), raw, what + " (keys to remove)") or set()
                self._touch(touched, t, pkey, where, a.column, "element", [_hkey(x) for x in v], deletion=True)
                cells[a.column] = dict((x, y) for x, y in (cur or {}).items() if x not in v) or None
            return
        raise Invalid("%s: unknown operation %s" % (what, a.kind))

    def _delete(self, t, st, params, touched):
        using = self._using(st, params, t.is_counter)
        sels = []
        for sel in st.selections:
            ctype, role = self._col(t, sel[1], "DELETE")
            if role in ("partition", "clustering"):
                raise Invalid("DELETE: invalid identifier %s for deletion (should not be a PRIMARY KEY part)" % sel[1])
            sels.append((sel, ctype, role))
        pkeys, clus = self._key_restrictions(t, st.where, params, "DELETE", allow_slices=not sels)
        full = self._full_clustering(t, clus)
        for c in st.conditions:
            if c.lhs[0] in ("col", "elem"):
                self._col(t, c.lhs[1], "DELETE IF")
        if sels:
            only_static = all(role == "static" for _, _, role in sels)
            if not only_static and full is None:
                missing = [n for n in t.clustering if n not in [c for c, _ in clus]]
                raise Invalid("DELETE: some clustering keys are missing: %s" % ", ".join(missing))
            targets = [None] if (only_static and full is None) else full
            for pkey in pkeys:
                for ckey in targets:
                    for sel, ctype, role in sels:
                        if role == "regular" and t.row(pkey, ckey) is None:
                            self._touch(touched, t, pkey, ckey, sel[1], "write", deletion=True)
                            continue
                        if role == "static" and t.part(pkey) is None:
                            continue
                        cells = self._cells(t, pkey, ckey, role)
                        where = "static" if role == "static" else ckey
                        if sel[0] == "col":
                            cells[sel[1]] = None
                            self._touch(touched, t, pkey, where, sel[1], "write", deletion=True)
                            continue
                        key = self._val(sel[2], params)
                        k = ctype[0]
                        cur = cells.get(sel[1])
                        self._touch(touched, t, pkey, where, sel[1], "element", [_hkey(key)], deletion=True)
                        if k == "map":
                            kk = check_value(ctype[1], key, "DELETE %s[..]" % sel[1])
                            if kk is None:
                                raise Invalid("DELETE: invalid null map key")
                            cells[sel[1]] = dict((x, y) for x, y in (cur or {}).items() if x != kk) or None
                        elif k == "set":
                            kk = check_value(ctype[1], key, "DELETE %s[..]" % sel[1])
                            cells[sel[1]] = (set(cur or ()) - set([kk])) or None
                        elif k == "list":
                            if isinstance(key, bool) or not isinstance(key, int):
                                raise Invalid("DELETE: list index %r is not an integer" % (key,))
                            lst = list(cur or [])
                            if not 0 <= key < len(lst):
                                raise Invalid("DELETE: list index %d out of bound, list has size %d" % (key, len(lst)))
                            del lst[key]
                            cells[sel[1]] = lst or None
                        else:
                            raise Invalid("DELETE: invalid deletion operation for non collection column %s" % sel[1])
        else:
            for pkey in pkeys:
                p = t.part(pkey)
                self._touch(touched, t, pkey, "*", "*", "rows")
                if p is None:
                    continue
                if not clus:
                    del t.partitions[pkey]
                    continue
                for ckey in list(p["rows"]):
                    if self._ck_matches(t, clus, ckey):
                        del p["rows"][ckey]
        self.log.append(("delete", t.name, {"using": using, "conditions": len(st.conditions), "if_exists": st.if_exists}))

    def _batch(self, b, params):
        kinds = set()
        for s in b.statements:
            t = self._table(s.table)
            kinds.add("counter" if t.is_counter else "plain")
        if b.type == "counter" and "plain" in kinds:
            raise Invalid("cannot include non-counter statement in a counter batch")
        if b.type != "counter" and "counter" in kinds:
            raise Invalid("cannot include a counter statement in a %s batch" % b.type)
        for k, v in b.using.items():
            val = self._val(v, params)
            if isinstance(val, bool) or not isinstance(val, int):
                raise Invalid("USING TIMESTAMP needs an integer")
            for s in b.statements:
                if "timestamp" in s.using:
                    raise Invalid("timestamp must be set either on BATCH or individual statements")
        touched_all = []
        for i, s in enumerate(b.statements):
            touched = []
            self._apply(s, params, touched)
            touched_all.append(touched)
        self._conflicts(touched_all)
        self.log.append(("batch", None, {"type": b.type, "statements": len(b.statements)}))
        return None

    @staticmethod
    def _conflicts(touched_all):
        """two different statements of one batch on the same cell (or a row deletion with anything on the partition) -> Undefined"""
        seen = {}
        for i, touched in enumerate(touched_all):
            for tname, pkey, ckey, col, how, elems, deletion in touched:
                if how == "counter":
                    continue                                   # counter deltas commute
                if how == "rows":
                    for (tn, pk, ck, c), entries in seen.items():
                        if tn == tname and pk == pkey and any(j != i for j, _, _, _ in entries):
                            raise Undefined("a batch deletes rows of a partition another of its statements writes")
                    seen.setdefault((tname, pkey, "*", "*"), []).append((i, how, None, True))
                    continue
                for j, _, _, _ in seen.get((tname, pkey, "*", "*"), []):
                    if j != i:
                        raise Undefined("a batch deletes rows of a partition another of its statements writes")
                if col == "<marker>":
                    continue
                key = (tname, pkey, ckey, col)
                for j, h2, e2, d2 in seen.get(key, []):
                    if j == i or (deletion and d2):
                        continue
                    if how == "write" or h2 == "write" or (elems is not None and e2 is not None and elems & e2):
                        raise Undefined("two statements of a batch write the same cell %r (same timestamp: tie broken by value)" % (key,))
                seen.setdefault(key, []).append((i, how, elems, deletion))

    # -- SELECT ------------------------------------------------------------------------------------------
    def _select(self, st, params):
        t = self._table(st.table)
        names = [n for n, _, _ in t.columns]
        if st.selection == "*":
            sel = names
        elif isinstance(st.selection, tuple):
            sel = None
        else:
            for n in st.selection:
                self._col(t, n, "SELECT")
            sel = list(st.selection)
        tests = []
        restricts_clustering = False
        for r in st.where:
            if r.lhs[0] == "token":
                raise Undefined("token() restriction")
            if r.lhs[0] != "col":
                raise Undefined("relation on %r" % (r.lhs,))
            name = r.lhs[1]
            ctype, role = self._col(t, name, "SELECT WHERE")
            if role == "clustering":
                restricts_clustering = True
            if r.op == "is not null":
                raise Invalid("IS NOT NULL is only supported in materialized view definitions")
            if r.op == "in":
                if role not in ("partition", "clustering"):
                    raise Undefined("IN on a non-key column")
                raw = self._val(r.rhs, params) if not isinstance(r.rhs, list) else [self._val(x, params) for x in r.rhs]
                if not isinstance(raw, (list, tuple)):
                    raise Invalid("IN needs a list of values for %s" % name)
                vs = [check_value(ctype, x, "WHERE " + name) for x in raw]
                tests.append((name, "in", vs))
            elif r.op in ("=", "<", ">", "<=", ">=", "!="):
                if r.op == "!=":
                    raise Invalid("unsupported != relation")
                v = check_value(ctype, self._val(r.rhs, params), "WHERE " + name)
                if v is None:
                    raise Invalid("invalid null value in condition for column %s" % name)
                tests.append((name, r.op, v))
            elif r.op in ("contains", "contains key"):
                if ctype[0] not in ("set", "list", "map"):
                    raise Invalid("cannot use CONTAINS on non-collection column %s" % name)
                et = ctype[1] if (ctype[0] != "map" or r.op == "contains key") else ctype[2]
                tests.append((name, r.op, check_value(et, self._val(r.rhs, params), "WHERE " + name)))
            else:
                raise Undefined("operator %s" % r.op)
        order_desc = False
        if st.order_by:
            for i, (n, d) in enumerate(st.order_by):
                if i >= len(t.clustering) or t.clustering[i] != n:
                    raise Invalid("ORDER BY %s: order by is only supported on the clustering columns in their declared order" % n)
            dirs = set(d for _, d in st.order_by)
            if len(dirs) > 1:
                raise Invalid("unsupported order by relation (mixed directions)")
            order_desc = dirs == set(["desc"])
        limit = None
        if st.limit is not None:
            limit = self._val(st.limit, params)
            if isinstance(limit, bool) or not isinstance(limit, int) or limit <= 0:
                raise Invalid("LIMIT must be strictly positive")
        out = []
        for pkey in list(t.partitions):
            p = t.partitions[pkey]
            base = dict(zip(t.partition, pkey))
            static = dict((n, p["static"].get(n)) for n in t.static)
            rows = self.live_rows_of(t, pkey)
            if order_desc:
                rows = list(reversed(rows))
            cands = []
            for ckey, r in rows:
                row = dict(base)
                row.update(zip(t.clustering, ckey))
                row.update(static)
                for n in t.regular:
                    row[n] = r["cells"].get(n)
                cands.append(row)
            if not rows and any(v is not None for v in static.values()) and not restricts_clustering:
                row = dict(base)
                row.update((n, None) for n in t.clustering + t.regular)
                row.update(static)
                cands.append(row)
            for row in cands:
                if all(self._test(row.get(n), op, v) for n, op, v in tests):
                    out.append(row)
        if isinstance(st.selection, tuple):
            return [{"count": len(out)}]
        if limit is not None:
            out = out[:limit]
        return [dict((n, _copy(row[n])) for n in sel) for row in out]

    @staticmethod
    def live_rows_of(t, pkey):
        return t.live_rows(pkey)

    @staticmethod
    def _test(x, op, v):
        if op == "in":
            return x in v
        if x is None:
            return False
        if op == "=":
            return x == v
        if op in ("<", ">", "<=", ">="):
            a, b = _sort_key((x,)), _sort_key((v,))
            return {"<": a < b, ">": a > b, "<=": a <= b, ">=": a >= b}[op]
        if op == "contains":
            return v in (x.values() if isinstance(x, dict) else x)
        if op == "contains key":
            return isinstance(x, dict) and v in x
        return False


def _hkey(v):
    try:
        hash(v)
        return v
    except TypeError:
        return repr(v)


def _copy(v):
    if isinstance(v, set):
        return set(v)
    if isinstance(v, list):
        return list(v)
    if isinstance(v, dict):
        return dict(v)
    return v


def _selftest():
    db = Database()
    t = db.add_table(Table("ks", "t", [("p", ("int",), "partition"), ("c", ("int",), "clustering"), ("s", ("text",), "static"),
                                        ("a", ("int",), "regular"), ("st", ("set", ("int",)), "regular"), ("l", ("list", ("text",)), "regular"),
                                        ("m", ("map", ("int",), ("text",)), "regular")]))
    ex = db.execute
    ex('INSERT INTO ks.t ("p", "c", "a", "st", "l", "m", "s") VALUES (%(0)s, %(1)s, 5, {1, 2}, [\'x\'], {1: \'a\'}, \'S\')', {"0": 1, "1": 1})
    assert ex("SELECT * FROM ks.t WHERE p = 1") == [{"p": 1, "c": 1, "s": "S", "a": 5, "st": {1, 2}, "l": ["x"], "m": {1: "a"}}]
    ex('UPDATE ks.t SET st = st + {3}, st = st - {1}, l = [\'w\'] + l, l = l + [\'y\'], m[2] = \'b\', a = %(v)s WHERE p = 1 AND c = 1', {"v": None})
    assert ex("SELECT a, st, l, m FROM ks.t WHERE p = 1 AND c = 1") == [{"a": None, "st": {2, 3}, "l": ["w", "x", "y"], "m": {1: "a", 2: "b"}}]
    ex("UPDATE ks.t SET m = m - {1} WHERE p = 1 AND c = 1")
    ex("DELETE m[2], st FROM ks.t WHERE p = 1 AND c = 1")
    assert ex("SELECT m, st FROM ks.t WHERE p = 1")[0] == {"m": None, "st": None}
    ex("UPDATE ks.t SET a = 1 WHERE p = 1 AND c IN (2, 3)")
    assert [r["c"] for r in ex("SELECT c FROM ks.t WHERE p = 1 ORDER BY c DESC")] == [3, 2, 1]
    ex("UPDATE ks.t SET a = null WHERE p = 1 AND c = 2")                      # no row marker: the row is gone
    assert [r["c"] for r in ex("SELECT c FROM ks.t WHERE p = 1")] == [1, 3]
    ex("DELETE FROM ks.t WHERE p = 1 AND c >= 3")
    ex("DELETE l, a FROM ks.t WHERE p = 1 AND c = 1")
    assert ex("SELECT * FROM ks.t WHERE p = 1") == [{"p": 1, "c": 1, "s": "S", "a": None, "st": None, "l": None, "m": None}]   # marker keeps it
    ex("DELETE FROM ks.t WHERE p = 1 AND c = 1")
    assert ex("SELECT * FROM ks.t WHERE p = 1") == [{"p": 1, "c": None, "s": "S", "a": None, "st": None, "l": None, "m": None}]   # static row
    assert ex("SELECT * FROM ks.t WHERE p = 1 AND c = 1") == [] and ex("SELECT COUNT(*) FROM ks.t WHERE p = 1") == [{"count": 1}]
    ex("UPDATE ks.t SET s = null WHERE p = 1")
    assert ex("SELECT * FROM ks.t WHERE p = 1") == []
    ex("INSERT INTO ks.t (p, s) VALUES (2, 'only static')")
    ex("BEGIN BATCH INSERT INTO ks.t (p, c, a) VALUES (3, 1, 1) UPDATE ks.t SET a = 2 WHERE p = 3 AND c = 2; APPLY BATCH")
    assert len(ex("SELECT * FROM ks.t WHERE p = 3")) == 2
    c = db.add_table(Table("ks", "cnt", [("p", ("int",), "partition"), ("n", ("counter",), "regular")]))
    ex("UPDATE ks.cnt SET n = n + 5 WHERE p = 1")
    ex("UPDATE ks.cnt SET n = n - 2 WHERE p = 1")
    assert ex("SELECT n FROM ks.cnt WHERE p = 1") == [{"n": 3}]
    bad = ["INSERT INTO ks.t (p, a) VALUES (1, 2)", "INSERT INTO ks.t (c, a) VALUES (1, 2)", "INSERT INTO ks.t (p, c, a) VALUES (1, null, 2)",
           "UPDATE ks.t SET a = 1 WHERE p = 1", "UPDATE ks.t SET a = 1 WHERE c = 1", "UPDATE ks.t SET c = 1 WHERE p = 1 AND c = 2",
           "UPDATE ks.t SET a = 1 WHERE p = 1 AND c > 1", "UPDATE ks.t SET a = 1, a = 2 WHERE p = 1 AND c = 1", "UPDATE ks.t SET a = a + 1 WHERE p = 1 AND c = 1",
           "UPDATE ks.t SET st = [1] WHERE p = 1 AND c = 1", "UPDATE ks.t SET zz = 1 WHERE p = 1 AND c = 1", "DELETE a FROM ks.t WHERE p = 1",
           "DELETE m[1] FROM ks.t WHERE p = 1", "DELETE p FROM ks.t WHERE p = 1 AND c = 1", "DELETE FROM ks.t WHERE a = 1", "DELETE a FROM ks.t WHERE p = 1 AND c > 2",
           "INSERT INTO ks.cnt (p, n) VALUES (1, 2)", "UPDATE ks.cnt SET n = 5 WHERE p = 1", "UPDATE ks.nope SET a = 1 WHERE p = 1", "UPDATE ks.t SET a = 'x' WHERE p = 1 AND c = 1",
           "BEGIN BATCH UPDATE ks.cnt SET n = n + 1 WHERE p = 1 APPLY BATCH", "SELECT * FROM ks.t WHERE p = 1 LIMIT 0", "UPDATE ks.t SET a = 1 WHERE p = 1 AND c = 1 AND c = 2",
           "UPDATE ks.t SET m = m - [1] WHERE p = 1 AND c = 1", "UPDATE ks.t USING TTL -1 SET a = 1 WHERE p = 1 AND c = 1"]
    for b in bad:
        try:
            ex(b)
        except Invalid:
            pass
        else:
            raise AssertionError("accepted %r" % b)
    for ok in ["DELETE s FROM ks.t WHERE p = 1", "UPDATE ks.t SET s = 'x' WHERE p = 1", "UPDATE ks.t SET s = 'x' WHERE p = 1 AND c = 1",
               "DELETE FROM ks.t WHERE p = 9", "DELETE s, a FROM ks.t WHERE p = 1 AND c = 1", "UPDATE ks.t USING TTL 5 AND TIMESTAMP 7 SET a = 1 WHERE p = 1 AND c = 1 IF EXISTS"]:
        ex(ok)
    try:
        ex("BEGIN BATCH UPDATE ks.t SET a = 1 WHERE p = 5 AND c = 1 UPDATE ks.t SET a = 2 WHERE p = 5 AND c = 1 APPLY BATCH")
    except Undefined:
        pass
    else:
        raise AssertionError("batch tie accepted")
    return True


if __name__ == "__main__":
    L._selftest()
    P._selftest()
    _selftest()
    print("spec.cqlsem self-test ok")
