"""Independent reference codec for CQL values (trusted base; never imports the driver).

Written from the native-protocol specification (section "Data type serialization formats")
and the semantics of Cassandra's serializers:

  varint      java.math.BigInteger.toByteArray(): minimal big-endian two's complement
  decimal     int32 scale + varint unscaled value (java.math.BigDecimal)
  date        unsigned int32, day count with 1970-01-01 at 2**31   (SimpleDateSerializer)
  time        int64 nanoseconds since midnight, 0 <= t < 86_400e9  (TimeSerializer)
  timestamp   int64 milliseconds since the epoch
  duration    three zig-zag vints: months(int32) days(int32) nanoseconds(int64) (VIntCoding)
  collections v3+: int32 count, each element int32 length (-1 = null) + bytes; v1/v2: uint16
              widths, no null elements; nested collections always use the v3 layout
  tuple/UDT   each field int32 length (-1 = null) + bytes, always v3 layout inside
  vector      n elements; fixed-length element types are concatenated raw, variable-length
              elements are each prefixed by an unsigned vint length (VectorType)

Types are nested tuples:  ('int',) ('list', T) ('set', T) ('map', K, V) ('tuple', T...)
('udt', ks, name, ((field, T), ...)) ('vector', T, n) ('frozen', T) ('reversed', T).

Canonical values: int for all integer types / timestamp(ms) / date(days since epoch) /
time(ns); float; bool; str; bytes (blob, inet as 4 or 16 packed bytes); uuid.UUID;
decimal.Decimal; duration = (months, days, nanos); list for list/set/vector (set in the
order given); map = list of (key, value) pairs; tuple for tuple/udt; None for null.
"""
import decimal
import struct
import uuid

INT_RANGES = {
    'tinyint': 8, 'smallint': 16, 'int': 32, 'bigint': 64, 'counter': 64,
}
SCALARS = ('ascii', 'bigint', 'blob', 'boolean', 'counter', 'date', 'decimal', 'double', 'duration',
           'float', 'inet', 'int', 'smallint', 'text', 'varchar', 'time', 'timestamp', 'timeuuid',
           'tinyint', 'uuid', 'varint')

# vector element types whose Cassandra serializer has a fixed value length with certainty
FIXED_CERTAIN = {'int': 4, 'bigint': 8, 'float': 4, 'double': 8, 'uuid': 16, 'timeuuid': 16, 'timestamp': 8,
                 'boolean': 1}
# element types the oracle refuses to classify (excluded from byte-exact vector comparison)
FIXED_UNCERTAIN = ('tinyint', 'smallint', 'date', 'time', 'inet', 'duration', 'counter')


class SpecError(Exception):
    """value cannot be represented in the type (out of range, wrong shape)"""


class Undefined(Exception):
    """the reference deliberately does not define this case"""


# ---------------------------------------------------------------- primitives
def _signed_to_bytes(n, nbytes):
    lo, hi = -(1 << (8 * nbytes - 1)), (1 << (8 * nbytes - 1)) - 1
    if not isinstance(n, int) or isinstance(n, bool):
        raise SpecError("not an integer: %r" % (n,))
    if n < lo or n > hi:
        raise SpecError("%d does not fit %d bytes signed" % (n, nbytes))
    return (n & ((1 << (8 * nbytes)) - 1)).to_bytes(nbytes, 'big')


def _bytes_to_signed(b):
    n = int.from_bytes(b, 'big')
    if b and b[0] & 0x80:
        n -= 1 << (8 * len(b))
    return n


def varint_bytes(n):
    """BigInteger.toByteArray(): minimal two's complement, at least one byte."""
    if n >= 0:
        length = n.bit_length() // 8 + 1          # room for the sign bit
    else:
        length = (n + 1).bit_length() // 8 + 1    # -128 -> 1 byte, -129 -> 2 bytes
    return (n & ((1 << (8 * length)) - 1)).to_bytes(length, 'big')


def zigzag(n, bits=64):
    return ((n << 1) ^ (n >> (bits - 1))) & ((1 << bits) - 1)


def unzigzag(u):
    return (u >> 1) ^ -(u & 1)


def uvint_bytes(u):
    """Cassandra VIntCoding.writeUnsignedVInt for 0 <= u < 2**64."""
    if u < 0 or u >= 1 << 64:
        raise SpecError("unsigned vint out of range")
    if u < 0x80:
        return bytes([u])
    # total size = 9 - floor((magnitude-1)/7) ... computeUnsignedVIntSize: (639 - lz*9) >> 6 with lz = leading zeros of (u|1)
    lz = 64 - (u | 1).bit_length()
    size = (639 - lz * 9) >> 6
    extra = size - 1
    if size == 9:
        return b'\xff' + u.to_bytes(8, 'big')
    body = bytearray(u.to_bytes(size, 'big'))
    body[0] |= (0xff << (8 - extra)) & 0xff
    return bytes(body)


def uvint_read(mv, pos):
    first = mv[pos]
    if first < 0x80:
        return first, pos + 1
    extra = 0
    m = 0x80
    while extra < 8 and (first & m):
        extra += 1
        m >>= 1
    val = first & (0xff >> extra) if extra < 8 else 0
    if pos + 1 + extra > len(mv):
        raise SpecError("truncated vint")
    for i in range(extra):
        val = (val << 8) | mv[pos + 1 + i]
    return val, pos + 1 + extra


def vint_bytes(n):
    if n < -(1 << 63) or n >= (1 << 63):
        raise SpecError("vint out of int64 range")
    return uvint_bytes(zigzag(n))


# ---------------------------------------------------------------- type helpers
def strip(t):
    while t[0] in ('frozen', 'reversed'):
        t = t[1]
    return t


def fixed_len(t):
    """Length of the serialized value if Cassandra treats the type as fixed-length, else None.
    Raises Undefined for element types the reference refuses to classify."""
    t = strip(t)
    k = t[0]
    if k in FIXED_CERTAIN:
        return FIXED_CERTAIN[k]
    if k in FIXED_UNCERTAIN:
        raise Undefined("fixed-length classification of %s inside a vector" % k)
    if k == 'vector':
        inner = fixed_len(t[1])
        return None if inner is None else inner * t[2]
    return None


def contains_uncertain_vector(t):
    t = strip(t)
    k = t[0]
    if k == 'vector':
        if strip(t[1])[0] in FIXED_UNCERTAIN:
            return True
        return contains_uncertain_vector(t[1])
    if k in ('list', 'set'):
        return contains_uncertain_vector(t[1])
    if k == 'map':
        return contains_uncertain_vector(t[1]) or contains_uncertain_vector(t[2])
    if k == 'tuple':
        return any(contains_uncertain_vector(x) for x in t[1:])
    if k == 'udt':
        return any(contains_uncertain_vector(ft) for _, ft in t[3])
    return False


def cql_name(t):
    k = t[0]
    if k in SCALARS:
        return k
    if k in ('list', 'set'):
        return '%s<%s>' % (k, cql_name(t[1]))
    if k == 'map':
        return 'map<%s, %s>' % (cql_name(t[1]), cql_name(t[2]))
    if k == 'tuple':
        return 'tuple<%s>' % ', '.join(cql_name(x) for x in t[1:])
    if k == 'udt':
        return t[2]
    if k == 'vector':
        return 'vector<%s, %d>' % (cql_name(t[1]), t[2])
    if k == 'frozen':
        return 'frozen<%s>' % cql_name(t[1])
    if k == 'reversed':
        return cql_name(t[1])
    raise ValueError(t)


# ---------------------------------------------------------------- encode
def enc(t, v, pv=4):
    """Serialize canonical value ``v`` (not None) of type ``t`` for protocol version ``pv``."""
    if v is None:
        raise SpecError("null has no serialized form; the enclosing layer writes length -1")
    t = strip(t)
    k = t[0]
    if k in INT_RANGES:
        return _signed_to_bytes(v, INT_RANGES[k] // 8)
    if k == 'varint':
        if not isinstance(v, int) or isinstance(v, bool):
            raise SpecError("varint needs int")
        return varint_bytes(v)
    if k in ('text', 'varchar'):
        return v.encode('utf-8')
    if k == 'ascii':
        b = v.encode('ascii') if isinstance(v, str) else bytes(v)
        if any(c > 127 for c in b):
            raise SpecError("non-ascii")
        return b
    if k == 'blob':
        return bytes(v)
    if k == 'boolean':
        return b'\x01' if v else b'\x00'
    if k == 'float':
        return struct.pack('>f', v)
    if k == 'double':
        return struct.pack('>d', v)
    if k == 'decimal':
        if not v.is_finite():
            raise SpecError("non-finite decimal")
        sign, digits, exp = v.as_tuple()
        unscaled = int(''.join(map(str, digits))) if digits else 0
        if sign:
            unscaled = -unscaled
        return _signed_to_bytes(-exp, 4) + varint_bytes(unscaled)
    if k in ('uuid', 'timeuuid'):
        return v.bytes
    if k == 'inet':
        if len(v) not in (4, 16):
            raise SpecError("inet must be 4 or 16 bytes")
        return bytes(v)
    if k == 'timestamp':
        return _signed_to_bytes(v, 8)
    if k == 'date':
        if v < -(1 << 31) or v >= (1 << 31):
            raise SpecError("date out of range")
        return (v + (1 << 31)).to_bytes(4, 'big')
    if k == 'time':
        if v < 0 or v >= 86400 * 10 ** 9:
            raise SpecError("time out of range")
        return _signed_to_bytes(v, 8)
    if k == 'duration':
        m, d, n = v
        if not (-(1 << 31) <= m < (1 << 31)) or not (-(1 << 31) <= d < (1 << 31)) or not (-(1 << 63) <= n < (1 << 63)):
            raise SpecError("duration component out of range")
        if not ((m >= 0 and d >= 0 and n >= 0) or (m <= 0 and d <= 0 and n <= 0)):
            raise Undefined("mixed-sign duration")
        return vint_bytes(m) + vint_bytes(d) + vint_bytes(n)
    if k in ('list', 'set'):
        return _enc_coll(t[1], list(v), pv)
    if k == 'map':
        flat = []
        for kk, vv in v:
            flat.append((t[1], kk))
            flat.append((t[2], vv))
        return _enc_seq(flat, len(v), pv)
    if k == 'tuple':
        if len(v) > len(t) - 1:
            raise SpecError("too many tuple items")
        return b''.join(_enc_field(ft, fv) for ft, fv in zip(t[1:], v))
    if k == 'udt':
        fields = t[3]
        if len(v) > len(fields):
            raise SpecError("too many udt fields")
        vals = list(v) + [None] * (len(fields) - len(v))
        return b''.join(_enc_field(ft, fv) for (_, ft), fv in zip(fields, vals))
    if k == 'vector':
        et, n = t[1], t[2]
        if len(v) != n:
            raise SpecError("vector dimension mismatch")
        fl = fixed_len(et)
        out = bytearray()
        for e in v:
            if e is None:
                raise SpecError("null vector element")
            b = enc(et, e, max(pv, 3))
            if fl is None:
                out += uvint_bytes(len(b))
            elif len(b) != fl:
                raise SpecError("fixed-size element of wrong size")
            out += b
        return bytes(out)
    raise ValueError("unknown type %r" % (t,))


def _enc_field(ft, fv):
    if fv is None:
        return b'\xff\xff\xff\xff'
    b = enc(ft, fv, 4)
    return len(b).to_bytes(4, 'big') + b


def _enc_coll(et, items, pv):
    return _enc_seq([(et, e) for e in items], len(items), pv)


def _enc_seq(typed_items, count, pv):
    inner = max(pv, 3)
    out = bytearray()
    if pv >= 3:
        if count >= 1 << 31:
            raise SpecError("too many elements")
        out += count.to_bytes(4, 'big')
        for et, e in typed_items:
            if e is None:
                out += b'\xff\xff\xff\xff'
            else:
                b = enc(et, e, inner)
                out += len(b).to_bytes(4, 'big') + b
    else:
        if count > 0xffff:
            raise SpecError("more than 65535 elements in a v1/v2 collection")
        out += count.to_bytes(2, 'big')
        for et, e in typed_items:
            if e is None:
                raise SpecError("null element not representable before protocol v3")
            b = enc(et, e, inner)
            if len(b) > 0xffff:
                raise SpecError("element longer than 65535 bytes in a v1/v2 collection")
            out += len(b).to_bytes(2, 'big') + b
    return bytes(out)


# ---------------------------------------------------------------- decode
def dec(t, b, pv=4):
    """Deserialize bytes into the canonical value (strict: every byte must be consumed)."""
    if b is None:
        return None
    t = strip(t)
    k = t[0]
    mv = memoryview(bytes(b))
    n = len(mv)
    if k in INT_RANGES:
        if n != INT_RANGES[k] // 8:
            raise SpecError("bad length for %s" % k)
        return _bytes_to_signed(bytes(mv))
    if k == 'varint':
        if n == 0:
            raise SpecError("empty varint")
        return _bytes_to_signed(bytes(mv))
    if k in ('text', 'varchar'):
        return bytes(mv).decode('utf-8')
    if k == 'ascii':
        return bytes(mv).decode('ascii')
    if k == 'blob':
        return bytes(mv)
    if k == 'boolean':
        if n != 1:
            raise SpecError("bad boolean length")
        return mv[0] != 0
    if k == 'float':
        return struct.unpack('>f', mv)[0]
    if k == 'double':
        return struct.unpack('>d', mv)[0]
    if k == 'decimal':
        if n < 5:
            raise SpecError("short decimal")
        scale = _bytes_to_signed(bytes(mv[:4]))
        unscaled = _bytes_to_signed(bytes(mv[4:]))
        sign = 1 if unscaled < 0 else 0
        digits = tuple(int(c) for c in str(abs(unscaled)))
        return decimal.Decimal((sign, digits, -scale))
    if k in ('uuid', 'timeuuid'):
        if n != 16:
            raise SpecError("bad uuid length")
        return uuid.UUID(bytes=bytes(mv))
    if k == 'inet':
        if n not in (4, 16):
            raise SpecError("bad inet length")
        return bytes(mv)
    if k == 'timestamp':
        if n != 8:
            raise SpecError("bad timestamp length")
        return _bytes_to_signed(bytes(mv))
    if k == 'date':
        if n != 4:
            raise SpecError("bad date length")
        return int.from_bytes(mv, 'big') - (1 << 31)
    if k == 'time':
        if n != 8:
            raise SpecError("bad time length")
        return _bytes_to_signed(bytes(mv))
    if k == 'duration':
        p = 0
        out = []
        for _ in range(3):
            u, p = uvint_read(mv, p)
            out.append(unzigzag(u))
        if p != n:
            raise SpecError("trailing bytes in duration")
        # DurationSerializer.validate: "The duration months/days must be a 32 bits integer"
        if not (-(1 << 31) <= out[0] < (1 << 31)) or not (-(1 << 31) <= out[1] < (1 << 31)):
            raise SpecError("duration months/days beyond int32")
        return tuple(out)
    if k in ('list', 'set'):
        items, p = _dec_seq(mv, [t[1]], pv)
        if p != n:
            raise SpecError("trailing bytes in collection")
        return items
    if k == 'map':
        flat, p = _dec_seq(mv, [t[1], t[2]], pv)
        if p != n:
            raise SpecError("trailing bytes in map")
        return [(flat[i], flat[i + 1]) for i in range(0, len(flat), 2)]
    if k in ('tuple', 'udt'):
        ftypes = list(t[1:]) if k == 'tuple' else [ft for _, ft in t[3]]
        p = 0
        vals = []
        for ft in ftypes:
            if p == n:
                break  # fewer fields than declared: remaining are null
            ln = _bytes_to_signed(bytes(mv[p:p + 4]))
            p += 4
            if ln < 0:
                vals.append(None)
            else:
                if p + ln > n:
                    raise SpecError("truncated field")
                vals.append(dec(ft, mv[p:p + ln], 4))
                p += ln
        vals += [None] * (len(ftypes) - len(vals))
        return tuple(vals)
    if k == 'vector':
        et, cnt = t[1], t[2]
        fl = fixed_len(et)
        p = 0
        out = []
        for _ in range(cnt):
            if fl is None:
                ln, p = uvint_read(mv, p)
            else:
                ln = fl
            if p + ln > n:
                raise SpecError("truncated vector element")
            out.append(dec(et, mv[p:p + ln], max(pv, 3)))
            p += ln
        if p != n:
            raise SpecError("trailing bytes in vector")
        return out
    raise ValueError("unknown type %r" % (t,))


def _dec_seq(mv, etypes, pv):
    inner = max(pv, 3)
    w = 4 if pv >= 3 else 2
    n = len(mv)
    if n < w:
        raise SpecError("short collection")
    cnt = int.from_bytes(mv[:w], 'big')
    if w == 4 and cnt >= 1 << 31:
        raise SpecError("negative count")
    p = w
    out = []
    for i in range(cnt * len(etypes)):
        et = etypes[i % len(etypes)]
        if p + w > n:
            raise SpecError("truncated collection")
        ln = int.from_bytes(mv[p:p + w], 'big')
        p += w
        if w == 4 and ln >= 1 << 31:
            out.append(None)
            continue
        if p + ln > n:
            raise SpecError("truncated element")
        out.append(dec(et, mv[p:p + ln], inner))
        p += ln
    return out, p


# ---------------------------------------------------------------- hand-verified vectors
VECTORS = [
    (('varint',), 0, '00'), (('varint',), 1, '01'), (('varint',), 127, '7f'), (('varint',), 128, '0080'),
    (('varint',), 129, '0081'), (('varint',), -1, 'ff'), (('varint',), -128, '80'), (('varint',), -129, 'ff7f'),
    (('varint',), 255, '00ff'), (('varint',), 256, '0100'), (('varint',), -256, 'ff00'), (('varint',), -32768, '8000'),
    (('int',), -1, 'ffffffff'), (('int',), 2 ** 31 - 1, '7fffffff'), (('smallint',), -2, 'fffe'), (('tinyint',), -128, '80'),
    (('bigint',), 1, '0000000000000001'),
    (('boolean',), True, '01'), (('boolean',), False, '00'),
    (('date',), 0, '80000000'), (('date',), -1, '7fffffff'), (('date',), 1, '80000001'),
    (('time',), 1, '0000000000000001'),
    (('timestamp',), -1, 'ffffffffffffffff'),
    (('decimal',), decimal.Decimal('1.5'), '000000010f'), (('decimal',), decimal.Decimal('-1.28'), '0000000280'),
    (('decimal',), decimal.Decimal('1E+2'), 'fffffffe01'),
    (('duration',), (0, 0, 0), '000000'), (('duration',), (1, 2, 3), '020406'), (('duration',), (-1, -2, -3), '010305'),
    (('duration',), (0, 0, 64), '00008080'),
    (('list', ('int',)), [1, None], '00000002' '00000004' '00000001' 'ffffffff'),
    (('map', ('text',), ('int',)), [('a', 1)], '00000001' '00000001' '61' '00000004' '00000001'),
    (('tuple', ('int',), ('text',)), (1, None), '00000004' '00000001' 'ffffffff'),
    (('vector', ('int',), 2), [1, 2], '0000000100000002'),
    (('vector', ('text',), 2), ['a', 'bc'], '0161' '026263'),
]
UVINT_VECTORS = [(0, '00'), (1, '01'), (127, '7f'), (128, '8080'), (255, '80ff'), (16383, 'bfff'), (16384, 'c04000'),
                 (2 ** 21 - 1, 'dfffff'), (2 ** 21, 'e0200000'), (2 ** 56 - 1, 'feffffffffffffff'),
                 (2 ** 56, 'ff0100000000000000'), (2 ** 64 - 1, 'ffffffffffffffffff')]


def selfcheck():
    """Consistency of the trusted base; returns number of cases checked, raises AssertionError."""
    n = 0
    for t, v, hx in VECTORS:
        b = enc(t, v, 4)
        assert b.hex() == hx, (t, v, b.hex(), hx)
        back = dec(t, b, 4)
        if isinstance(v, decimal.Decimal):
            assert back.as_tuple() == v.as_tuple(), (t, v, back)
        else:
            assert back == v, (t, v, back)
        n += 1
    for u, hx in UVINT_VECTORS:
        assert uvint_bytes(u).hex() == hx, (u, uvint_bytes(u).hex(), hx)
        assert uvint_read(memoryview(bytes.fromhex(hx)), 0) == (u, len(hx) // 2)
        n += 1
    for x in (0, 1, -1, 63, -64, 64, -65, 2 ** 31 - 1, -2 ** 31, 2 ** 63 - 1, -2 ** 63):
        assert unzigzag(zigzag(x)) == x
        n += 1
    # months / days are int32 on the wire (vint-coded): 2**31 months has no encoding and its would-be bytes are rejected
    assert dec(('duration',), bytes.fromhex('f0ffffffff' '00' '00'), 4) == (-(1 << 31), 0, 0)
    for hx in ('f100000000' '00' '00', '00' 'f100000001' '00'):
        try:
            dec(('duration',), bytes.fromhex(hx), 4)
        except SpecError:
            n += 1
        else:
            raise AssertionError("reference decoder accepted duration months/days beyond int32: %s" % hx)
    return n
