"""Independent statement-level reader for the CQL data-manipulation statements (trusted base for C37, C35).

Built on the token scanner and literal-term reader of ``spec/cqllex.py``; never imports the driver.  It reads the
DML subset of Cassandra's grammar (Cql.g / Parser.g of Cassandra 3.x / 4.x):

    SELECT [DISTINCT] ( '*' | COUNT '(' ('*' | INT | names) ')' | name (',' name)* ) FROM table
           [WHERE relation (AND relation)*] [ORDER BY name [ASC|DESC] (',' ...)*] [LIMIT int|marker] [ALLOW FILTERING]
    INSERT INTO table '(' names ')' VALUES '(' values ')' [IF NOT EXISTS] [USING option (AND option)*]
    UPDATE table [USING option (AND option)*] SET assignment (',' assignment)* WHERE relation (AND relation)*
           [IF EXISTS | IF condition (AND condition)*]
    DELETE [selection (',' selection)*] FROM table [USING TIMESTAMP int|marker] WHERE relation (AND relation)*
           [IF EXISTS | IF condition (AND condition)*]
    BEGIN [UNLOGGED | COUNTER] BATCH [USING TIMESTAMP int|marker] ( (insert | update | delete) [';'] )* APPLY BATCH

    relation    := name op value | name IN value | name IN '(' [value (',' value)*] ')' | name CONTAINS [KEY] value
                 | name LIKE value | name IS NOT NULL | TOKEN '(' names ')' op value | name '[' value ']' op value
    op          := = | < | > | <= | >= | !=
    assignment  := name = value | name = name (+|-) value | name = value + name | name '[' value ']' = value
                 | name (+= | -=) value
    selection   := name | name '[' value ']'
    value       := a literal term of spec/cqllex.parse_term (constants, collections, bind markers incl. the python-format
                   placeholders %s and %(name)s) | function '(' [value (',' value)*] ')'
    option      := TTL int|marker | TIMESTAMP int|marker
    name        := bare word that Cassandra does not reserve (read case-insensitively) | "quoted name"

One optional ';' may end a statement.  Anything else raises ``StmtError`` (a ValueError) - the text is not a DML
statement Cassandra's parser would accept (or uses a construct outside this subset: tuple relations, casts, arithmetic on
values, JSON, PER PARTITION LIMIT, GROUP BY, user-type field updates).

API
---
``parse(src) -> Select | Insert | Update | Delete | Batch``       (objects with the attributes listed on each class)
``Func(name, args)``  function call at value position; ``Relation(lhs, op, rhs, key)``; ``Assignment(kind, column, value, key)``.
``markers(node) -> [Marker]`` every bind marker below a statement / value, in text order (``cqllex.Marker`` objects).
Values are ``cqllex.Term`` objects (``.kind``, ``.value``, ``.plain()``) or ``Func``.
"""
from spec import cqllex as L

__all__ = ["StmtError", "parse", "Select", "Insert", "Update", "Delete", "Batch", "Func", "Relation", "Assignment", "markers"]


class StmtError(ValueError):
    pass


class Func(object):
    __slots__ = ("name", "args")

    def __init__(self, name, args):
        self.name, self.args = name, args

    def __repr__(self):
        return "Func(%s, %r)" % (self.name, self.args)


class Relation(object):
    """lhs = ('col', name) | ('token', [names]) | ('elem', name, key value);  op in = < > <= >= != in contains 'contains key'
    like 'is not null';  rhs = value | list of values (IN with a parenthesised list) | None (IS NOT NULL)."""
    __slots__ = ("lhs", "op", "rhs")

    def __init__(self, lhs, op, rhs):
        self.lhs, self.op, self.rhs = lhs, op, rhs

    def __repr__(self):
        return "Relation(%r %s %r)" % (self.lhs, self.op, self.rhs)


class Assignment(object):
    """kind: 'set' (c = v) | 'add' (c = c + v) | 'sub' (c = c - v) | 'prepend' (c = v + c) | 'put' (c[key] = v)"""
    __slots__ = ("kind", "column", "value", "key")

    def __init__(self, kind, column, value, key=None):
        self.kind, self.column, self.value, self.key = kind, column, value, key

    def __repr__(self):
        return "Assignment(%s %s key=%r value=%r)" % (self.kind, self.column, self.key, self.value)


class Select(object):
    kind = "select"

    def __init__(self):
        self.table = None              # (keyspace or None, name)
        self.distinct = False
        self.selection = None          # '*' | ('count', '*' | [names] | int) | [names]
        self.where = []
        self.order_by = []             # [(name, 'asc' | 'desc')]
        self.limit = None              # value
        self.allow_filtering = False


class Insert(object):
    kind = "insert"

    def __init__(self):
        self.table = None
        self.columns = []
        self.values = []
        self.if_not_exists = False
        self.using = {}                # 'ttl' / 'timestamp' -> value


class Update(object):
    kind = "update"

    def __init__(self):
        self.table = None
        self.using = {}
        self.assignments = []
        self.where = []
        self.conditions = []
        self.if_exists = False


class Delete(object):
    kind = "delete"

    def __init__(self):
        self.table = None
        self.selections = []           # ('col', name) | ('elem', name, key value)
        self.using = {}
        self.where = []
        self.conditions = []
        self.if_exists = False


class Batch(object):
    kind = "batch"

    def __init__(self):
        self.type = "logged"           # logged | unlogged | counter
        self.using = {}
        self.statements = []


_OPS = ("=", "<", ">", "<=", ">=", "!=")
_TERM_WORDS = ("null", "nan", "infinity")


class _P(object):
    def __init__(self, src):
        try:
            self.toks = L.lex(src)
        except L.LexError as e:
            raise StmtError("does not lex: %s" % e)
        self.i = 0
        self.src = src

    # -- token helpers --------------------------------------------------------------------------------
    def peek(self, off=0):
        j = self.i + off
        return self.toks[j] if j < len(self.toks) else None

    def fail(self, what):
        t = self.peek()
        raise StmtError("%s, found %s" % (what, "end of input" if t is None else "%s %r (token %d)" % (t.kind, t.text, self.i)))

    def at_kw(self, *words):
        for off, w in enumerate(words):
            t = self.peek(off)
            if t is None or not t.is_kw(w):
                return False
        return True

    def take_kw(self, *words):
        if self.at_kw(*words):
            self.i += len(words)
            return True
        return False

    def need_kw(self, *words):
        if not self.take_kw(*words):
            self.fail("expected %s" % " ".join(w.upper() for w in words))

    def at_p(self, p):
        t = self.peek()
        return t is not None and t.is_punct(p)

    def take_p(self, p):
        if self.at_p(p):
            self.i += 1
            return True
        return False

    def need_p(self, p):
        if not self.take_p(p):
            self.fail("expected %r" % p)

    # -- names / values ----------------------------------------------------------------------------------
    def name(self, what="a name"):
        t = self.peek()
        if t is None:
            self.fail("expected %s" % what)
        if t.kind == "QIDENT":
            self.i += 1
            return t.value
        if t.kind == "IDENT":
            if L.is_reserved(t.value) is True:
                self.fail("expected %s (reserved word cannot be a bare name)" % what)
            self.i += 1
            return t.value
        self.fail("expected %s" % what)

    def table(self):
        a = self.name("a table name")
        if self.take_p("."):
            return (a, self.name("a table name"))
        return (None, a)

    def value(self):
        t = self.peek()
        if t is None:
            self.fail("expected a value")
        nxt = self.peek(1)
        if t.kind == "IDENT" and t.value not in _TERM_WORDS and nxt is not None and nxt.is_punct("("):
            fname = t.value
            self.i += 2
            args = []
            if not self.take_p(")"):
                while True:
                    args.append(self.value())
                    if self.take_p(","):
                        continue
                    self.need_p(")")
                    break
            return Func(fname, args)
        try:
            term, j = L.parse_term(self.toks, self.i)
        except L.ParseError as e:
            raise StmtError("expected a value at token %d: %s" % (self.i, e))
        self.i = j
        return term

    def int_or_marker(self, what):
        v = self.value()
        if isinstance(v, Func) or v.kind not in ("int", "marker"):
            raise StmtError("%s needs an integer or a bind marker" % what)
        return v

    # -- clauses -----------------------------------------------------------------------------------------
    def using(self, allowed):
        out = {}
        if not self.take_kw("using"):
            return out
        while True:
            if self.take_kw("ttl"):
                key = "ttl"
            elif self.take_kw("timestamp"):
                key = "timestamp"
            else:
                self.fail("expected TTL or TIMESTAMP")
            if key not in allowed:
                raise StmtError("USING %s is not allowed here" % key.upper())
            if key in out:
                raise StmtError("USING %s given twice" % key.upper())
            out[key] = self.int_or_marker("USING " + key.upper())
            if not self.take_kw("and"):
                return out

    def relation(self, in_condition=False):
        if self.at_kw("token") and self.peek(1) is not None and self.peek(1).is_punct("("):
            self.i += 2
            names = [self.name("a column name")]
            while self.take_p(","):
                names.append(self.name("a column name"))
            self.need_p(")")
            lhs = ("token", names)
            t = self.peek()
            if t is None or t.kind != "PUNCT" or t.value not in _OPS:
                self.fail("expected a comparison operator after token(...)")
            self.i += 1
            return Relation(lhs, t.value, self.value())
        col = self.name("a column name")
        lhs = ("col", col)
        if self.take_p("["):
            key = self.value()
            self.need_p("]")
            lhs = ("elem", col, key)
        t = self.peek()
        if t is None:
            self.fail("expected an operator")
        if t.kind == "PUNCT" and t.value in _OPS:
            self.i += 1
            return Relation(lhs, t.value, self.value())
        if t.is_kw("in"):
            self.i += 1
            if self.at_p("(") and self.peek(1) is not None and self.peek(1).is_punct(")"):
                self.i += 2
                return Relation(lhs, "in", [])
            v = self.value()
            if isinstance(v, Func):
                raise StmtError("IN needs a list of values or a bind marker")
            if v.kind == "tuple":
                return Relation(lhs, "in", list(v.value))
            if v.kind != "marker":
                raise StmtError("IN needs a parenthesised list of values or a bind marker, found a %s literal" % v.kind)
            return Relation(lhs, "in", v)
        if in_condition:
            self.fail("expected a comparison operator or IN in a condition")
        if t.is_kw("contains"):
            self.i += 1
            op = "contains key" if self.take_kw("key") else "contains"
            return Relation(lhs, op, self.value())
        if t.is_kw("like"):
            self.i += 1
            return Relation(lhs, "like", self.value())
        if t.is_kw("is"):
            self.i += 1
            self.need_kw("not")
            self.need_kw("null")
            return Relation(lhs, "is not null", None)
        self.fail("expected an operator after the column name")

    def where(self, required):
        if not self.take_kw("where"):
            if required:
                self.fail("expected WHERE")
            return []
        rels = [self.relation()]
        while self.take_kw("and"):
            rels.append(self.relation())
        return rels

    def conditions(self, stmt):
        """IF EXISTS | IF cond AND cond ...   (after WHERE of UPDATE / DELETE)"""
        if not self.take_kw("if"):
            return
        if self.take_kw("exists"):
            stmt.if_exists = True
            return
        stmt.conditions.append(self.relation(in_condition=True))
        while self.take_kw("and"):
            stmt.conditions.append(self.relation(in_condition=True))

    # -- statements --------------------------------------------------------------------------------------
    def select(self):
        s = Select()
        self.need_kw("select")
        # DISTINCT is not reserved, but the grammar reads it as the keyword here
        if self.at_kw("distinct") and not (self.peek(1) is not None and (self.peek(1).is_punct(",") or self.peek(1).is_kw("from"))):
            self.i += 1
            s.distinct = True
        if self.take_p("*"):
            s.selection = "*"
        elif self.at_kw("count") and self.peek(1) is not None and self.peek(1).is_punct("("):
            self.i += 2
            if self.take_p("*"):
                what = "*"
            elif self.peek() is not None and self.peek().kind == "INT":
                what = self.peek().value
                self.i += 1
            else:
                what = [self.name("a column name")]
                while self.take_p(","):
                    what.append(self.name("a column name"))
            self.need_p(")")
            s.selection = ("count", what)
        else:
            names = [self.name("a selected column")]
            while self.take_p(","):
                names.append(self.name("a selected column"))
            s.selection = names
        self.need_kw("from")
        s.table = self.table()
        s.where = self.where(False)
        if self.take_kw("order"):
            self.need_kw("by")
            while True:
                n = self.name("an ordering column")
                d = "asc"
                if self.take_kw("desc"):
                    d = "desc"
                else:
                    self.take_kw("asc")
                s.order_by.append((n, d))
                if not self.take_p(","):
                    break
        if self.take_kw("limit"):
            s.limit = self.int_or_marker("LIMIT")
        if self.take_kw("allow"):
            self.need_kw("filtering")
            s.allow_filtering = True
        return s

    def insert(self):
        s = Insert()
        self.need_kw("insert")
        self.need_kw("into")
        s.table = self.table()
        self.need_p("(")
        s.columns.append(self.name("a column name"))
        while self.take_p(","):
            s.columns.append(self.name("a column name"))
        self.need_p(")")
        self.need_kw("values")
        self.need_p("(")
        s.values.append(self.value())
        while self.take_p(","):
            s.values.append(self.value())
        self.need_p(")")
        if len(s.columns) != len(s.values):
            raise StmtError("INSERT names %d columns but gives %d values" % (len(s.columns), len(s.values)))
        if len(set(s.columns)) != len(s.columns):
            raise StmtError("INSERT names a column twice")
        if self.take_kw("if"):
            self.need_kw("not")
            self.need_kw("exists")
            s.if_not_exists = True
        s.using = self.using(("ttl", "timestamp"))
        return s

    def assignment(self):
        col = self.name("a column name")
        if self.take_p("["):
            key = self.value()
            self.need_p("]")
            self.need_p("=")
            return Assignment("put", col, self.value(), key)
        if self.take_p("+="):
            return Assignment("add", col, self.value())
        if self.take_p("-="):
            return Assignment("sub", col, self.value())
        self.need_p("=")
        # c = c + v | c = c - v | c = v + c | c = v
        t = self.peek()
        nxt = self.peek(1)
        is_name = t is not None and (t.kind == "QIDENT" or (t.kind == "IDENT" and t.value not in _TERM_WORDS and not (nxt is not None and nxt.is_punct("("))))
        if is_name:
            other = self.name("a column name")
            if other != col:
                raise StmtError("only 'c = c + value' style updates are supported: %r = %r ..." % (col, other))
            if self.take_p("+"):
                return Assignment("add", col, self.value())
            if self.take_p("-"):
                return Assignment("sub", col, self.value())
            # INT tokens swallow the sign: "c" -1  never comes from a generator, refuse
            self.fail("expected '+' or '-' after the column name")
        v = self.value()
        if self.take_p("+"):
            other = self.name("a column name")
            if other != col:
                raise StmtError("only 'c = value + c' style updates are supported: %r = ... + %r" % (col, other))
            return Assignment("prepend", col, v)
        return Assignment("set", col, v)

    def update(self):
        s = Update()
        self.need_kw("update")
        s.table = self.table()
        s.using = self.using(("ttl", "timestamp"))
        self.need_kw("set")
        s.assignments.append(self.assignment())
        while self.take_p(","):
            s.assignments.append(self.assignment())
        s.where = self.where(True)
        self.conditions(s)
        return s

    def delete(self):
        s = Delete()
        self.need_kw("delete")
        if not self.at_kw("from"):
            while True:
                col = self.name("a column name")
                if self.take_p("["):
                    key = self.value()
                    self.need_p("]")
                    s.selections.append(("elem", col, key))
                else:
                    s.selections.append(("col", col))
                if not self.take_p(","):
                    break
        self.need_kw("from")
        s.table = self.table()
        s.using = self.using(("timestamp",))
        s.where = self.where(True)
        self.conditions(s)
        return s

    def batch(self):
        b = Batch()
        self.need_kw("begin")
        if self.take_kw("unlogged"):
            b.type = "unlogged"
        elif self.take_kw("counter"):
            b.type = "counter"
        self.need_kw("batch")
        b.using = self.using(("timestamp",))
        while not self.at_kw("apply"):
            if self.at_kw("insert"):
                b.statements.append(self.insert())
            elif self.at_kw("update"):
                b.statements.append(self.update())
            elif self.at_kw("delete"):
                b.statements.append(self.delete())
            else:
                self.fail("expected INSERT, UPDATE, DELETE or APPLY BATCH inside a batch")
            self.take_p(";")
        self.need_kw("apply")
        self.need_kw("batch")
        return b

    def statement(self):
        if self.at_kw("select"):
            s = self.select()
        elif self.at_kw("insert"):
            s = self.insert()
        elif self.at_kw("update"):
            s = self.update()
        elif self.at_kw("delete"):
            s = self.delete()
        elif self.at_kw("begin"):
            s = self.batch()
        else:
            self.fail("expected SELECT, INSERT, UPDATE, DELETE or BEGIN")
        self.take_p(";")
        if self.peek() is not None:
            self.fail("unexpected input after the statement")
        return s


def parse(src):
    return _P(src).statement()


def _value_markers(v, out):
    if v is None:
        return
    if isinstance(v, Func):
        for a in v.args:
            _value_markers(a, out)
        return
    if isinstance(v, list):
        for x in v:
            _value_markers(x, out)
        return
    k = v.kind
    if k == "marker":
        out.append(L.Marker(*v.value))
    elif k in ("list", "set", "tuple"):
        for x in v.value:
            _value_markers(x, out)
    elif k == "map":
        for a, b in v.value:
            _value_markers(a, out)
            _value_markers(b, out)
    elif k == "udt":
        for _, x in v.value:
            _value_markers(x, out)


def _rel_markers(r, out):
    if r.lhs[0] == "elem":
        _value_markers(r.lhs[2], out)
    _value_markers(r.rhs, out)


def markers(node):
    """All bind markers under a statement (text order) or a value."""
    out = []
    if isinstance(node, Batch):
        for k in ("timestamp",):
            _value_markers(node.using.get(k), out)
        for s in node.statements:
            out.extend(markers(s))
        return out
    if isinstance(node, Select):
        for r in node.where:
            _rel_markers(r, out)
        _value_markers(node.limit, out)
        return out
    if isinstance(node, Insert):
        for v in node.values:
            _value_markers(v, out)
        for k in ("ttl", "timestamp"):
            _value_markers(node.using.get(k), out)
        return out
    if isinstance(node, Update):
        for k in ("ttl", "timestamp"):
            _value_markers(node.using.get(k), out)
        for a in node.assignments:
            _value_markers(a.key, out)
            _value_markers(a.value, out)
        for r in node.where:
            _rel_markers(r, out)
        for r in node.conditions:
            _rel_markers(r, out)
        return out
    if isinstance(node, Delete):
        for sel in node.selections:
            if sel[0] == "elem":
                _value_markers(sel[2], out)
        _value_markers(node.using.get("timestamp"), out)
        for r in node.where:
            _rel_markers(r, out)
        for r in node.conditions:
            _rel_markers(r, out)
        return out
    _value_markers(node, out)
    return out


def _selftest():
    s = parse('SELECT "a", b FROM ks."T" WHERE "p" = %(0)s AND token("p", q) > token(%(1)s, %(2)s) AND c IN %(3)s AND s CONTAINS 3 '
              'AND t LIKE \'x%\' AND u IS NOT NULL ORDER BY "c" DESC, d LIMIT 10 ALLOW FILTERING')
    assert s.selection == ["a", "b"] and s.table == ("ks", "T") and len(s.where) == 6 and s.order_by == [("c", "desc"), ("d", "asc")]
    assert s.where[1].lhs == ("token", ["p", "q"]) and isinstance(s.where[1].rhs, Func) and s.where[1].rhs.name == "token"
    assert s.where[2].op == "in" and s.where[2].rhs.kind == "marker" and s.where[5].op == "is not null" and s.allow_filtering
    assert [m.name for m in markers(s)] == ["0", "1", "2", "3"]
    assert parse("SELECT COUNT(*) FROM t").selection == ("count", "*") and parse("SELECT DISTINCT a FROM t;").distinct
    i = parse('INSERT INTO ks.t ("a", "b") VALUES (%(0)s, {1: \'x\'}) IF NOT EXISTS USING TTL 5 AND TIMESTAMP 7')
    assert i.columns == ["a", "b"] and i.if_not_exists and i.using["ttl"].value == 5 and i.using["timestamp"].value == 7
    u = parse('UPDATE ks.t USING TTL 3 SET "a" = %(1)s, "s" = "s" + %(2)s, "s" = "s" - {1}, "l" = [1] + "l", "m"[%(3)s] = %(4)s, c = c - 2 '
              'WHERE "p" = 1 AND c IN (1, 2) IF "a" = 5 AND "b" != 6')
    assert [a.kind for a in u.assignments] == ["set", "add", "sub", "prepend", "put", "sub"] and len(u.conditions) == 2
    assert u.where[1].op == "in" and [t.value for t in u.where[1].rhs] == [1, 2]
    d = parse('DELETE "a", "m"[%(0)s] FROM ks.t  USING TIMESTAMP 12  WHERE "p" = %(1)s IF EXISTS')
    assert d.selections[0] == ("col", "a") and d.selections[1][:2] == ("elem", "m") and d.if_exists and d.using["timestamp"].value == 12
    b = parse('BEGIN UNLOGGED BATCH USING TIMESTAMP 5\n  INSERT INTO t (a) VALUES (1)\n  UPDATE t SET b = 2 WHERE a = 1;\n  DELETE FROM t WHERE a = 2\nAPPLY BATCH;')
    assert b.type == "unlogged" and [x.kind for x in b.statements] == ["insert", "update", "delete"]
    assert parse("BEGIN  BATCH APPLY BATCH;").statements == []
    for bad in ("SELECT FROM t", "SELECT * FROM t WHERE", "SELECT * FROM select", "INSERT INTO t (a, b) VALUES (1)", "UPDATE t SET a = b + 1 WHERE k = 1",
                "UPDATE t SET a = 1", "DELETE FROM t", "DELETE a FROM t USING TTL 3 WHERE k = 1", "SELECT * FROM t WHERE a = 1 OR b = 2",
                "SELECT * FROM t; SELECT * FROM t", "BEGIN BATCH SELECT * FROM t APPLY BATCH", "UPDATE t SET a = 1 WHERE k = 1 IF", "SELECT * FROM t LIMIT 'x'",
                "INSERT INTO t (a) VALUES (x' OR 1=1)", "UPDATE t SET a = 1 WHERE k = 1 IF EXISTS AND a = 1", "SELECT * FROM t WHERE a = 1 AND"):
        try:
            parse(bad)
        except StmtError:
            pass
        else:
            raise AssertionError("parse accepted %r" % bad)
    return True


if __name__ == "__main__":
    L._selftest()
    _selftest()
    print("spec.cqlstmt self-test ok")
