"""Independent replica placement following Cassandra's algorithms.

* ``SimpleStrategy.calculateNaturalReplicas``: start at the first ring token >= the key's token
  (wrapping to the first token of the ring), walk the ring clockwise once and collect distinct
  endpoints until the replication factor is reached.
* ``NetworkTopologyStrategy.calculateNaturalReplicas`` (Cassandra 3.x / 4.x, with its
  ``DatacenterEndpoints`` helper): one clockwise walk from the same start; per datacenter with
  rf > 0 and at least one node
      rfLeft                = min(rf, nodes in the datacenter)
      acceptableRackRepeats = rf - racks in the datacenter          (rf NOT capped here)
  an endpoint is accepted iff its datacenter still needs replicas, it is not a replica already,
  and either its (datacenter, rack) has not been seen yet, or acceptableRackRepeats > 0 (which
  is then decremented).  The walk stops when every datacenter is done or the ring is exhausted.

The model is deliberately plain: a ring is a list of ``(token, endpoint)`` pairs with pairwise
distinct, mutually comparable tokens; endpoints are any hashable values; ``locations`` maps an
endpoint to ``(datacenter, rack)``.  Nothing here imports ``cassandra``.

Not defined here (callers must not generate it): equal tokens owned by different endpoints,
endpoints without datacenter or rack under NetworkTopologyStrategy, transient replication.
"""


def _sorted_ring(ring):
    pairs = sorted(ring, key=lambda p: p[0])
    for i in range(1, len(pairs)):
        if not (pairs[i - 1][0] < pairs[i][0]):
            raise ValueError("ring tokens must be pairwise distinct")
    return pairs


def first_token_index(pairs, key_token):
    """Index of the first ring entry whose token is >= key_token; 0 when there is none (wrap)."""
    lo, hi = 0, len(pairs)
    while lo < hi:
        mid = (lo + hi) // 2
        if pairs[mid][0] < key_token:
            lo = mid + 1
        else:
            hi = mid
    return 0 if lo == len(pairs) else lo


def walk(pairs, start):
    n = len(pairs)
    for step in range(n):
        yield pairs[(start + step) % n]


def simple_strategy(ring, rf, key_token):
    """Ordered list of replicas (primary first) for SimpleStrategy."""
    pairs = _sorted_ring(ring)
    if not pairs:
        return []
    out = []
    for _tok, ep in walk(pairs, first_token_index(pairs, key_token)):
        if len(out) >= rf:
            break
        if ep not in out:
            out.append(ep)
    return out


class _DatacenterEndpoints(object):
    def __init__(self, rf, rack_count, node_count):
        self.rf_left = min(rf, node_count)
        self.acceptable_rack_repeats = rf - rack_count

    def done(self):
        return self.rf_left == 0


def network_topology(ring, locations, dc_rf, key_token):
    """Returns (ordered replica list, {datacenter: set(replicas)}) for NetworkTopologyStrategy.

    ``dc_rf`` maps datacenter name -> replication factor (int).
    """
    pairs = _sorted_ring(ring)
    per_dc = {}
    if not pairs:
        return [], per_dc
    members = {}
    racks = {}
    for _tok, ep in pairs:
        dc, rack = locations[ep]
        if dc is None or rack is None:
            raise ValueError("endpoint without datacenter/rack is outside this model")
        members.setdefault(dc, set()).add(ep)
        racks.setdefault(dc, set()).add(rack)
    state = {}
    to_fill = 0
    for dc, rf in dc_rf.items():
        nodes = len(members.get(dc, ()))
        if rf <= 0 or nodes <= 0:
            continue
        state[dc] = _DatacenterEndpoints(rf, len(racks[dc]), nodes)
        per_dc[dc] = set()
        to_fill += 1
    replicas = []
    seen_racks = set()
    for _tok, ep in walk(pairs, first_token_index(pairs, key_token)):
        if to_fill <= 0:
            break
        dc, rack = locations[ep]
        st = state.get(dc)
        if st is None or st.done():
            continue
        if ep in replicas:
            continue
        if (dc, rack) not in seen_racks:
            seen_racks.add((dc, rack))
            st.rf_left -= 1
        elif st.acceptable_rack_repeats > 0:
            st.acceptable_rack_repeats -= 1
            st.rf_left -= 1
        else:
            continue
        replicas.append(ep)
        per_dc[dc].add(ep)
        if st.done():
            to_fill -= 1
    return replicas, per_dc


def network_topology_legacy(ring, locations, dc_rf, key_token):
    """Cassandra 2.x / 3.0 formulation of the same placement (skipped endpoints kept in an ordered
    SET and replayed once every rack of the datacenter has been seen).  Kept as a second,
    structurally different derivation: both formulations must produce the same per-DC sets, which
    ``self_check`` verifies on enumerated rings.  Returns {datacenter: set(replicas)}.
    """
    pairs = _sorted_ring(ring)
    if not pairs:
        return {}
    members, racks = {}, {}
    for _tok, ep in pairs:
        dc, rack = locations[ep]
        members.setdefault(dc, set()).add(ep)
        racks.setdefault(dc, set()).add(rack)
    want = dict((dc, rf) for dc, rf in dc_rf.items() if rf > 0 and members.get(dc))
    dc_replicas = dict((dc, []) for dc in want)      # insertion ordered, used as ordered set
    seen_racks = dict((dc, set()) for dc in want)
    skipped = dict((dc, []) for dc in want)

    def sufficient(dc):
        return len(dc_replicas[dc]) >= min(len(members[dc]), want[dc])

    def add(dc, ep):
        if ep not in dc_replicas[dc]:
            dc_replicas[dc].append(ep)

    for _tok, ep in walk(pairs, first_token_index(pairs, key_token)):
        if all(sufficient(dc) for dc in want):
            break
        dc, rack = locations[ep]
        if dc not in want or sufficient(dc):
            continue
        if len(seen_racks[dc]) == len(racks[dc]):
            add(dc, ep)
        elif rack in seen_racks[dc]:
            if ep not in skipped[dc]:
                skipped[dc].append(ep)
        else:
            add(dc, ep)
            seen_racks[dc].add(rack)
            if len(seen_racks[dc]) == len(racks[dc]):
                for sk in skipped[dc]:
                    if sufficient(dc):
                        break
                    add(dc, sk)
    return dict((dc, set(v)) for dc, v in dc_replicas.items())


# --- hand-verified placements ------------------------------------------------------------
def _vectors():
    L = {"A": ("dc1", "r1"), "B": ("dc1", "r1"), "C": ("dc1", "r2"), "D": ("dc1", "r1"),
         "X": ("dc2", "r1"), "Y": ("dc2", "r1")}
    out = []
    # one DC, racks r1={A,B,D}, r2={C}; ring A(10) B(20) D(30) C(40)
    ring = [(10, "A"), (20, "B"), (30, "D"), (40, "C")]
    # rf 2 = number of racks: one node per rack, first of each: A then C
    out.append((ring, L, {"dc1": 2}, 5, {"dc1": {"A", "C"}}))
    # rf 3: one repeat allowed, taken by the first repeat met (B); D refused; C new rack
    out.append((ring, L, {"dc1": 3}, 5, {"dc1": {"A", "B", "C"}}))
    # rf 3 from B's token: B new rack, D repeat, C new rack
    out.append((ring, L, {"dc1": 3}, 20, {"dc1": {"B", "D", "C"}}))
    # rf 4 = all nodes; rf 9 > nodes: everything
    out.append((ring, L, {"dc1": 4}, 5, {"dc1": {"A", "B", "C", "D"}}))
    out.append((ring, L, {"dc1": 9}, 41, {"dc1": {"A", "B", "C", "D"}}))
    # rf 1: the owner of the first token >= key, wrapping
    out.append((ring, L, {"dc1": 1}, 41, {"dc1": {"A"}}))
    out.append((ring, L, {"dc1": 1}, 40, {"dc1": {"C"}}))
    # the multi-token ring of DESIGN item 19: A,B,B,D in r1 and C in r2, rf 4 -> all four nodes
    ring19 = [(10, "A"), (20, "B"), (30, "B"), (40, "D"), (50, "C")]
    out.append((ring19, L, {"dc1": 4}, 5, {"dc1": {"A", "B", "C", "D"}}))
    # rf 3 on that ring: A (new rack), B (the one repeat), C
    out.append((ring19, L, {"dc1": 3}, 5, {"dc1": {"A", "B", "C"}}))
    # two DCs interleaved; dc with rf 0 and an unknown dc contribute nothing
    ring2 = [(10, "A"), (15, "X"), (20, "B"), (25, "Y"), (40, "C")]
    out.append((ring2, L, {"dc1": 2, "dc2": 1, "dc9": 3}, 12, {"dc1": {"B", "C"}, "dc2": {"X"}}))
    out.append((ring2, L, {"dc1": 0, "dc2": 2}, 26, {"dc2": {"X", "Y"}}))
    return out


def self_check():
    """Disagreements inside the trusted base (empty list = fine)."""
    import itertools
    bad = []
    for ring, loc, rf, key, want in _vectors():
        got = network_topology(ring, loc, rf, key)[1]
        if got != want:
            bad.append(("nts-vector", ring, rf, key, got))
        if network_topology_legacy(ring, loc, rf, key) != want:
            bad.append(("nts-legacy-vector", ring, rf, key))
    if simple_strategy([(10, "A"), (20, "B"), (30, "A"), (40, "C")], 2, 25) != ["A", "C"]:
        bad.append(("simple-vector-1",))
    if simple_strategy([(10, "A"), (20, "B"), (30, "A"), (40, "C")], 3, 41) != ["A", "B", "C"]:
        bad.append(("simple-vector-wrap",))
    if simple_strategy([(10, "A"), (20, "B")], 5, 10) != ["A", "B"] or simple_strategy([], 3, 1) != []:
        bad.append(("simple-vector-rf-gt-nodes",))
    # both NTS formulations agree on every small ring (<= 3 nodes, <= 4 tokens, 2 racks, 2 DCs)
    locs = [("dc1", "r1"), ("dc1", "r2"), ("dc2", "r1"), ("dc2", "r2")]
    n_checked = 0
    for n_tok in range(1, 5):
        for owners in itertools.product(range(3), repeat=n_tok):
            used = sorted(set(owners))
            if used != list(range(len(used))):
                continue
            ring = [(10 * (i + 1), o) for i, o in enumerate(owners)]
            for loc_choice in itertools.product(range(4), repeat=len(used)):
                loc = dict((o, locs[loc_choice[o]]) for o in used)
                for rf1 in range(0, 5):
                    for rf2 in (0, 2):
                        rf = {"dc1": rf1, "dc2": rf2}
                        for key in (5, 10 * n_tok + 1):
                            a = network_topology(ring, loc, rf, key)[1]
                            b = network_topology_legacy(ring, loc, rf, key)
                            n_checked += 1
                            if a != b:
                                bad.append(("nts-formulations-differ", ring, loc, rf, key, a, b))
                                if len(bad) > 5:
                                    return bad
    if n_checked < 1000:
        bad.append(("self-check-too-small", n_checked))
    return bad
