"""Independent implementation of the token Cassandra's RandomPartitioner assigns.

``RandomPartitioner.getToken`` = ``FBUtilities.hashToBigInteger(key)`` =
``new BigInteger(MD5(key)).abs()``: the 16 digest bytes read as a SIGNED big-endian
two's-complement integer, then its absolute value (so 0 <= token <= 2**127).

Never imports ``cassandra``; MD5 itself comes from ``hashlib`` (trusted).
"""
import hashlib


def digest_as_java_biginteger(digest):
    """``new BigInteger(byte[])``: signed, big-endian two's complement, spelled out with masks."""
    u = int.from_bytes(digest, "big")
    bits = 8 * len(digest)
    if bits and (u >> (bits - 1)) & 1:
        return u - (1 << bits)
    return u


def token(data):
    v = digest_as_java_biginteger(hashlib.md5(bytes(data)).digest())
    return -v if v < 0 else v


# hand-verified: RFC 1321 appendix A.5 digests, absolute value worked out by hand
#   MD5("")    = d41d8cd98f00b204e9800998ecf8427e  (sign bit set  -> 2**128 - x)
#   MD5("a")   = 0cc175b9c0f1b6a831c399e269772661  (sign bit clear -> x)
#   MD5("abc") = 900150983cd24fb0d6963f7d28e17f72  (sign bit set  -> 2**128 - x)
VECTORS = [
    (b"", (1 << 128) - 0xD41D8CD98F00B204E9800998ECF8427E),
    (b"a", 0x0CC175B9C0F1B6A831C399E269772661),
    (b"abc", (1 << 128) - 0x900150983CD24FB0D6963F7D28E17F72),
]


def self_check():
    bad = []
    for data, want in VECTORS:
        if token(data) != want:
            bad.append((data, token(data)))
    if digest_as_java_biginteger(b"\x80" + b"\x00" * 15) != -(1 << 127):
        bad.append(("min", None))
    if digest_as_java_biginteger(b"\xff" * 16) != -1:
        bad.append(("minus-one", None))
    if digest_as_java_biginteger(b"\x7f" + b"\xff" * 15) != (1 << 127) - 1:
        bad.append(("max", None))
    return bad
