"""Type trees, descriptor printers and a CQL type-string reader (trusted base for C28).  Never imports the driver.

A type tree is a tuple:

    ('leaf', marshal_class, cql_name)            e.g. ('leaf', 'Int32Type', 'int')
    ('list', t)  ('set', t)  ('map', k, v)
    ('tuple', [t, ...])
    ('udt', keyspace, name, [(field_name, t), ...])
    ('frozen', t)      ('reversed', t)
    ('vector', t, dimension)
    ('composite', [t, ...])     ('dyncomposite', [(alias, t), ...])

Printers
--------
``marshal(tree, full=True, sep=',', vsep=' , ')``   Cassandra marshal-class notation as ``AbstractType.toString()`` prints it:
    ``org.apache.cassandra.db.marshal.MapType(org...UTF8Type,org...Int32Type)``,
    ``UserType(<keyspace>,<hex(utf8 name)>,<hex(utf8 field)>:<type>,...)``, ``VectorType(<elem> , <dim>)``,
    ``DynamicCompositeType(a=>type,...)``.
``cql_names(tree)``   the set of acceptable CQL spellings, white space removed, following the conventions of the Cassandra
    releases that send marshal descriptors (2.x schema tables): tuples and user types are always ``frozen<...>``;
    a composite has no CQL notation and is spelled as the quoted marshal descriptor; a vector is ``vector<elem, dim>`` in CQL and
    the driver deliberately prints the marshal class name with ``<>`` (pinned by its own unit test) - both are accepted.
``cql_string(tree, sp=' ')``  a CQL type string in the notation of system_schema (3.0+): ``frozen`` only where the tree has a
    'frozen' node, quoted user-type names when they are not lower-case bare words.

CQL type strings
----------------
``parse_cql(s)`` -> nested ``(name, [args])`` with names as written (quoted names keep their quotes); ``print_cql(node, sp)``;
``strip_frozen(s)`` reference frozen-stripper: removes every ``frozen<...>`` wrapper at every depth, nothing else;
``squash(s)`` removes white space outside double-quoted names.
"""

PREFIX = "org.apache.cassandra.db.marshal."

LEAVES = [
    ("AsciiType", "ascii"), ("LongType", "bigint"), ("BytesType", "blob"), ("BooleanType", "boolean"),
    ("CounterColumnType", "counter"), ("SimpleDateType", "date"), ("DecimalType", "decimal"), ("DoubleType", "double"),
    ("DurationType", "duration"), ("FloatType", "float"), ("InetAddressType", "inet"), ("Int32Type", "int"),
    ("ShortType", "smallint"), ("UTF8Type", "text"), ("TimeType", "time"), ("TimestampType", "timestamp"),
    ("DateType", "timestamp"), ("TimeUUIDType", "timeuuid"), ("ByteType", "tinyint"), ("UUIDType", "uuid"),
    ("IntegerType", "varint"),
]

_CLASS = {"list": "ListType", "set": "SetType", "map": "MapType", "tuple": "TupleType", "udt": "UserType", "frozen": "FrozenType",
          "reversed": "ReversedType", "vector": "VectorType", "composite": "CompositeType", "dyncomposite": "DynamicCompositeType"}


def hexname(s):
    return "".join("%02x" % b for b in s.encode("utf-8"))


def marshal(tree, full=True, sep=",", vsep=" , "):
    pre = PREFIX if full else ""
    k = tree[0]
    if k == "leaf":
        return pre + tree[1]
    rec = lambda t: marshal(t, full, sep, vsep)
    if k in ("list", "set", "frozen", "reversed"):
        return "%s%s(%s)" % (pre, _CLASS[k], rec(tree[1]))
    if k == "map":
        return "%s%s(%s%s%s)" % (pre, _CLASS[k], rec(tree[1]), sep, rec(tree[2]))
    if k in ("tuple", "composite"):
        return "%s%s(%s)" % (pre, _CLASS[k], sep.join(rec(t) for t in tree[1]))
    if k == "udt":
        parts = [tree[1], hexname(tree[2])] + ["%s:%s" % (hexname(fn), rec(ft)) for fn, ft in tree[3]]
        return "%s%s(%s)" % (pre, _CLASS[k], sep.join(parts))
    if k == "vector":
        return "%s%s(%s%s%d)" % (pre, _CLASS[k], rec(tree[1]), vsep, tree[2])
    if k == "dyncomposite":
        return "%s%s(%s)" % (pre, _CLASS[k], sep.join("%s=>%s" % (a, rec(t)) for a, t in tree[1]))
    raise ValueError(k)


def is_bare_lower(name):
    if not name or not ("a" <= name[0] <= "z"):
        return False
    return all(("a" <= c <= "z") or ("0" <= c <= "9") or c == "_" for c in name)


def _product(lists):
    out = [""]
    for alts in lists:
        out = [a + b for a in out for b in alts]
    return out


def cql_names(tree):
    """Set of accepted spellings (no white space).  Only vectors have more than one."""
    k = tree[0]
    if k == "leaf":
        return {tree[2]}
    if k in ("list", "set"):
        return {"%s<%s>" % (k, s) for s in cql_names(tree[1])}
    if k == "frozen":
        return {"frozen<%s>" % s for s in cql_names(tree[1])}
    if k == "map":
        return {"map<%s,%s>" % (a, b) for a in cql_names(tree[1]) for b in cql_names(tree[2])}
    if k == "tuple":
        inner = [""]
        for i, t in enumerate(tree[1]):
            inner = [x + ("," if i else "") + s for x in inner for s in cql_names(t)]
        return {"frozen<tuple<%s>>" % x for x in inner}
    if k == "udt":
        return {"frozen<%s>" % tree[2]}
    if k == "vector":
        out = set()
        for s in cql_names(tree[1]):
            out.add("vector<%s,%d>" % (s, tree[2]))
            out.add("%sVectorType<%s,%d>" % (PREFIX, s, tree[2]))
        return out
    if k in ("composite", "dyncomposite"):
        return {"'" + marshal(tree, full=True, sep=",") + "'"}
    if k == "reversed":
        raise ValueError("a reversed type has no CQL spelling of its own (clustering order)")
    raise ValueError(k)


def quote_type_name(name):
    if is_bare_lower(name):
        return name
    return '"' + name.replace('"', '""') + '"'


def cql_string(tree, sp=" "):
    k = tree[0]
    rec = lambda t: cql_string(t, sp)
    if k == "leaf":
        return tree[2]
    if k in ("list", "set", "frozen"):
        return "%s<%s>" % (k, rec(tree[1]))
    if k == "map":
        return "map<%s,%s%s>" % (rec(tree[1]), sp, rec(tree[2]))
    if k == "tuple":
        return "tuple<%s>" % ("," + sp).join(rec(t) for t in tree[1])
    if k == "udt":
        return quote_type_name(tree[2])
    if k == "vector":
        return "vector<%s,%s%d>" % (rec(tree[1]), sp, tree[2])
    raise ValueError("no CQL type string for %s" % k)


# ------------------------------------------------------------------------------------------------
def _tokens(s):
    i, n = 0, len(s)
    out = []
    while i < n:
        c = s[i]
        if c in " \t\r\n":
            i += 1
        elif c in "<>,":
            out.append(c)
            i += 1
        elif c == '"':
            j = i + 1
            while True:
                if j >= n:
                    raise ValueError("unterminated quoted name in type string")
                if s[j] == '"':
                    if j + 1 < n and s[j + 1] == '"':
                        j += 2
                        continue
                    break
                j += 1
            out.append(s[i:j + 1])
            i = j + 1
        else:
            j = i
            while j < n and s[j] not in ' \t\r\n<>,"':
                j += 1
            out.append(s[i:j])
            i = j
    return out


def parse_cql(s):
    toks = _tokens(s)

    def one(i):
        if i >= len(toks) or toks[i] in "<>,":
            raise ValueError("type name expected")
        name = toks[i]
        i += 1
        args = []
        if i < len(toks) and toks[i] == "<":
            i += 1
            while True:
                a, i = one(i)
                args.append(a)
                if i >= len(toks):
                    raise ValueError("'>' expected")
                if toks[i] == ",":
                    i += 1
                    continue
                if toks[i] == ">":
                    i += 1
                    break
                raise ValueError("',' or '>' expected")
        return (name, args), i

    node, i = one(0)
    if i != len(toks):
        raise ValueError("trailing text in type string")
    return node


def print_cql(node, sp=" "):
    name, args = node
    if not args:
        return name
    return "%s<%s>" % (name, ("," + sp).join(print_cql(a, sp) for a in args))


def _strip(node):
    name, args = node
    if name == "frozen" and len(args) == 1:
        return _strip(args[0])
    return (name, [_strip(a) for a in args])


def strip_frozen(s, sp=" "):
    return print_cql(_strip(parse_cql(s)), sp)


def squash(s):
    out = []
    inq = False
    for c in s:
        if c == '"':
            inq = not inq      # a doubled quote toggles twice
            out.append(c)
        elif c in " \t\r\n" and not inq:
            continue
        else:
            out.append(c)
    return "".join(out)


def _selftest():
    t = ("map", ("leaf", "UTF8Type", "text"), ("frozen", ("list", ("leaf", "Int32Type", "int"))))
    assert marshal(t) == (PREFIX + "MapType(" + PREFIX + "UTF8Type," + PREFIX + "FrozenType(" + PREFIX + "ListType(" + PREFIX + "Int32Type)))")
    assert cql_names(t) == {"map<text,frozen<list<int>>>"}
    u = ("udt", "ks", "mytype", [("a", ("leaf", "Int32Type", "int")), ("b", ("leaf", "UTF8Type", "text"))])
    assert marshal(u, full=False) == "UserType(ks,6d7974797065,61:Int32Type,62:UTF8Type)"
    assert cql_names(("list", u)) == {"list<frozen<mytype>>"}
    assert marshal(("vector", ("leaf", "FloatType", "float"), 3), full=False) == "VectorType(FloatType , 3)"
    assert "vector<float,3>" in cql_names(("vector", ("leaf", "FloatType", "float"), 3))
    assert cql_names(("tuple", [("leaf", "Int32Type", "int"), ("leaf", "UTF8Type", "text")])) == {"frozen<tuple<int,text>>"}
    assert strip_frozen("frozen<tuple<int>>") == "tuple<int>"
    assert strip_frozen('map<text, frozen<list<frozen<"frozen">>>>') == 'map<text, list<"frozen">>'
    assert strip_frozen('frozen<"a <b>, c">') == '"a <b>, c"'
    assert squash('map< text , "a  b" >') == 'map<text,"a  b">'
    assert parse_cql('list<"a""b">') == ("list", [('"a""b"', [])])
    assert cql_string(("list", ("frozen", ("udt", "ks", "My T", [])))) == 'list<frozen<"My T">>'
    assert hexname("é") == "c3a9"
    return True


if __name__ == "__main__":
    _selftest()
    print("spec.typetree self-test ok")
