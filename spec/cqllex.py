"""Independent CQL lexer, reserved-word table and literal-term reader (trusted base for C27, C29, C37).

Written from the lexer rules of Cassandra's CQL grammar (Lexer.g / Cql.g of Cassandra 3.x / 4.x) and the
documented reserved-word table.  It never imports the driver and shares no code or regular expression with it;
the scanner is a hand-written character loop on purpose.

PUBLIC API
==========

Tokens
------
``lex(src, comments=False, allow_empty_quoted=False) -> [Token]``
    Tokenise a whole CQL text.  White space (space, tab, CR, LF only) and comments (``-- ...``, ``// ...``,
    ``/* ... */``) separate tokens; comments are returned as COMMENT tokens only with ``comments=True``.
    Raises ``LexError`` (a ValueError; ``.pos`` = offset) on an illegal character, an unterminated string /
    quoted name / block comment, or - unless ``allow_empty_quoted`` - on the empty quoted name ``""``
    (Cassandra's QUOTED_NAME rule needs at least one character).

``Token`` = namedtuple ``(kind, value, text, start, end)``; ``text == src[start:end]``.  Kinds:

    IDENT        bare word ``[a-zA-Z][a-zA-Z0-9_]*`` (ASCII only).  ``value`` is the LOWER-CASED word (CQL reads
                 bare words case-insensitively), ``text`` the original spelling.  Keywords are IDENT tokens too
                 (``tok.is_kw('select')``); the words NULL, NAN, INFINITY are IDENT (they are keywords in
                 Cassandra), interpreted by ``parse_term``.
    QIDENT       quoted name ``"..."`` with ``""`` -> ``"``; ``value`` is the exact (case-preserved) name.
    STRING       ``'...'`` with ``''`` -> ``'``, or ``$$...$$`` (no escapes, ends at the first ``$$``); ``value`` = text denoted.
    INT          ``-?[0-9]+`` (the minus sign belongs to the token when a digit follows directly, as in Cassandra); value int.
    FLOAT        ``-?[0-9]+(.[0-9]*)?([eE][+-]?[0-9]+)?`` with a fraction and/or exponent; value float (``text`` keeps the digits).
    UUID         8-4-4-4-12 hex digits; value ``uuid.UUID``.
    BLOB         ``0x`` / ``0X`` followed by hex digits (odd count -> LexError); value bytes.
    BOOL         TRUE / FALSE in any case (a separate lexer token in Cassandra, never an identifier); value bool.
    DURATION     ``-?(<digits><unit>)+`` with units y mo w d h m s ms us (also the micro sign) ns; value = list of (int, unit); ISO-8601
                 ``P...`` forms are NOT recognised (they lex as IDENT).
    QMARK        ``?`` positional bind marker.
    PYFMT_POS    ``%s``   python-format positional placeholder (driver-side templates only).
    PYFMT_NAMED  ``%(name)s`` python-format named placeholder; value = name.
    PUNCT        one of ``( ) [ ] { } , ; . : = < > <= >= != + - * / % += -=`` ; value = the operator text.
                 NOTE ``:name`` bind markers are NOT a token kind: as in Cassandra's grammar the colon is a plain
                 token (it also separates map keys from values); ``parse_term`` reads ``: name`` at term position
                 as a named marker.
    COMMENT      only with ``comments=True``; value = comment text without the delimiters.

``lex_one(src, allow_empty_quoted=False) -> Token``
    The input must be exactly one token with nothing (not even white space or a comment) around it; else LexError.

Identifiers and strings
-----------------------
``RESERVED``     frozenset of lower-case words Cassandra (3.x/4.x) certainly reserves (documented table, CQL appendix A).
``EITHER_WAY``   frozenset of words whose status I am not certain of offline (DEFAULT, UNSET, MBEAN, MBEANS are reserved
                 in Cassandra's ReservedKeywords of 3.10+/4.x but not in older releases; TRUE / FALSE are not in the
                 documented table yet lex as BOOLEAN, so they are unusable as bare names).  An oracle must accept
                 them both quoted and unquoted.
``is_reserved(word) -> True | False | None``   None = either way accepted.  Case-insensitive.
``is_bare_word(name) -> bool``   the WHOLE string is ``[a-zA-Z][a-zA-Z0-9_]*`` (no trailing newline tolerated).
``may_stay_unquoted(name) -> True | False | None``  True: a bare occurrence reads back as exactly ``name`` (whole string is a
                 bare word, already lower-case, not reserved); None: only the reserved status is uncertain; False: must be quoted.
``quote_ident(name) -> str``    reference rendering ``"..."`` with doubled quotes.
``quote_string(text) -> str``   reference rendering ``'...'`` with doubled quotes.
``ident_value(tok) -> str | None``  the name an IDENT / QIDENT token denotes (None for other kinds).

Terms (literals, function-call-free)
------------------------------------
``parse_term(tokens, i=0) -> (Term, next_i)``   reads ONE term starting at ``tokens[i]``:
    constants (STRING INT FLOAT BOOL UUID BLOB DURATION, NULL, [-]NAN, [-]INFINITY), bind markers (QMARK, ``:name``,
    PYFMT_POS, PYFMT_NAMED), list ``[t, ...]``, set ``{t, ...}``, map ``{k: v, ...}``, tuple ``(t, ...)``,
    UDT literal ``{field: t, ...}`` (field = IDENT / QIDENT that is not NULL/NAN/INFINITY), ``{}`` (kind 'empty_braces':
    Cassandra accepts it for sets and maps).  Function calls, type casts, arithmetic and column references
    raise ``ParseError`` (ValueError).
``parse_single_term(src) -> Term``   lex + parse_term + demand that nothing follows.
``Term`` has ``kind`` (string int float bool null uuid blob duration marker list set map tuple udt empty_braces),
    ``value`` (python scalar; list of Term for list/set/tuple; list of (Term, Term) for map; list of (name, Term) for udt;
    ('?', None) / (':', name) / ('%s', None) / ('%(', name) for marker), ``start``/``end`` (token indices, end exclusive)
    and ``plain()`` -> natural python value (list, frozenset or list when unhashable, dict or list of pairs when a key is
    unhashable, tuple, dict for udt, ``Marker`` objects for markers).

Self-test: ``python -m spec.cqllex`` runs the literal vectors in ``_selftest()``.
"""
import uuid as _uuid
from collections import namedtuple

__all__ = ["Token", "LexError", "ParseError", "lex", "lex_one", "RESERVED", "EITHER_WAY", "is_reserved", "is_bare_word",
           "may_stay_unquoted", "quote_ident", "quote_string", "ident_value", "Term", "Marker", "parse_term",
           "parse_single_term"]


class LexError(ValueError):
    def __init__(self, msg, pos):
        ValueError.__init__(self, "%s at offset %d" % (msg, pos))
        self.pos = pos


class ParseError(ValueError):
    pass


class Token(namedtuple("Token", "kind value text start end")):
    __slots__ = ()

    def is_kw(self, word):
        return self.kind == "IDENT" and self.value == word.lower()

    def is_punct(self, p):
        return self.kind == "PUNCT" and self.value == p


# Cassandra's documented reserved words (CQL appendix A of the 3.x / 4.x documentation).
RESERVED = frozenset("""
add allow alter and apply asc authorize batch begin by columnfamily create delete desc describe drop entries execute
from full grant if in index infinity insert into is keyspace limit materialized modify nan norecursive not null of on
or order primary rename replace revoke schema select set table to token truncate unlogged update use using view where
with
""".split())

# Reserved in some releases only / unusable bare for another reason: an oracle accepts either rendering.
EITHER_WAY = frozenset("default unset mbean mbeans true false".split())

_LOWER = "abcdefghijklmnopqrstuvwxyz"
_UPPER = _LOWER.upper()
_DIGITS = "0123456789"
_LETTERS = frozenset(_LOWER + _UPPER)
_WORDCH = frozenset(_LOWER + _UPPER + _DIGITS + "_")
_DIGITSET = frozenset(_DIGITS)
_HEXSET = frozenset(_DIGITS + "abcdefABCDEF")
_WS = frozenset(" \t\r\n")
_DUR_UNITS = ("mo", "ms", "us", "µs", "ns", "y", "w", "d", "h", "m", "s")   # two-letter units first


def _ascii_lower(word):
    # bare words are ASCII by construction; avoid str.lower() surprises on non-ASCII input
    return "".join(chr(ord(c) + 32) if c in _UPPER else c for c in word)


def is_bare_word(name):
    if not isinstance(name, str) or not name:
        return False
    if name[0] not in _LETTERS:
        return False
    for c in name:
        if c not in _WORDCH:
            return False
    return True


def is_reserved(word):
    w = _ascii_lower(word)
    if w in RESERVED:
        return True
    if w in EITHER_WAY:
        return None
    return False


def may_stay_unquoted(name):
    if not is_bare_word(name):
        return False
    if _ascii_lower(name) != name:
        return False
    r = is_reserved(name)
    if r is True:
        return False
    if r is None:
        return None
    return True


def quote_ident(name):
    return '"' + name.replace('"', '""') + '"'


def quote_string(text):
    return "'" + text.replace("'", "''") + "'"


def ident_value(tok):
    if tok.kind in ("IDENT", "QIDENT"):
        return tok.value
    return None


def _scan_uuid(src, i):
    """Return end offset of a UUID (8-4-4-4-12 hex digits) starting at i, or -1."""
    if i + 36 > len(src):
        return -1
    for off in range(36):
        ch = src[i + off]
        if off in (8, 13, 18, 23):
            if ch != "-":
                return -1
        elif ch not in _HEXSET:
            return -1
    return i + 36


def _scan_duration(src, i):
    """``-?(digits unit)+`` -> (end, parts) or None.  The whole run of word characters must be consumed."""
    j = i
    if j < len(src) and src[j] == "-":
        j += 1
    parts = []
    while j < len(src) and src[j] in _DIGITSET:
        k = j
        while k < len(src) and src[k] in _DIGITSET:
            k += 1
        unit = None
        for u in _DUR_UNITS:
            if _ascii_lower(src[k:k + len(u)]) == u:
                unit = u
                break
        if unit is None:
            return None
        parts.append((int(src[j:k]), "us" if unit == "µs" else unit))
        j = k + len(unit)
    if not parts:
        return None
    if j < len(src) and (src[j] in _WORDCH or src[j] == "."):
        return None
    return j, parts


def lex(src, comments=False, allow_empty_quoted=False):
    if not isinstance(src, str):
        raise TypeError("lex() wants str")
    out = []
    n = len(src)
    i = 0
    while i < n:
        c = src[i]
        if c in _WS:
            i += 1
            continue
        two = src[i:i + 2]
        # ---- comments
        if two == "--" or two == "//":
            j = i + 2
            while j < n and src[j] not in "\r\n":
                j += 1
            if comments:
                out.append(Token("COMMENT", src[i + 2:j], src[i:j], i, j))
            i = j
            continue
        if two == "/*":
            j = src.find("*/", i + 2)
            if j < 0:
                raise LexError("unterminated block comment", i)
            if comments:
                out.append(Token("COMMENT", src[i + 2:j], src[i:j + 2], i, j + 2))
            i = j + 2
            continue
        # ---- strings
        if c == "'":
            j = i + 1
            buf = []
            while True:
                if j >= n:
                    raise LexError("unterminated string literal", i)
                if src[j] == "'":
                    if j + 1 < n and src[j + 1] == "'":
                        buf.append("'")
                        j += 2
                        continue
                    j += 1
                    break
                buf.append(src[j])
                j += 1
            out.append(Token("STRING", "".join(buf), src[i:j], i, j))
            i = j
            continue
        if two == "$$":
            j = src.find("$$", i + 2)
            if j < 0:
                raise LexError("unterminated $$ string", i)
            out.append(Token("STRING", src[i + 2:j], src[i:j + 2], i, j + 2))
            i = j + 2
            continue
        # ---- quoted names
        if c == '"':
            j = i + 1
            buf = []
            while True:
                if j >= n:
                    raise LexError("unterminated quoted name", i)
                if src[j] == '"':
                    if j + 1 < n and src[j + 1] == '"':
                        buf.append('"')
                        j += 2
                        continue
                    j += 1
                    break
                buf.append(src[j])
                j += 1
            if not buf and not allow_empty_quoted:
                raise LexError("empty quoted name", i)
            out.append(Token("QIDENT", "".join(buf), src[i:j], i, j))
            i = j
            continue
        # ---- python-format placeholders
        if c == "%":
            if two == "%s":
                out.append(Token("PYFMT_POS", None, "%s", i, i + 2))
                i += 2
                continue
            if two == "%(":
                j = src.find(")s", i + 2)
                if j < 0:
                    raise LexError("unterminated %(name)s placeholder", i)
                out.append(Token("PYFMT_NAMED", src[i + 2:j], src[i:j + 2], i, j + 2))
                i = j + 2
                continue
            out.append(Token("PUNCT", "%", "%", i, i + 1))
            i += 1
            continue
        if c == "?":
            out.append(Token("QMARK", None, "?", i, i + 1))
            i += 1
            continue
        # ---- things that start with a hex digit / digit / minus-digit
        if c in _HEXSET:
            j = _scan_uuid(src, i)
            if j > 0 and not (j < n and (src[j] in _WORDCH)):
                out.append(Token("UUID", _uuid.UUID(src[i:j]), src[i:j], i, j))
                i = j
                continue
        if c == "0" and i + 1 < n and src[i + 1] in "xX":
            j = i + 2
            while j < n and src[j] in _HEXSET:
                j += 1
            if j < n and src[j] in _WORDCH:
                raise LexError("bad character in hex literal", j)
            if (j - i - 2) % 2:
                raise LexError("odd number of hex digits in blob literal", i)
            out.append(Token("BLOB", bytes.fromhex(src[i + 2:j]), src[i:j], i, j))
            i = j
            continue
        if c in _DIGITSET or (c == "-" and i + 1 < n and src[i + 1] in _DIGITSET):
            d = _scan_duration(src, i)
            if d is not None:
                j, parts = d
                neg = src[i] == "-"
                out.append(Token("DURATION", [(-q if neg else q, u) for q, u in parts], src[i:j], i, j))
                i = j
                continue
            j = i + 1 if c == "-" else i
            while j < n and src[j] in _DIGITSET:
                j += 1
            isfloat = False
            if j < n and src[j] == ".":
                # Cassandra: INTEGER '.' DIGIT*  (a trailing dot belongs to the float)
                isfloat = True
                j += 1
                while j < n and src[j] in _DIGITSET:
                    j += 1
            if j < n and src[j] in "eE":
                k = j + 1
                if k < n and src[k] in "+-":
                    k += 1
                if k < n and src[k] in _DIGITSET:
                    while k < n and src[k] in _DIGITSET:
                        k += 1
                    isfloat = True
                    j = k
            if j < n and src[j] in _WORDCH:
                raise LexError("letter directly after a number", j)
            text = src[i:j]
            if isfloat:
                out.append(Token("FLOAT", float(text), text, i, j))
            else:
                out.append(Token("INT", int(text), text, i, j))
            i = j
            continue
        # ---- words
        if c in _LETTERS:
            j = i + 1
            while j < n and src[j] in _WORDCH:
                j += 1
            text = src[i:j]
            low = _ascii_lower(text)
            if low == "true" or low == "false":
                out.append(Token("BOOL", low == "true", text, i, j))
            else:
                out.append(Token("IDENT", low, text, i, j))
            i = j
            continue
        # ---- operators
        if two in ("<=", ">=", "!=", "+=", "-="):
            out.append(Token("PUNCT", two, two, i, i + 2))
            i += 2
            continue
        if c in "()[]{},;.:=<>+-*/":
            out.append(Token("PUNCT", c, c, i, i + 1))
            i += 1
            continue
        raise LexError("illegal character %r" % c, i)
    return out


def lex_one(src, allow_empty_quoted=False):
    toks = lex(src, comments=True, allow_empty_quoted=allow_empty_quoted)
    if len(toks) != 1:
        raise LexError("expected exactly one token, got %d (%s)" % (len(toks), " ".join(t.kind for t in toks[:6])), 0)
    t = toks[0]
    if t.start != 0 or t.end != len(src):
        raise LexError("token does not span the whole input (white space around it)", t.end if t.start == 0 else 0)
    return t


# ------------------------------------------------------------------------------------------------
# terms
# ------------------------------------------------------------------------------------------------
class Marker(object):
    __slots__ = ("style", "name")

    def __init__(self, style, name):
        self.style = style
        self.name = name

    def __repr__(self):
        return "Marker(%r, %r)" % (self.style, self.name)

    def __eq__(self, other):
        return isinstance(other, Marker) and (self.style, self.name) == (other.style, other.name)

    def __hash__(self):
        return hash((self.style, self.name))


class Term(object):
    __slots__ = ("kind", "value", "start", "end")

    def __init__(self, kind, value, start, end):
        self.kind = kind
        self.value = value
        self.start = start
        self.end = end

    def __repr__(self):
        return "Term(%s, %r)" % (self.kind, self.value)

    def plain(self):
        k = self.kind
        if k in ("list",):
            return [t.plain() for t in self.value]
        if k == "tuple":
            return tuple(t.plain() for t in self.value)
        if k == "set":
            items = [t.plain() for t in self.value]
            try:
                return frozenset(items)
            except TypeError:
                return items
        if k == "map":
            pairs = [(a.plain(), b.plain()) for a, b in self.value]
            try:
                return dict(pairs)
            except TypeError:
                return pairs
        if k == "udt":
            return dict((name, t.plain()) for name, t in self.value)
        if k == "empty_braces":
            return {}
        if k == "marker":
            return Marker(*self.value)
        return self.value


_LITERAL_WORDS = ("null", "nan", "infinity")


def _need(tokens, i, what):
    if i >= len(tokens):
        raise ParseError("unexpected end of input, expected %s" % what)
    return tokens[i]


def parse_term(tokens, i=0):
    t = _need(tokens, i, "a term")
    k = t.kind
    if k == "STRING":
        return Term("string", t.value, i, i + 1), i + 1
    if k == "INT":
        return Term("int", t.value, i, i + 1), i + 1
    if k == "FLOAT":
        return Term("float", t.value, i, i + 1), i + 1
    if k == "BOOL":
        return Term("bool", t.value, i, i + 1), i + 1
    if k == "UUID":
        return Term("uuid", t.value, i, i + 1), i + 1
    if k == "BLOB":
        return Term("blob", t.value, i, i + 1), i + 1
    if k == "DURATION":
        return Term("duration", t.value, i, i + 1), i + 1
    if k == "QMARK":
        return Term("marker", ("?", None), i, i + 1), i + 1
    if k == "PYFMT_POS":
        return Term("marker", ("%s", None), i, i + 1), i + 1
    if k == "PYFMT_NAMED":
        return Term("marker", ("%(", t.value), i, i + 1), i + 1
    if k == "IDENT":
        if t.value == "null":
            return Term("null", None, i, i + 1), i + 1
        if t.value == "nan":
            return Term("float", float("nan"), i, i + 1), i + 1
        if t.value == "infinity":
            return Term("float", float("inf"), i, i + 1), i + 1
        raise ParseError("word %r at term position (column references and function calls are not terms here)" % t.text)
    if k == "QIDENT":
        raise ParseError("quoted name at term position")
    if k == "PUNCT":
        v = t.value
        if v == "-":
            t2 = _need(tokens, i + 1, "NAN or INFINITY after '-'")
            if t2.kind == "IDENT" and t2.value in ("nan", "infinity"):
                val = float("nan") if t2.value == "nan" else float("-inf")
                return Term("float", val, i, i + 2), i + 2
            raise ParseError("'-' not followed by a number, NAN or INFINITY")
        if v == ":":
            t2 = _need(tokens, i + 1, "a marker name after ':'")
            if t2.kind in ("IDENT", "QIDENT"):
                return Term("marker", (":", t2.value), i, i + 2), i + 2
            raise ParseError("':' not followed by a name")
        if v == "[":
            items, j = _read_seq(tokens, i + 1, "]")
            return Term("list", items, i, j), j
        if v == "(":
            items, j = _read_seq(tokens, i + 1, ")")
            if not items:
                raise ParseError("empty tuple literal")
            # `(typename) term` would be a cast: an IDENT right after '(' already raised in parse_term
            return Term("tuple", items, i, j), j
        if v == "{":
            return _read_braces(tokens, i)
    raise ParseError("token %s %r cannot start a term" % (t.kind, t.text))


def _read_seq(tokens, i, closer):
    items = []
    t = _need(tokens, i, "a term or %r" % closer)
    if t.is_punct(closer):
        return items, i + 1
    while True:
        term, i = parse_term(tokens, i)
        items.append(term)
        t = _need(tokens, i, "',' or %r" % closer)
        if t.is_punct(","):
            i += 1
            continue
        if t.is_punct(closer):
            return items, i + 1
        raise ParseError("expected ',' or %r, found %r" % (closer, t.text))


def _read_braces(tokens, i):
    start = i
    i += 1
    t = _need(tokens, i, "a term or '}'")
    if t.is_punct("}"):
        return Term("empty_braces", [], start, i + 1), i + 1
    # UDT literal: {name: term, ...}
    nxt = tokens[i + 1] if i + 1 < len(tokens) else None
    if (t.kind == "QIDENT" or (t.kind == "IDENT" and t.value not in _LITERAL_WORDS)) and nxt is not None and nxt.is_punct(":"):
        fields = []
        while True:
            t = _need(tokens, i, "a field name")
            if t.kind not in ("IDENT", "QIDENT"):
                raise ParseError("expected a field name in a user-type literal, found %r" % t.text)
            c = _need(tokens, i + 1, "':'")
            if not c.is_punct(":"):
                raise ParseError("expected ':' after field name")
            term, i = parse_term(tokens, i + 2)
            fields.append((t.value, term))
            t = _need(tokens, i, "',' or '}'")
            if t.is_punct(","):
                i += 1
                continue
            if t.is_punct("}"):
                return Term("udt", fields, start, i + 1), i + 1
            raise ParseError("expected ',' or '}', found %r" % t.text)
    first, i = parse_term(tokens, i)
    t = _need(tokens, i, "':', ',' or '}'")
    if t.is_punct(":"):
        val, i = parse_term(tokens, i + 1)
        pairs = [(first, val)]
        while True:
            t = _need(tokens, i, "',' or '}'")
            if t.is_punct("}"):
                return Term("map", pairs, start, i + 1), i + 1
            if not t.is_punct(","):
                raise ParseError("expected ',' or '}', found %r" % t.text)
            key, i = parse_term(tokens, i + 1)
            c = _need(tokens, i, "':'")
            if not c.is_punct(":"):
                raise ParseError("expected ':' in a map literal, found %r" % c.text)
            val, i = parse_term(tokens, i + 1)
            pairs.append((key, val))
    items = [first]
    while True:
        t = _need(tokens, i, "',' or '}'")
        if t.is_punct("}"):
            return Term("set", items, start, i + 1), i + 1
        if not t.is_punct(","):
            raise ParseError("expected ',' or '}', found %r" % t.text)
        term, i = parse_term(tokens, i + 1)
        items.append(term)


def parse_single_term(src, allow_empty_quoted=False):
    toks = lex(src, allow_empty_quoted=allow_empty_quoted)
    term, i = parse_term(toks, 0)
    if i != len(toks):
        raise ParseError("trailing tokens after the term: %r" % (toks[i].text,))
    return term


# ------------------------------------------------------------------------------------------------
def _selftest():
    import math
    U = _uuid.UUID("123e4567-e89b-12d3-a456-426614174000")
    k = [(t.kind, t.value) for t in lex("SELECT \"Ab\"\"c\", x FROM ks.t WHERE a = 'it''s' AND b=-12 AND c = 1.5e3 -- tail\n;")]
    assert k == [("IDENT", "select"), ("QIDENT", 'Ab"c'), ("PUNCT", ","), ("IDENT", "x"), ("IDENT", "from"), ("IDENT", "ks"),
                 ("PUNCT", "."), ("IDENT", "t"), ("IDENT", "where"), ("IDENT", "a"), ("PUNCT", "="), ("STRING", "it's"),
                 ("IDENT", "and"), ("IDENT", "b"), ("PUNCT", "="), ("INT", -12), ("IDENT", "and"), ("IDENT", "c"),
                 ("PUNCT", "="), ("FLOAT", 1500.0), ("PUNCT", ";")], k
    assert lex_one("123e4567-e89b-12d3-a456-426614174000").value == U
    assert lex_one("0xCAfe").value == b"\xca\xfe" and lex_one("0x").value == b""
    assert lex_one("$$a'b$$").value == "a'b"
    assert lex_one("TrUe").kind == "BOOL" and lex_one("null").kind == "IDENT"
    assert lex_one("1h30m").value == [(1, "h"), (30, "m")] and lex_one("-2mo").value == [(-2, "mo")]
    assert [t.kind for t in lex("a = ? AND b = :n AND c = %s AND d = %(nm)s")] == \
        ["IDENT", "PUNCT", "QMARK", "IDENT", "IDENT", "PUNCT", "PUNCT", "IDENT", "IDENT", "IDENT", "PUNCT", "PYFMT_POS", "IDENT",
         "IDENT", "PUNCT", "PYFMT_NAMED"]
    for bad in ("'abc", '"abc', '""', "abc\n", " abc", "a b", "1a", "0x1", "é", "a\x00"):
        try:
            lex_one(bad)
        except LexError:
            pass
        else:
            raise AssertionError("lex_one accepted %r" % bad)
    assert lex_one('""', allow_empty_quoted=True).value == ""
    assert lex_one('"a\nb"').value == "a\nb"
    assert is_reserved("SELECT") is True and is_reserved("text") is False and is_reserved("Default") is None
    assert may_stay_unquoted("abc_1") is True and may_stay_unquoted("abc\n") is False and may_stay_unquoted("Abc") is False
    assert may_stay_unquoted("table") is False and may_stay_unquoted("true") is None and may_stay_unquoted("1a") is False
    assert may_stay_unquoted("") is False and may_stay_unquoted("é") is False
    assert lex_one(quote_ident('a"b')).value == 'a"b' and lex_one(quote_string("a'b")).value == "a'b"
    t = parse_single_term("{'a': [1, 2.5, -3], 'b': [], 'c': [0x00, null]}")
    assert t.kind == "map" and t.plain() == {"a": [1, 2.5, -3], "b": [], "c": [b"\x00", None]}
    assert parse_single_term("{1, 2, 3}").plain() == frozenset([1, 2, 3])
    assert parse_single_term("(1, 'x', (true, {}))").plain() == (1, "x", (True, {}))
    u = parse_single_term('{a: 1, "B c": {x: [%s, ?, :nm, %(p)s]}}')
    assert u.kind == "udt" and u.plain() == {"a": 1, "B c": {"x": [Marker("%s", None), Marker("?", None), Marker(":", "nm"),
                                                                   Marker("%(", "p")]}}
    assert math.isnan(parse_single_term("NaN").value) and parse_single_term("-Infinity").value == float("-inf")
    assert parse_single_term("{null: 1}").kind == "map"
    assert parse_single_term("{1:true}").plain() == {1: True}
    assert parse_single_term("123e4567-e89b-12d3-a456-426614174000").value == U
    for bad in ("now()", "(int) 3", "a", "[1,", "{1: 2, 3}", "{1, 2: 3}", "1 2", "()", "- 1"):
        try:
            parse_single_term(bad)
        except ParseError:
            pass
        else:
            raise AssertionError("parse_single_term accepted %r" % bad)
    return True


if __name__ == "__main__":
    _selftest()
    print("spec.cqllex self-test ok")
