"""One concurrent-push run against a real event-loop reactor (C11).  Separate process per run
because the reactors keep process-global loops.

    reactor_push.py <repo> <asyncio|twisted> <seed> <nthreads> <nmsgs> <inject 0|1> <out.json>

A loopback peer thread records every byte it receives.  N threads push framed messages
``MAGIC tid seq len filler`` through ``conn.push``; the peer's byte stream is parsed back.
With inject=1, sys.monitoring LINE events restricted to the reactor's push path call
``time.sleep(0)`` with a seeded probability (only at statement starts, where CPython could
switch threads anyway).
"""
import json
import random
import socket
import struct
import sys
import threading
import time

repo, which, seed, nthreads, nmsgs, inject, out = sys.argv[1], sys.argv[2], int(sys.argv[3]), int(sys.argv[4]), int(sys.argv[5]), int(sys.argv[6]), sys.argv[7]
# back-pressure: small kernel buffers on both ends and a peer that reads slowly, so that the reactor's writes are accepted partially
SLOW = len(sys.argv) > 8 and sys.argv[8] == '1'
sys.path.insert(0, repo)
MAGIC = b'\xc1\x1c\xfa\xce'
SIZES = [1, 13, 4095 - 13, 4096 - 13, 4097 - 13, 4096, 8193, 70000]


def main():
    rng = random.Random(seed)
    srv = socket.socket()
    if SLOW:
        srv.setsockopt(socket.SOL_SOCKET, socket.SO_RCVBUF, 4096)
    srv.bind(('127.0.0.1', 0))
    srv.listen(1)
    port = srv.getsockname()[1]
    received = bytearray()
    state = {'closed': False, 'last': time.time()}

    def peer():
        c, _ = srv.accept()
        c.settimeout(0.5)
        while not state['closed']:
            try:
                if SLOW:
                    time.sleep(0.0015)
                b = c.recv(3000 if SLOW else 65536)
            except socket.timeout:
                continue
            except OSError:
                break
            if not b:
                break
            received.extend(b)
            state['last'] = time.time()
    pt = threading.Thread(target=peer, daemon=True)
    pt.start()

    if which == 'asyncio':
        from cassandra.io.asyncioreactor import AsyncioConnection as Cls
        targets = [Cls.push, Cls._push_msg, Cls.handle_write]
    else:
        from cassandra.io.twistedreactor import TwistedConnection as Cls
        targets = [Cls.push]
    Cls.initialize_reactor()
    kw = {'sockopts': [(socket.SOL_SOCKET, socket.SO_SNDBUF, 4096)]} if SLOW else {}
    conn = Cls('127.0.0.1', port, protocol_version=4, connect_timeout=10, **kw)
    t0 = time.time()
    while which == 'twisted' and conn.transport is None and time.time() - t0 < 20:
        time.sleep(0.01)
    res = {'reactor': which, 'seed': seed, 'threads': nthreads, 'msgs': nmsgs, 'inject': inject, 'slow_peer': SLOW}
    if which == 'twisted' and conn.transport is None:
        res['harness_error'] = 'twisted connection did not connect'
        json.dump(res, open(out, 'w'))
        return
    line_events = [0]
    if inject:
        mon = sys.monitoring
        irng = random.Random(seed + 1)
        lock = threading.Lock()

        def on_line(code, line):
            line_events[0] += 1
            with lock:
                r = irng.random()
            if r < 0.3:
                time.sleep(0)
            elif r < 0.32:
                time.sleep(0.0005)
        mon.use_tool_id(3, 'verif-c11')
        mon.register_callback(3, mon.events.LINE, on_line)
        for fn in targets:
            mon.set_local_events(3, fn.__code__, mon.events.LINE)
    plans = {}
    expected = 0
    for tid in range(nthreads):
        r2 = random.Random(seed * 131 + tid)
        sizes = [r2.choice(SIZES) for _ in range(nmsgs)]
        plans[tid] = sizes
        expected += sum(13 + s for s in sizes)
    errors = []

    def pusher(tid):
        try:
            for seq, size in enumerate(plans[tid]):
                body = bytes([(tid * 31 + seq) & 0xff]) * size
                conn.push(MAGIC + struct.pack('>BII', tid, seq, size) + body)
        except Exception as e:      # noqa
            errors.append('%s: %s' % (type(e).__name__, e))
    ths = [threading.Thread(target=pusher, args=(t,)) for t in range(nthreads)]
    for t in ths:
        t.start()
    for t in ths:
        t.join(120)
    res['pushes_returned'] = not any(t.is_alive() for t in ths)
    # logical completion: all bytes arrived; lost messages show as a stall of the byte count
    state['last'] = time.time()
    deadline = time.time() + 120
    while len(received) < 9 + expected and time.time() < deadline and time.time() - state['last'] < 10:
        time.sleep(0.02)
    res['stalled'] = len(received) < 9 + expected
    state['closed'] = True
    res['push_errors'] = errors[:3]
    res['expected_bytes'] = 9 + expected
    res['received_bytes'] = len(received)
    res['line_events'] = line_events[0]
    res['is_defunct'] = bool(conn.is_defunct)
    res['last_error'] = repr(conn.last_error) if conn.last_error else None
    # parse the stream
    data = bytes(received)
    problems = []
    seqs = {}
    p = 0
    if len(data) >= 9:
        if data[:1] != b'\x04' or data[4:5] != b'\x05' or data[5:9] != b'\x00\x00\x00\x00':
            problems.append('stream does not start with the v4 OPTIONS frame: %s' % data[:9].hex())
        p = 9
    nparsed = 0
    while p < len(data) and len(problems) < 5:
        if data[p:p + 4] != MAGIC:
            problems.append('message boundary lost at byte %d (%s)' % (p, data[p:p + 8].hex()))
            break
        if p + 13 > len(data):
            problems.append('truncated message header at end of stream')
            break
        tid, seq, size = struct.unpack('>BII', data[p + 4:p + 13])
        body = data[p + 13:p + 13 + size]
        if len(body) < size:
            problems.append('truncated message tid=%d seq=%d at end of stream' % (tid, seq))
            break
        if body != bytes([(tid * 31 + seq) & 0xff]) * size:
            problems.append('message tid=%d seq=%d body interleaved/corrupted' % (tid, seq))
        if tid not in plans or seq >= len(plans[tid]) or plans[tid][seq] != size:
            problems.append('message tid=%d seq=%d size=%d was never pushed' % (tid, seq, size))
        else:
            last = seqs.get(tid, -1)
            if seq != last + 1:
                problems.append('thread %d: seq %d after %d (%s)' % (tid, seq, last, 'duplicate/reordered' if seq <= last else 'gap'))
            seqs[tid] = seq
        nparsed += 1
        p += 13 + size
    res['messages_parsed'] = nparsed
    res['messages_expected'] = nthreads * nmsgs
    res['problems'] = problems
    json.dump(res, open(out, 'w'))


if __name__ == '__main__':
    main()
    sys.stdout.flush()
    import os
    os._exit(0)
