"""One concurrent-push run against a real event-loop reactor (C11).  Separate process per run
because the reactors keep process-global loops.

    reactor_push.py <repo> <asyncio|twisted> <seed> <nthreads> <nmsgs> <inject 0|1> <out.json> [slow 0|1] [wide 0|1]

A loopback peer thread records every byte it receives.  N threads push framed messages
``MAGIC tid seq len filler`` through ``conn.push``; the peer's byte stream is parsed back.
With inject=1, sys.monitoring LINE events restricted to the reactor's push path call
``time.sleep(0)`` with a seeded probability (only at statement starts, where CPython could
switch threads anyway).

wide=1 adds to the thread pushers
  * a few very large messages (128 KiB .. 1 MiB, on and next to chunk-count boundaries) in the
    plans of the thread pushers and of the loop-thread pusher;
  * pusher L (tid 200): ``conn.push`` called ON THE REACTOR'S OWN THREAD, one message per loop
    iteration while it is active (entered through call_soon_threadsafe / callFromThread, then
    call_soon / callLater(0)).  It is active in short bursts kicked at seeded random times by a
    feeder thread and - for most large messages - from just before a thread calls
    ``conn.push(large)`` until LINGER loop iterations after that call returned;
  * pusher E (tid 201): the peer echoes a byte for a seeded fraction of its reads; the reactor's
    real read path (handle_read / dataReceived) calls ``process_io_buffer`` - replaced here by a
    callback that pushes one message per byte read, the way response callbacks send follow-ups.
The oracle is unchanged: the stream must parse into whole messages, each once, per pusher in order.
"""
import json
import random
import socket
import struct
import sys
import threading
import time

repo, which, seed, nthreads, nmsgs, inject, out = sys.argv[1], sys.argv[2], int(sys.argv[3]), int(sys.argv[4]), int(sys.argv[5]), int(sys.argv[6]), sys.argv[7]
# back-pressure: small kernel buffers on both ends and a peer that reads slowly, so that the reactor's writes are accepted partially
SLOW = len(sys.argv) > 8 and sys.argv[8] == '1'
WIDE = len(sys.argv) > 9 and sys.argv[9] == '1'
sys.path.insert(0, repo)
MAGIC = b'\xc1\x1c\xfa\xce'
HDR = 13
SIZES = [1, 13, 4095 - 13, 4096 - 13, 4097 - 13, 4096, 8193, 70000]
# total message lengths (header included): 32 / 64 / 128 / 256 chunks of 4096 exactly and one byte more, 300 KiB, 1 MiB + 5
LARGE_TOTALS = [131072, 131073, 262144, 262145, 300 * 1024, 524288, 524289, 1048576, 1048581]
LARGE_MIN = 131072            # "large" in the counters: total length >= 128 KiB
HUGE_MIN = 300 * 1024         # "300 KB or more"
LOOP_SIZES = [1, 13, 64 - 13, 64 - 13, 200, 200, 4096 - 13, 4097 - 13, 8193]
TID_L, TID_E = 200, 201
LINGER = 300                  # loop iterations pusher L stays active after a large conn.push returned
L_CAP = 600 if SLOW else 5000
E_CAP = 300 if SLOW else 1500


def fill(tid, seq):
    return (tid * 31 + seq) & 0xff


def message(tid, seq, size):
    return MAGIC + struct.pack('>BII', tid, seq, size) + bytes([fill(tid, seq)]) * size


def main():
    rng = random.Random(seed)
    srv = socket.socket()
    if SLOW:
        srv.setsockopt(socket.SOL_SOCKET, socket.SO_RCVBUF, 4096)
    srv.bind(('127.0.0.1', 0))
    srv.listen(1)
    port = srv.getsockname()[1]
    received = bytearray()
    state = {'closed': False, 'last': time.time(), 'echo': WIDE, 'echoed': 0}

    def peer():
        erng = random.Random(seed + 2)
        c, _ = srv.accept()
        c.settimeout(0.5)
        while not state['closed']:
            try:
                if SLOW:
                    time.sleep(0.0015)
                b = c.recv(3000 if SLOW else 65536)
            except socket.timeout:
                continue
            except OSError:
                break
            if not b:
                break
            received.extend(b)
            state['last'] = time.time()
            if state['echo'] and state['echoed'] < E_CAP and erng.random() < 0.35:
                try:
                    c.send(b'\x01')
                    state['echoed'] += 1
                except OSError:
                    pass
    pt = threading.Thread(target=peer, daemon=True)
    pt.start()

    if which == 'asyncio':
        from cassandra.io.asyncioreactor import AsyncioConnection as Base
        targets = [Base.push, Base._push_msg, Base.handle_write]
    else:
        from cassandra.io.twistedreactor import TwistedConnection as Base
        targets = [Base.push]

    # plans ---------------------------------------------------------------------------------------
    plans = {}
    for tid in range(nthreads):
        r2 = random.Random(seed * 131 + tid)
        plans[tid] = [r2.choice(SIZES) for _ in range(nmsgs)]
    n_large_planned = 0
    if WIDE:
        r3 = random.Random(seed * 137 + 5)
        huge = [t for t in LARGE_TOTALS if t >= HUGE_MIN]
        if SLOW:
            larges = [r3.choice([131073, 262145, 300 * 1024])]
        else:
            larges = [r3.choice(huge)] + [r3.choice(LARGE_TOTALS) for _ in range(r3.choice([1, 2, 3]))]
        for tot in larges:
            tid = r3.randrange(nthreads)
            plans[tid].insert(r3.randrange(len(plans[tid]) + 1), tot - HDR)
        n_large_planned = len(larges)
        lplan = [r3.choice(LOOP_SIZES[:6] if SLOW else LOOP_SIZES) for _ in range(L_CAP)]
        if not SLOW:        # the loop thread pushes a large message of its own, too
            lplan[r3.randrange(5, 80)] = r3.choice(LARGE_TOTALS) - HDR
            n_large_planned += 1
        plans[TID_L] = lplan
        plans[TID_E] = [r3.choice(LOOP_SIZES[:6]) for _ in range(E_CAP)]
    pushed = {TID_L: 0, TID_E: 0}      # written on the reactor thread only
    loop_errors = []
    off_thread = [0]
    loop_ident = [None]

    class Cls(Base):
        def process_io_buffer(self):        # called by the reactor's read path, on the reactor thread
            buf = self._iobuf
            n = buf.tell()
            buf.seek(0)
            buf.truncate()
            if not WIDE or E['closed']:
                return
            for _ in range(n):
                loop_push(self, TID_E)

    E = {'closed': False}
    L = {'hold': 0, 'linger': 0, 'spinning': False, 'closed': False}

    def loop_push(c, tid):
        seq = pushed[tid]
        if seq >= len(plans[tid]):
            return
        if loop_ident[0] is None:
            loop_ident[0] = threading.get_ident()
        elif loop_ident[0] != threading.get_ident():
            off_thread[0] += 1
        pushed[tid] = seq + 1
        try:
            c.push(message(tid, seq, plans[tid][seq]))
        except Exception as e:      # noqa
            loop_errors.append('loop-thread push: %s: %s' % (type(e).__name__, e))

    Cls.initialize_reactor()
    if which == 'asyncio':
        def to_loop(fn, *a):
            Cls._loop.call_soon_threadsafe(fn, *a)

        def next_iteration(fn):
            Cls._loop.call_soon(fn)
    else:
        from twisted.internet import reactor

        def to_loop(fn, *a):
            reactor.callFromThread(fn, *a)

        def next_iteration(fn):
            reactor.callLater(0, fn)

    def l_tick():
        if L['closed'] or (L['hold'] <= 0 and L['linger'] <= 0):
            L['spinning'] = False
            return
        if L['hold'] <= 0:
            L['linger'] -= 1
        loop_push(conn, TID_L)
        next_iteration(l_tick)

    def l_start():
        if not L['spinning'] and not L['closed']:
            L['spinning'] = True
            next_iteration(l_tick)

    def l_hold():
        L['hold'] += 1
        l_start()

    def l_release():
        L['hold'] -= 1
        L['linger'] = max(L['linger'], LINGER)
        l_start()

    def l_kick(n):
        L['linger'] = max(L['linger'], n)
        l_start()

    kw = {'sockopts': [(socket.SOL_SOCKET, socket.SO_SNDBUF, 4096)]} if SLOW else {}
    conn = Cls('127.0.0.1', port, protocol_version=4, connect_timeout=10, **kw)
    t0 = time.time()
    while which == 'twisted' and conn.transport is None and time.time() - t0 < 20:
        time.sleep(0.01)
    res = {'reactor': which, 'seed': seed, 'threads': nthreads, 'msgs': nmsgs, 'inject': inject, 'slow_peer': SLOW, 'wide': WIDE}
    if which == 'twisted' and conn.transport is None:
        res['harness_error'] = 'twisted connection did not connect'
        json.dump(res, open(out, 'w'))
        return
    line_events = [0]
    if inject:
        mon = sys.monitoring
        irng = random.Random(seed + 1)
        lock = threading.Lock()

        def on_line(code, line):
            line_events[0] += 1
            with lock:
                r = irng.random()
            if r < 0.3:
                time.sleep(0)
            elif r < 0.32:
                time.sleep(0.0005)
        mon.use_tool_id(3, 'verif-c11')
        mon.register_callback(3, mon.events.LINE, on_line)
        for fn in targets:
            mon.set_local_events(3, fn.__code__, mon.events.LINE)
    errors = []
    large_under_loop_pushes = [0]

    def pusher(tid):
        r4 = random.Random(seed * 139 + tid)
        try:
            for seq, size in enumerate(plans[tid]):
                m = message(tid, seq, size)
                if WIDE and size + HDR >= LARGE_MIN and r4.random() < 0.8:
                    large_under_loop_pushes[0] += 1
                    to_loop(l_hold)
                    try:
                        conn.push(m)
                    finally:
                        to_loop(l_release)
                else:
                    conn.push(m)
        except Exception as e:      # noqa
            errors.append('%s: %s' % (type(e).__name__, e))
    ths = [threading.Thread(target=pusher, args=(t,)) for t in range(nthreads)]
    feeding = [WIDE]

    def feeder():
        r5 = random.Random(seed * 149 + 3)
        while feeding[0]:
            to_loop(l_kick, r5.choice([1, 1, 2, 3, 8]))
            time.sleep(r5.choice([0, 0.0002, 0.001, 0.003]))
    ft = threading.Thread(target=feeder, daemon=True)
    if WIDE:
        ft.start()
    for t in ths:
        t.start()
    for t in ths:
        t.join(120)
    res['pushes_returned'] = not any(t.is_alive() for t in ths)
    feeding[0] = False
    if WIDE:
        ft.join(5)
        # let the bursts that are under way finish, then freeze both loop-thread pushers from the reactor thread itself
        tl = time.time() + 5
        while L['spinning'] and time.time() < tl:
            time.sleep(0.005)
        state['echo'] = False
        time.sleep(0.05)
        frozen = threading.Event()

        def freeze():
            L['closed'] = True
            E['closed'] = True
            frozen.set()
        to_loop(freeze)
        res['loop_unresponsive'] = not frozen.wait(20)
        L['closed'] = E['closed'] = True
    counts = {tid: len(plans[tid]) for tid in range(nthreads)}
    counts.update({tid: pushed[tid] for tid in (TID_L, TID_E) if tid in plans})
    expected = sum(HDR + s for tid, c in counts.items() for s in plans[tid][:c])
    # logical completion: all bytes arrived; lost messages show as a stall of the byte count
    state['last'] = time.time()
    deadline = time.time() + 120
    while len(received) < 9 + expected and time.time() < deadline and time.time() - state['last'] < 10:
        time.sleep(0.02)
    res['stalled'] = len(received) < 9 + expected
    state['closed'] = True
    res['push_errors'] = (errors + loop_errors)[:3]
    res['expected_bytes'] = 9 + expected
    res['received_bytes'] = len(received)
    res['line_events'] = line_events[0]
    res['is_defunct'] = bool(conn.is_defunct)
    res['last_error'] = repr(conn.last_error) if conn.last_error else None
    res['loop_pushes_off_loop_thread'] = off_thread[0]
    if WIDE and loop_ident[0] is not None:
        lt = Cls._loop_thread.ident if which == 'asyncio' else loop_ident[0]
        if off_thread[0] or lt != loop_ident[0] or loop_ident[0] in [t.ident for t in ths] or loop_ident[0] == threading.main_thread().ident:
            res['harness_error'] = 'the loop-thread pushers did not run on the reactor thread'
    # parse the stream
    data = bytes(received)
    problems = []
    seqs = {}
    p = 0
    if len(data) >= 9:
        if data[:1] != b'\x04' or data[4:5] != b'\x05' or data[5:9] != b'\x00\x00\x00\x00':
            problems.append('stream does not start with the v4 OPTIONS frame: %s' % data[:9].hex())
        p = 9
    nparsed = 0
    large_ok = huge_ok = 0
    loop_ok = {TID_L: 0, TID_E: 0}
    while p < len(data) and len(problems) < 5:
        if data[p:p + 4] != MAGIC:
            problems.append('message boundary lost at byte %d (%s)' % (p, data[p:p + 8].hex()))
            break
        if p + HDR > len(data):
            problems.append('truncated message header at end of stream')
            break
        tid, seq, size = struct.unpack('>BII', data[p + 4:p + HDR])
        body = data[p + HDR:p + HDR + size]
        if len(body) < size:
            problems.append('truncated message tid=%d seq=%d at end of stream' % (tid, seq))
            break
        whole = body == bytes([fill(tid, seq)]) * size
        if not whole:
            at = len(body) - len(body.lstrip(bytes([fill(tid, seq)])))
            what = 'message tid=%d seq=%d (%d bytes) body interleaved/corrupted at body offset %d' % (tid, seq, HDR + size, at)
            if body[at:at + 4] == MAGIC and at + HDR <= len(body):
                t2, s2, z2 = struct.unpack('>BII', body[at + 4:at + HDR])
                what += ': the header of message tid=%d seq=%d (%d bytes) is spliced in there' % (t2, s2, HDR + z2)
            problems.append(what)
        if tid not in plans or seq >= counts[tid] or plans[tid][seq] != size:
            problems.append('message tid=%d seq=%d size=%d was never pushed' % (tid, seq, size))
        else:
            last = seqs.get(tid, -1)
            if seq != last + 1:
                problems.append('pusher %d: seq %d after %d (%s)' % (tid, seq, last, 'duplicate/reordered' if seq <= last else 'gap'))
            seqs[tid] = seq
            if whole:
                if HDR + size >= LARGE_MIN:
                    large_ok += 1
                if HDR + size >= HUGE_MIN:
                    huge_ok += 1
                if tid in loop_ok:
                    loop_ok[tid] += 1
        nparsed += 1
        p += HDR + size
    res['messages_parsed'] = nparsed
    res['messages_expected'] = sum(counts.values())
    res['problems'] = problems
    res['large_planned'] = n_large_planned
    res['large_delivered'] = large_ok
    res['huge_delivered'] = huge_ok
    res['large_pushed_while_loop_thread_pushing'] = large_under_loop_pushes[0]
    res['loop_thread_pushes'] = pushed[TID_L]
    res['loop_thread_pushes_delivered'] = loop_ok[TID_L]
    res['read_callback_pushes'] = pushed[TID_E]
    res['read_callback_pushes_delivered'] = loop_ok[TID_E]
    res['echo_bytes_sent_by_peer'] = state['echoed']
    json.dump(res, open(out, 'w'))


if __name__ == '__main__':
    main()
    sys.stdout.flush()
    import os
    os._exit(0)
