"""Differential worker for C07.  Runs under ONE build of the driver (sys.argv[1] = directory that
contains the ``cassandra`` package: a compiled scratch build, or the pure-Python repository),
decodes every case of the pickled case file (sys.argv[2]) and writes one canonical result line
per case to sys.argv[3].  Never judges anything itself.
"""
import json
import pickle
import sys
import traceback

root, case_file, out_file = sys.argv[1], sys.argv[2], sys.argv[3]
sys.path.insert(0, root)

import datetime      # noqa: E402
import decimal       # noqa: E402
import uuid          # noqa: E402


def canon(x, depth=0):
    if x is None:
        return 'N'
    t = type(x).__name__
    if isinstance(x, bool):
        return 'B:%r' % x
    if isinstance(x, int):
        return 'i:%d' % x
    if isinstance(x, float):
        return 'f:nan' if x != x else 'f:' + x.hex()
    if isinstance(x, (bytes, bytearray, memoryview)):
        return 'b:' + bytes(x).hex()
    if isinstance(x, str):
        return 's:' + repr(x)
    if isinstance(x, decimal.Decimal):
        return 'D:' + repr(tuple(x.as_tuple()))
    if isinstance(x, uuid.UUID):
        return 'U:' + x.hex
    if isinstance(x, (datetime.datetime, datetime.date, datetime.time)):
        return t + ':' + x.isoformat()
    if isinstance(x, (list, tuple)):
        names = ','.join(getattr(x, '_fields', ())) if hasattr(x, '_fields') else ''
        return '%s(%s)[%s]' % ('list' if isinstance(x, list) else ('namedtuple' if names else 'tuple'), names, ','.join(canon(e, depth + 1) for e in x))
    if hasattr(x, '_items') and hasattr(x, '_index'):          # OrderedMap / OrderedMapSerializedKey
        return 'omap{%s}' % ','.join('%s=>%s' % (canon(k, depth + 1), canon(v, depth + 1)) for k, v in list(x._items))
    if t.lower() == 'sortedset':
        return 'sset[%s]' % ','.join(canon(e, depth + 1) for e in x)
    if isinstance(x, dict):
        return 'dict{%s}' % ','.join('%s=>%s' % (canon(k, depth + 1), canon(v, depth + 1)) for k, v in x.items())
    for attrs in (('days_from_epoch',), ('nanosecond_time',), ('months', 'days', 'nanoseconds')):
        if all(hasattr(x, a) for a in attrs):
            return t + ':' + ','.join(str(getattr(x, a)) for a in attrs)
    return t + ':' + repr(x)


def main():
    import cassandra
    from cassandra import protocol as P, cqltypes as C, metadata as M, murmur3 as PM
    info = {'protocol_file': P.__file__, 'cqltypes_file': C.__file__, 'have_cython': bool(getattr(P, 'HAVE_CYTHON', False)),
            'lazy': P.LazyProtocolHandler is not None}
    try:
        import cassandra.cmurmur3 as CM
        info['cmurmur3_file'] = CM.__file__
    except ImportError:
        CM = None
        info['cmurmur3_file'] = None
    try:
        import cassandra.deserializers as D
        info['deserializers_file'] = D.__file__
    except ImportError:
        info['deserializers_file'] = None
    with open(case_file, 'rb') as f:
        cases = pickle.load(f)
    out = open(out_file, 'w')
    out.write(json.dumps({'info': info}) + '\n')
    handlers = [('list', P.ProtocolHandler)]
    if P.LazyProtocolHandler is not None:
        handlers.append(('lazy', P.LazyProtocolHandler))
    for idx, case in enumerate(cases):
        kind = case[0]
        res = {}
        try:
            if kind == 'rows':
                _, pv, body, desc_md = case
                md = None
                if desc_md is not None:
                    md = [(ks, tb, nm, C.lookup_casstype(d)) for ks, tb, nm, d in desc_md]
                for hname, h in handlers:
                    try:
                        msg = h.decode_message(pv, {}, 0, 0, 0x08, body, None, md)
                        rows = list(msg.parsed_rows)
                        res[hname] = 'ok|%s|%s|%s' % (canon(list(msg.column_names)), canon(msg.paging_state), canon([tuple(r) for r in rows]))
                    except Exception as e:
                        res[hname] = 'exc|' + type(e).__name__
            elif kind == 'value':
                _, desc, pv, data = case
                try:
                    t = C.lookup_casstype(desc)
                    v = t.from_binary(data, pv)
                    res['dec'] = 'ok|' + canon(v)
                    try:
                        res['reenc'] = 'ok|' + bytes(t.to_binary(v, pv)).hex()
                    except Exception as e:
                        res['reenc'] = 'exc|' + type(e).__name__
                except Exception as e:
                    res['dec'] = 'exc|' + type(e).__name__
            elif kind == 'murmur':
                _, key = case
                res['pure'] = str(PM.murmur3(key))
                res['token'] = str(M.Murmur3Token.hash_fn(key))
                res['from_key'] = str(M.Murmur3Token.from_key(key).value)
                if CM is not None:
                    res['c'] = str(CM.murmur3(key))
            elif kind == 'marshal':
                _, fn, arg = case
                from cassandra import marshal as MS
                try:
                    r = getattr(MS, fn)(arg)
                    res['r'] = 'ok|' + canon(r)
                except Exception as e:
                    res['r'] = 'exc|' + type(e).__name__
        except Exception as e:       # worker-level problem: make it visible, the parent treats it as inconclusive
            res['worker_error'] = traceback.format_exc()[-400:]
        out.write(json.dumps(res, sort_keys=True) + '\n')
    out.close()


if __name__ == '__main__':
    main()
