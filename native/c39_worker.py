"""Compiled-decoder worker for C39.  Runs under a compiled scratch build of the driver (sys.argv[1] = directory containing
the built ``cassandra`` package), rebuilds a fresh AES256ColumnEncryptionPolicy for every job of the pickled job file
(sys.argv[2]) and decodes the job's RESULT/ROWS body with the compiled list handler and the compiled lazy handler, the way
Session configures them (subclass with ``column_encryption_policy``).  Writes a pickled list of results to sys.argv[3]:
[info, {'list': rows | ('error', text), 'lazy': ...}, ...].  Never judges anything.
"""
import pickle
import sys

root, job_file, out_file = sys.argv[1], sys.argv[2], sys.argv[3]
sys.path.insert(0, root)


def main():
    from cassandra import protocol as P, cqltypes as C
    from cassandra.column_encryption.policies import AES256ColumnEncryptionPolicy
    from cassandra.policies import ColDesc
    import cassandra.obj_parser as OP
    info = {'have_cython': bool(getattr(P, 'HAVE_CYTHON', False)), 'lazy': P.LazyProtocolHandler is not None,
            'obj_parser_file': OP.__file__, 'protocol_file': P.__file__}
    with open(job_file, 'rb') as f:
        jobs = pickle.load(f)
    out = [info]
    n = 0
    for job in jobs:
        res = {}
        try:
            policy = AES256ColumnEncryptionPolicy(iv=job['iv']) if job['iv'] is not None else AES256ColumnEncryptionPolicy()
            for ks, table, col, key, tname in job['registered']:
                policy.add_column(ColDesc(ks, table, col), key, tname)
            md = [(ks, table, col, C._cqltypes[tname]) for ks, table, col, tname in job['result_md']] if job['no_md'] else None
            for label, base in (('list', P.ProtocolHandler), ('lazy', P.LazyProtocolHandler)):
                n += 1
                h = type('C39W%d' % n, (base,), {'column_encryption_policy': policy})
                try:
                    msg = h.decode_message(job['pv'], {}, 1, 0, 0x08, job['body'], None, md)
                    rows = msg.parsed_rows
                    res[label] = [tuple(r) for r in rows] if rows is not None else None
                except Exception as e:
                    res[label] = ('error', '%s: %s' % (type(e).__name__, str(e)[:300]))
        except Exception as e:
            res['setup'] = ('error', '%s: %s' % (type(e).__name__, str(e)[:300]))
        out.append(res)
    with open(out_file, 'wb') as f:
        pickle.dump(out, f)


main()
