#!/venv/bin/python
"""Offline build of the driver's compiled extensions from a copy of the working tree.

    build_ext.py <repo> <outdir> [--sanitize] [--only m1,m2]

Copies <repo>/cassandra to <outdir>/cassandra and builds in place there:
  * the .py modules setup.py cythonizes (the list is read from setup.py's source),
  * every cassandra/*.pyx except numpy_parser.pyx (numpy is absent, upstream skips it then),
  * cassandra/cmurmur3.c.
setup.py itself cannot run offline (ez_setup downloads setuptools).  With --sanitize the C
code is compiled with the interpreter's own CFLAGS plus -fsanitize=address,undefined.
Prints the list of built modules; exit 0 iff cmurmur3 and all .pyx modules were built.
"""
import ast
import glob
import os
import re
import shutil
import sys
import sysconfig


def candidates_from_setup(repo):
    src = open(os.path.join(repo, "setup.py")).read()
    m = re.search(r"cython_candidates\s*=\s*(\[[^\]]*\])", src)
    return ast.literal_eval(m.group(1)) if m else []


def main():
    repo, out = sys.argv[1], sys.argv[2]
    sanitize = "--sanitize" in sys.argv
    only = None
    for a in sys.argv[3:]:
        if a.startswith("--only="):
            only = a.split("=", 1)[1].split(",")
    if os.path.exists(out):
        shutil.rmtree(out)
    os.makedirs(out)
    shutil.copytree(os.path.join(repo, "cassandra"), os.path.join(out, "cassandra"),
                    ignore=shutil.ignore_patterns("__pycache__", "*.pyc", "*.so"))
    os.chdir(out)
    from setuptools import Extension
    from setuptools.dist import Distribution
    from Cython.Build import cythonize

    opt = "-O1" if sanitize else "-O2"
    for a in sys.argv[3:]:
        if a.startswith("--opt="):
            opt = a.split("=", 1)[1]
    extra = ["-Wno-unused-function", "-w", opt]
    link = []
    if sanitize:
        extra += ["-fsanitize=address,undefined", "-fno-sanitize-recover=all", "-fno-omit-frame-pointer", "-g"]
        link += ["-fsanitize=address,undefined"]
    pys = candidates_from_setup(repo)
    pyx = sorted(os.path.basename(p)[:-4] for p in glob.glob("cassandra/*.pyx") if not p.endswith("numpy_parser.pyx"))
    if only:
        pys = [m for m in pys if m in only]
        pyx = [m for m in pyx if m in only]
    exts = [Extension("cassandra.%s" % m, ["cassandra/%s.py" % m], extra_compile_args=extra, extra_link_args=link) for m in pys]
    exts += [Extension("cassandra.%s" % m, ["cassandra/%s.pyx" % m], extra_compile_args=extra, extra_link_args=link) for m in pyx]
    mods = cythonize(exts, nthreads=int(os.environ.get("VERIF_BUILD_JOBS", "16")), exclude_failures=True, quiet=True,
                     compiler_directives={"language_level": 3} if False else {})
    if not only or "cmurmur3" in only:
        # cmurmur3.c relies on C99 'inline' helpers being inlined: below -O2 gcc emits no body for them
        # (undefined symbol rotl64 at import), so this module is always built at the optimisation level wheels use
        mods.append(Extension("cassandra.cmurmur3", ["cassandra/cmurmur3.c"],
                              extra_compile_args=[a for a in extra if a not in ("-O0", "-O1")] + ["-O2"], extra_link_args=link))
    dist = Distribution({"name": "x", "ext_modules": mods})
    cmd = dist.get_command_obj("build_ext")
    cmd.inplace = True
    cmd.parallel = int(os.environ.get("VERIF_BUILD_JOBS", "16"))
    cmd.build_temp = os.path.join(out, "_build_tmp")
    cmd.ensure_finalized()
    cmd.run()
    shutil.rmtree(os.path.join(out, "_build_tmp"), ignore_errors=True)
    for c in glob.glob("cassandra/*.c"):
        if not c.endswith("cmurmur3.c"):
            os.remove(c)
    built = sorted(os.path.basename(p).split(".")[0] for p in glob.glob("cassandra/*.so"))
    print("BUILT " + " ".join(built))
    need = set(pyx) | ({"cmurmur3"} if (not only or "cmurmur3" in only) else set())
    missing = need - set(built)
    if missing:
        print("MISSING " + " ".join(sorted(missing)))
        return 1
    return 0


if __name__ == "__main__":
    sys.exit(main())
