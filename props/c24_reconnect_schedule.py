"""C24 - reconnection schedules respect their delay bounds and attempt limits.

Monitor: every schedule item produced by the real policies is observed and judged against
the bound it must satisfy; the real ``_ReconnectionHandler`` is driven to exhaustion on a
recording scheduler and the number of attempts is compared with the attempt limit.
"""
import itertools
from fractions import Fraction

PROPERTY = "C24"
LEVEL = "exploration"

N_ITEMS = 2000


def _frac(x):
    return Fraction(x)


def check_constant(ctx, delay, max_attempts):
    from cassandra.policies import ConstantReconnectionPolicy
    pol = ConstantReconnectionPolicy(delay, max_attempts=max_attempts)
    key = ("const", repr(delay), max_attempts)
    ctx.case(key, nontrivial=True)
    for rep in range(2):  # a policy must be able to hand out several schedules
        it = iter(pol.new_schedule())
        items = list(itertools.islice(it, N_ITEMS + 1))
        ctx.count("schedule_items_observed", len(items))
        if max_attempts is None:
            if len(items) < N_ITEMS + 1:
                ctx.violation("unlimited-schedule-ends", "constant schedule without limit ended after %d items" % len(items),
                              {"delay": delay, "max_attempts": None, "items": len(items)})
        else:
            want = min(max_attempts, N_ITEMS + 1)
            if len(items) != want:
                mech = "constant-max-attempts-zero-unbounded" if max_attempts == 0 else "constant-attempt-count"
                ctx.violation(mech, "constant schedule with max_attempts=%r yielded %s%d items" % (
                    max_attempts, ">=" if len(items) > N_ITEMS else "", len(items)),
                    {"delay": delay, "max_attempts": max_attempts, "items": len(items)})
        bad = [x for x in items if x != delay]
        if bad:
            ctx.violation("constant-delay-value", "constant schedule yielded %r instead of %r" % (bad[0], delay),
                          {"delay": delay, "max_attempts": max_attempts})
    return len(items)


def check_exponential(ctx, base, mx, max_attempts):
    from cassandra.policies import ExponentialReconnectionPolicy
    pol = ExponentialReconnectionPolicy(base, mx, max_attempts=max_attempts)
    key = ("exp", repr(base), repr(mx), max_attempts)
    ctx.case(key, nontrivial=True)
    fb, fm = _frac(base), _frac(mx)
    try:
        it = iter(pol.new_schedule())
        items = list(itertools.islice(it, N_ITEMS + 1))
    except Exception as e:  # "no attempt index overflows"
        ctx.violation("exponential-schedule-raises", "exponential schedule raised %s: %s" % (type(e).__name__, e),
                      {"base": base, "max": mx, "max_attempts": max_attempts})
        return 0
    ctx.count("schedule_items_observed", len(items))
    if max_attempts is None:
        if len(items) < N_ITEMS + 1:
            ctx.violation("unlimited-schedule-ends", "exponential schedule without limit ended after %d items" % len(items),
                          {"base": base, "max": mx})
    else:
        want = min(max_attempts, N_ITEMS + 1)
        if len(items) != want:
            ctx.violation("exponential-attempt-count", "exponential schedule max_attempts=%r yielded %d items" % (max_attempts, len(items)),
                          {"base": base, "max": mx, "max_attempts": max_attempts, "items": len(items)})
    for i, x in enumerate(items):
        c = min(fb * (2 ** i), fm)
        lo = max(fb, c * Fraction(85, 100))
        hi = min(fm, c * Fraction(115, 100))
        fx = _frac(x)
        # tolerance: a few ulps of float arithmetic on (jitter*value)/100
        tol = abs(c) * Fraction(1, 10 ** 12)
        if not (lo - tol <= fx <= hi + tol):
            mech = "exponential-delay-out-of-band"
            if i >= 1024 and isinstance(base, float) and fx == fm and fb * (2 ** i) < fm:
                # float(2**i) overflows although base*2**i is still below max (base 0.0 or denormal)
                mech = "exponential-overflow-fallback-with-tiny-base"
            ctx.violation(mech,
                          "item %d = %r outside [%s, %s] (base=%r max=%r)" % (i, x, float(lo), float(hi), base, mx),
                          {"base": base, "max": mx, "i": i, "value": x})
            break
        if fx < fb or fx > fm:
            ctx.violation("exponential-delay-outside-base-max", "item %d = %r outside [base,max]" % (i, x),
                          {"base": base, "max": mx, "i": i, "value": x})
            break
        ctx.count("band_checks")
    # one policy object serves every reconnector of a cluster: a schedule taken after another one was consumed (possibly far past the
    # float overflow of base * 2 ** i) starts from the base again
    second = list(itertools.islice(iter(pol.new_schedule()), 6))
    want2 = 6 if max_attempts is None else min(6, max_attempts)
    if len(second) != want2:
        ctx.violation("later-schedule-of-the-same-policy-has-wrong-length", "second schedule of one policy object yielded %d items, expected %d" % (
            len(second), want2), {"base": base, "max": mx, "max_attempts": max_attempts})
    for i, x in enumerate(second):
        c = min(fb * (2 ** i), fm)
        lo = max(fb, c * Fraction(85, 100))
        hi = min(fm, c * Fraction(115, 100))
        tol = abs(c) * Fraction(1, 10 ** 12)
        ctx.count("band_checks_on_a_later_schedule_of_the_same_policy")
        if not (lo - tol <= _frac(x) <= hi + tol):
            ctx.violation("later-schedule-of-the-same-policy-off-the-curve", "second schedule of one policy object (first one consumed for %d items): "
                          "item %d = %r outside [%s, %s] (base=%r max=%r)" % (len(items), i, x, float(lo), float(hi), base, mx),
                          {"base": base, "max": mx, "i": i, "value": x, "first_schedule_items_consumed": len(items)})
            break
    return len(items)


class RecScheduler(object):
    def __init__(self):
        self.pending = []
        self.scheduled = []

    def schedule(self, delay, fn, *a, **kw):
        self.pending.append((delay, fn, a, kw))
        self.scheduled.append(delay)


def check_handler(ctx, policy, max_attempts, label):
    """Drive the real _ReconnectionHandler with an always-failing reconnect to exhaustion."""
    from cassandra.pool import _ReconnectionHandler
    attempts = []

    class H(_ReconnectionHandler):
        def try_reconnect(self):
            attempts.append(1)
            raise OSError("refused")

    sched = RecScheduler()
    called = []
    sch = policy.new_schedule()
    h = H(sched, iter(sch), lambda: called.append(1))
    try:
        h.start()
    except StopIteration:
        ctx.count("handler_start_stopiteration_on_empty_schedule")
    steps = 0
    cap = 300
    while sched.pending and steps < cap:
        delay, fn, a, kw = sched.pending.pop(0)
        fn(*a, **kw)
        steps += 1
    ctx.case(("handler", label, max_attempts), nontrivial=True)
    ctx.count("handler_attempts_observed", len(attempts))
    if max_attempts is None or max_attempts >= cap:
        if steps < cap:
            ctx.violation("handler-unlimited-stops", "reconnection handler stopped after %d attempts without a limit" % len(attempts),
                          {"policy": label})
    else:
        if len(attempts) != max_attempts:
            mech = "constant-max-attempts-zero-unbounded" if (max_attempts == 0 and label.startswith("const")) else "handler-attempt-count"
            ctx.violation(mech, "handler made %s%d attempts with max_attempts=%d (%s)" % (
                ">=" if steps >= cap else "", len(attempts), max_attempts, label), {"policy": label, "attempts": len(attempts)})
    if called:
        ctx.violation("handler-callback-without-success", "success callback ran although every attempt failed", {"policy": label})


def run(ctx):
    ctx.rule = ("grid + seeded random (delay|base,max) x max_attempts in {None,0,1,2,3,64,2000,...}; first %d items of "
                "each schedule judged item by item; distinct = (policy class, parameters); all non-trivial" % N_ITEMS)
    from cassandra.policies import ConstantReconnectionPolicy, ExponentialReconnectionPolicy
    rng = ctx.rng
    attempts_pool = [None, 0, 1, 2, 3, 7, 64, 1999, 2000, 2001, 5000]
    delays = [0, 0.0, 0.001, 0.5, 1, 1.0, 2.5, 3, 10, 600, 1e9, 10 ** 12]
    for d in delays:
        for ma in attempts_pool:
            check_constant(ctx, d, ma)
    bases = [0, 0.0, 0.001, 0.1, 0.5, 1, 1.0, 2, 3.7, 10, 1e6, 10 ** 9]
    for b in bases:
        for m in [b, b * 2, b + 1, b * 1000 + 0.5, 600, 1e12, 10 ** 15]:
            if m < b:
                continue
            for ma in attempts_pool:
                check_exponential(ctx, b, m, ma)
    n_random = ctx.scale(600, 40000)
    for _ in range(n_random):
        if rng.random() < 0.3:
            d = rng.choice([rng.randint(0, 1000), rng.random() * rng.choice([1, 10, 1e3, 1e9])])
            ma = rng.choice(attempts_pool + [rng.randint(0, 3000)])
            check_constant(ctx, d, ma)
        else:
            b = rng.choice([rng.randint(0, 100), rng.random() * rng.choice([1e-3, 1, 10, 1e3, 1e6])])
            m = b + rng.choice([0, rng.randint(0, 10000), rng.random() * rng.choice([1, 100, 1e6, 1e12])])
            ma = rng.choice(attempts_pool + [rng.randint(0, 3000)])
            check_exponential(ctx, b, m, ma)
    for ma in [0, 1, 2, 3, 5, 64, None]:
        check_handler(ctx, ConstantReconnectionPolicy(1.0, max_attempts=ma), ma, "const(1.0)")
        check_handler(ctx, ExponentialReconnectionPolicy(0.5, 8.0, max_attempts=ma), ma, "exp(0.5,8.0)")
        check_handler(ctx, ExponentialReconnectionPolicy(1, 600, max_attempts=ma), ma, "exp(1,600)")
    ctx.sample({"policy": "ExponentialReconnectionPolicy(0.5, 8.0, 6)",
                "items": list(ExponentialReconnectionPolicy(0.5, 8.0, 6).new_schedule())})
    ctx.sample({"policy": "ConstantReconnectionPolicy(2.5, 3)", "items": list(ConstantReconnectionPolicy(2.5, 3).new_schedule())})
    ctx.assume("delays are bounded by 1e15 s: (jitter * delay) overflowing a double near 1e306 is outside the bounded ranges of the property")
    ctx.floor_distinct = 300
    ctx.floor_counters = {"schedule_items_observed": 10000, "band_checks": 5000, "handler_attempts_observed": 100}
