"""C21 - load-balancing plans reflect the live cluster membership.

Monitor: the real built-in policies (RoundRobin, DCAwareRoundRobin, WhiteListRoundRobin, HostFilter over
each, Default / DSE over each, TokenAware over each without routing key) receive membership events in the
order and shape ``Cluster`` / ``ControlConnection`` / ``ProfileManager`` deliver them:

  flow "connect"      populate(contact points, datacenter unknown)  ->  location update of the connected
                      host (= on_down, set_location_info, on_up)  ->  one peers row after the other
                      (known host: location update; new host: on_add)  ->  contact points missing from
                      the peers are removed  ->  steady-state events
  flow "add-profile"  populate(metadata.all_hosts(), datacenters known, insertion order) followed by
                      on_up(h) for every host that is up (Cluster.add_execution_profile)  ->  steady state
  steady state        on_down / on_up / on_add (new or re-tried) / on_remove / dc-rack change; every
                      callback delivered 1, 2 or 4 times in a row (profiles sharing one policy object)

A reference membership model is updated by the same events.  After EVERY event K consecutive plans are
taken and judged: no host twice; only live, non-excluded hosts; every live non-ignored host present;
DCAware: live local hosts first, then <= used_hosts_per_remote_dc per remote datacenter (exactly
min(n, live) without a filter), and distance(h) consistent with the position of h in the plan.
"""
import random as _global_random
import warnings

PROPERTY = "C21"
LEVEL = "exploration"
ENGINE = "spec"
TECHNIQUE = "runtime oracle over observed plans: reference membership model driven by the same event sequence"
LEVEL_TEXT = ("seeded exploration of event histories (<= 6 hosts, <= 3 DCs, <= 14 events after start-up) x every constructor parameter "
              "x wrapper stacks, each state judged against a sequential membership model; the policies are sequential state machines "
              "driven by callbacks, so history exploration with a model oracle is the right level (thread interleavings of the "
              "callbacks are not explored: the driver serialises them per host and treats _position as best-effort)")
LEVEL_NOTE = ("trusted base: the 40-line membership model in this module and the event shapes read from cassandra/cluster.py "
              "(connect, add_execution_profile, on_up/on_down/on_add/on_remove, ControlConnection._update_location_info)")
QUICK_WORKERS = 4
WORKERS = 12

K_PLANS = 3
KNOWN_GROUPBY = "dcaware-populate-groupby-loses-split-datacenter-run"
KNOWN_STALE = "dcaware-unknown-dc-bucket-stale-after-local-dc-inference"
DCS = ("dc1", "dc2", "dc3")


class Query(object):
    def __init__(self, target_host=None):
        self.routing_key = None
        self.keyspace = None
        if target_host is not None:
            self.target_host = target_host


class FakeCluster(object):
    """What the policies read from the Cluster: .metadata and .endpoints_resolved (contact points)."""
    def __init__(self, metadata, endpoints):
        self.metadata = metadata
        self.endpoints_resolved = endpoints


# ----------------------------------------------------------------------------------------------------
# policy stacks
# ----------------------------------------------------------------------------------------------------
def random_stack(rng, addresses):
    r = rng.random()
    if r < 0.2:
        base = ("rr",)
    elif r < 0.8:
        base = ("dc", rng.choice(["", "", "", "dc1", "dc1", "dc2", "dc3", "dc_nowhere"]), rng.choice([0, 0, 1, 1, 2, 3]))
    else:
        allowed = tuple(sorted(a for a in addresses if rng.random() < 0.6))
        if rng.random() < 0.3:
            allowed = allowed + ("10.99.0.1",)
        # the user may spell an allowed host differently from Host.address (a name, a non-canonical literal):
        # the policy resolves its list with getaddrinfo; the reference membership is by RESOLVED address
        spelled = tuple(spell(a, rng) if rng.random() < 0.5 else a for a in allowed)
        base = ("wl", spelled, resolve_all(spelled))
    wrappers = rng.choice([(), (), ("hf",), ("default",), ("dse",), ("ta",), ("hf", "default"), ("hf", "ta"), ("ta", "hf"),
                           ("hf", "dse"), ("ta", "default")])
    preds = []
    for w in wrappers:
        if w == "hf":
            kind = rng.choice(["addr", "addr", "dc", "rack", "all", "none"])
            if kind == "addr":
                preds.append(("addr", tuple(sorted(a for a in addresses if rng.random() < 0.7))))
            elif kind == "dc":
                preds.append(("not-dc", rng.choice(DCS)))
            elif kind == "rack":
                preds.append(("not-rack", rng.choice(["r1", "r2"])))
            else:
                preds.append((kind,))
    shuffle = rng.random() < 0.5
    return {"base": base, "wrappers": wrappers, "preds": tuple(preds), "ta_shuffle": shuffle}


_SPELLINGS = {"127.0.0.1": ("localhost", "127.1", "0x7f.1", "127.0.1", "2130706433"),
              "::1": ("::0:1", "0:0:0:0:0:0:0:1", "::0001")}
_RESOLVED = {}


def resolve(name):
    """What the operating system makes of one white-list entry (no DNS needed for the spellings used here)."""
    import socket
    if name not in _RESOLVED:
        _RESOLVED[name] = frozenset(e[4][0] for e in socket.getaddrinfo(name, None, socket.AF_UNSPEC, socket.SOCK_STREAM))
    return _RESOLVED[name]


def resolve_all(names):
    out = set()
    for n in names:
        out |= resolve(n)
    return tuple(sorted(out))


def spell(addr, rng):
    """Another way of writing ``addr`` that resolves to it offline; falls back to ``addr`` itself."""
    options = list(_SPELLINGS.get(addr, ()))
    parts = addr.split(".")
    if len(parts) == 4 and all(p.isdigit() for p in parts):
        a, b, c, d = [int(p) for p in parts]
        options += ["%d.%d.%d" % (a, b, c * 256 + d), "0x%x.%d.%d.%d" % (a, b, c, d), str((a << 24) | (b << 16) | (c << 8) | d)]
    rng.shuffle(options)
    for o in options:
        try:
            if addr in resolve(o):
                return o
        except OSError:
            continue
    return addr


def predicate_fn(p):
    if p[0] == "addr":
        allowed = set(p[1])
        return lambda h: h.address in allowed
    if p[0] == "not-dc":
        return lambda h: h.datacenter != p[1]
    if p[0] == "not-rack":
        return lambda h: h.rack != p[1]
    if p[0] == "all":
        return lambda h: True
    return lambda h: False


def build_policy(stack):
    from cassandra.policies import (RoundRobinPolicy, DCAwareRoundRobinPolicy, WhiteListRoundRobinPolicy, HostFilterPolicy,
                                    DefaultLoadBalancingPolicy, DSELoadBalancingPolicy, TokenAwarePolicy)
    base = stack["base"]
    if base[0] == "rr":
        pol = RoundRobinPolicy()
    elif base[0] == "dc":
        if base[1] == "" and base[2] == 0:
            pol = DCAwareRoundRobinPolicy()
        else:
            pol = DCAwareRoundRobinPolicy(local_dc=base[1], used_hosts_per_remote_dc=base[2])
    else:
        pol = WhiteListRoundRobinPolicy(list(base[1]))
    base_pol = pol
    preds = list(stack["preds"])
    fns = []
    for w in stack["wrappers"]:
        if w == "hf":
            fn = predicate_fn(preds.pop(0))
            fns.append(fn)
            pol = HostFilterPolicy(pol, fn)
        elif w == "default":
            pol = DefaultLoadBalancingPolicy(pol)
        elif w == "dse":
            with warnings.catch_warnings():
                warnings.simplefilter("ignore")
                pol = DSELoadBalancingPolicy(pol)
        elif w == "ta":
            pol = TokenAwarePolicy(pol, shuffle_replicas=stack["ta_shuffle"])
    return pol, base_pol, fns


# ----------------------------------------------------------------------------------------------------
# harness: delivers events the way Cluster does, keeps the reference model, judges plans
# ----------------------------------------------------------------------------------------------------
class Harness(object):
    def __init__(self, ctx, stack, flow, mult, contact_addrs):
        from cassandra.metadata import Metadata
        from cassandra.connection import DefaultEndPoint
        self.ctx = ctx
        self.stack = stack
        self.flow = flow
        self.mult = mult
        self.policy, self.base_policy, self.pred_fns = build_policy(stack)
        self.metadata = Metadata()
        self.cluster = FakeCluster(self.metadata, [DefaultEndPoint(a) for a in contact_addrs])
        self.contact_addrs = set(contact_addrs)
        self.hosts = {}            # address -> current Host object (also after removal, for distance checks)
        self.live = set()          # reference model: addresses the policy must consider live
        self.log = []
        self.sig = []
        # reference model of DCAware's notion of "local"
        self.ctor_local_dc = stack["base"][1] if stack["base"][0] == "dc" else None
        self.model_local_dc = self.ctor_local_dc
        self.n_remote = stack["base"][2] if stack["base"][0] == "dc" else 0
        # mechanism classification flags (see the two known findings)
        self.groupby_candidates = set()
        self.stale_candidates = set()
        self.reported = set()

    # -- helpers -----------------------------------------------------------------------------
    def new_host(self, addr, dc, rack):
        from cassandra.pool import Host
        from cassandra.policies import SimpleConvictionPolicy
        h = Host(addr, SimpleConvictionPolicy, dc, rack)
        # Cluster assigns broadcast_rpc_address in the same refresh that delivers the event
        h.broadcast_rpc_address = addr
        h.broadcast_rpc_port = 9042
        self.hosts[addr] = h
        self.metadata.add_or_return_host(h)
        return h

    def _deliver(self, name, host):
        fn = getattr(self.policy, name)
        for _ in range(self.mult):
            fn(host)
        self.ctx.count("callbacks_delivered", self.mult)

    def _model_infer(self, host):
        # "the driver will choose a local_dc based on the first host among contact_points having a valid DC"
        if self.ctor_local_dc == "" and self.model_local_dc == "" and host.datacenter and host.address in self.contact_addrs:
            self.model_local_dc = host.datacenter
            self.ctx.count("local_dc_inferences")
            # classification flag: hosts the policy filed under the unknown-DC key before it knew its local DC
            self.stale_candidates = set(a for a in self.live if self.hosts[a].datacenter is None and a != host.address)

    def _touch(self, addr):
        self.groupby_candidates.discard(addr)

    # -- events, in the shape Cluster delivers them ------------------------------------------------
    def ev_populate(self, hosts):
        hosts = list(hosts)
        for _ in range(self.mult):
            self.policy.populate(self.cluster, hosts)
        self.live = set(h.address for h in hosts)
        self.log.append("populate(%s)" % ", ".join("%s@%s" % (h.address, h.datacenter) for h in hosts))
        self.sig.append(("populate", tuple((h.address, h.datacenter) for h in hosts)))
        if self.stack["base"][0] == "dc":
            keys = [(h.datacenter or self.ctor_local_dc) for h in hosts]
            last_run_start = {}
            i = 0
            while i < len(keys):
                j = i
                while j + 1 < len(keys) and keys[j + 1] == keys[i]:
                    j += 1
                last_run_start[keys[i]] = i
                i = j + 1
            self.groupby_candidates = set()
            i = 0
            while i < len(keys):
                j = i
                while j + 1 < len(keys) and keys[j + 1] == keys[i]:
                    j += 1
                if last_run_start[keys[i]] != i:
                    self.groupby_candidates.update(h.address for h in hosts[i:j + 1])
                i = j + 1
            if self.groupby_candidates:
                self.ctx.count("populates_with_split_datacenter_runs")
        self.judge("populate")

    def ev_up(self, h, set_state=True):
        self._deliver("on_up", h)
        if set_state:
            h.set_up()
        self.live.add(h.address)
        self._touch(h.address)
        self._model_infer(h)
        self.log.append("on_up(%s@%s)" % (h.address, h.datacenter))
        self.sig.append(("up", h.address, h.datacenter))
        self.judge("on_up")

    def ev_down(self, h):
        h.set_down()
        self._deliver("on_down", h)
        self.live.discard(h.address)
        self._touch(h.address)
        self.log.append("on_down(%s@%s)" % (h.address, h.datacenter))
        self.sig.append(("down", h.address, h.datacenter))
        self.judge("on_down")

    def ev_add(self, h):
        from cassandra.policies import HostDistance
        ignored = self.policy.distance(h) == HostDistance.IGNORED
        self._deliver("on_add", h)
        if not ignored:
            h.set_up()
        self.live.add(h.address)
        self._touch(h.address)
        self._model_infer(h)
        self.log.append("on_add(%s@%s)" % (h.address, h.datacenter))
        self.sig.append(("add", h.address, h.datacenter))
        self.judge("on_add")

    def ev_remove(self, h):
        self.metadata.remove_host(h)
        h.set_down()
        self._deliver("on_remove", h)
        self.live.discard(h.address)
        self._touch(h.address)
        self.log.append("on_remove(%s@%s)" % (h.address, h.datacenter))
        self.sig.append(("remove", h.address, h.datacenter))
        self.judge("on_remove")

    def ev_location(self, h, dc, rack):
        """ControlConnection._update_location_info"""
        if h.datacenter == dc and h.rack == rack:
            return
        self._deliver("on_down", h)
        old = h.datacenter
        h.set_location_info(dc, rack)
        self._deliver("on_up", h)
        self.live.add(h.address)
        self._touch(h.address)
        self._model_infer(h)
        self.log.append("location(%s: %s -> %s/%s) = on_down, set_location_info, on_up" % (h.address, old, dc, rack))
        self.sig.append(("loc", h.address, old, dc, rack))
        self.ctx.count("location_updates")
        self.judge("location")

    # -- the oracle ------------------------------------------------------------------------------
    def eff_dc(self, h):
        return h.datacenter or self.model_local_dc

    def accepted(self, h):
        base = self.stack["base"]
        if base[0] == "wl" and h.address not in base[2]:
            return False
        return all(fn(h) for fn in self.pred_fns)

    def judge(self, after):
        from cassandra.policies import HostDistance
        ctx = self.ctx
        ctx.count("states_judged")
        base = self.stack["base"][0]
        if base == "dc":
            observed = self.base_policy.local_dc
            if observed != self.model_local_dc:
                self.report("local-dc-differs-from-first-located-contact-point", set(),
                            "policy.local_dc = %r, model %r" % (observed, self.model_local_dc), [])
        outer_targets = self.stack["wrappers"] and self.stack["wrappers"][-1] in ("default", "dse")
        for k in range(K_PLANS + (1 if outer_targets else 0)):
            if k < K_PLANS:
                q = None if k % 2 == 0 else Query()
                plan = [h.address for h in self.policy.make_query_plan(None, q)]
                self.check_plan(plan, after)
            else:
                self.check_target_plan(after)
        ctx.count("plans_judged", K_PLANS)

    def check_target_plan(self, after):
        from cassandra.policies import HostDistance
        ctx = self.ctx
        known = sorted(h.address for h in self.metadata.all_hosts())
        addr = ctx.rng.choice(known + ["10.99.0.7"]) if known else "10.99.0.7"
        plan = [h.address for h in self.policy.make_query_plan(None, Query(target_host=addr))]
        ctx.count("target_host_plans_judged")
        t = self.hosts.get(addr) if addr in known else None
        rest = plan
        if t is not None and t.is_up:
            if not plan or plan[0] != addr:
                self.report("target-host-not-first", {addr}, "target %s is up but the plan is %s" % (addr, plan), plan)
                return
            rest = plan[1:]
            if addr in rest:
                self.report("plan-repeats-host", {addr}, "target %s yielded twice: %s" % (addr, plan), plan)
                return
        want = set(a for a in self.live if self.policy.distance(self.hosts[a]) != HostDistance.IGNORED)
        if t is not None and t.is_up:
            want.discard(addr)
        if len(rest) != len(set(rest)):
            self.classify_and_report(("plan-repeats-host", set(a for a in rest if rest.count(a) > 1), "plan %s" % (plan,)), plan)
        elif set(rest) != want:
            self.classify_and_report(("target-plan-membership", set(rest) ^ want, "plan %s, live non-ignored hosts %s" % (
                plan, sorted(want))), plan)

    def check_plan(self, plan, after):
        from cassandra.policies import HostDistance
        ctx = self.ctx
        base = self.stack["base"][0]
        live = self.live
        H = self.hosts
        findings = []
        dups = set(a for a in plan if plan.count(a) > 1)
        if dups:
            findings.append(("plan-repeats-host", dups, "hosts %s appear more than once" % sorted(dups)))
        ghosts = set(a for a in plan if a not in live)
        if ghosts:
            findings.append(("plan-yields-host-that-is-not-live", ghosts, "hosts %s are not live according to the delivered events"
                             % sorted(ghosts)))
        excluded = set(a for a in plan if a in H and not self.accepted(H[a]))
        if excluded:
            findings.append(("plan-yields-excluded-host", excluded, "hosts %s are excluded by the white list / predicate"
                             % sorted(excluded)))
        plan_set = set(plan)
        local_part, remote_part = set(), set()
        if base in ("rr", "wl"):
            want = set(a for a in live if self.accepted(H[a]))
            missing = want - plan_set
            if missing:
                findings.append(("plan-misses-live-host", missing, "live hosts %s are not in the plan" % sorted(missing)))
            local_part = plan_set
        else:
            ldc = self.model_local_dc
            n = self.n_remote
            filtered = bool(self.pred_fns)
            want_local = set(a for a in live if self.eff_dc(H[a]) == ldc and self.accepted(H[a]))
            missing = want_local - plan_set
            if missing:
                findings.append(("plan-misses-live-local-host", missing, "live local hosts %s are not in the plan" % sorted(missing)))
            else:
                head = plan[:len(want_local)]
                if set(head) != want_local:
                    off = (set(head) - want_local) | (want_local - set(head))
                    findings.append(("dcaware-local-hosts-not-first", off, "first %d hosts %s, live local hosts %s" % (
                        len(want_local), head, sorted(want_local))))
            per_dc = {}
            for a in plan:
                if a in want_local:
                    local_part.add(a)
                    continue
                # (a host of the local datacenter that is not a live accepted local host lands here too;
                #  it is reported by the not-live / excluded checks above)
                remote_part.add(a)
                if a in H:
                    per_dc.setdefault(self.eff_dc(H[a]), []).append(a)
            live_by_dc = {}
            for a in live:
                d = self.eff_dc(H[a])
                if d != ldc:
                    live_by_dc.setdefault(d, set()).add(a)
            for d, members in per_dc.items():
                if d == ldc:
                    continue
                uniq = set(members)
                if len(uniq) > n:
                    findings.append(("dcaware-too-many-remote-hosts", uniq, "%d hosts of remote datacenter %s in the plan, "
                                     "used_hosts_per_remote_dc=%d" % (len(uniq), d, n)))
            if not filtered:
                for d, members in live_by_dc.items():
                    have = set(per_dc.get(d, ())) & members
                    need = min(n, len(members))
                    if len(have) < need:
                        findings.append(("dcaware-too-few-remote-hosts", members - have, "%d of %d live hosts of remote datacenter %s "
                                         "in the plan, used_hosts_per_remote_dc=%d" % (len(have), len(members), d, n),
                                         ("shortfall", d, len(have), n)))
        # distance() consistent with the plan
        bad_distance = {}
        for a, h in H.items():
            d = self.policy.distance(h)
            ctx.count("distance_evaluations")
            if base in ("rr", "wl"):
                want_d = HostDistance.LOCAL if self.accepted(h) else HostDistance.IGNORED
                if d != want_d:
                    bad_distance[a] = "distance %s, expected %s" % (d, want_d)
                continue
            if a in local_part and d != HostDistance.LOCAL:
                bad_distance[a] = "in the local part of the plan but distance %s" % d
            elif a in remote_part and d != HostDistance.REMOTE:
                bad_distance[a] = "in the remote part of the plan but distance %s" % d
            elif a not in plan_set and d == HostDistance.REMOTE:
                bad_distance[a] = "distance REMOTE but not in the plan"
            elif a not in plan_set and a in live and d != HostDistance.IGNORED:
                bad_distance[a] = "live, distance %s, but not in the plan" % d
            elif not self.accepted(h) and d != HostDistance.IGNORED:
                bad_distance[a] = "excluded by the predicate but distance %s" % d
        if bad_distance:
            findings.append(("distance-inconsistent-with-plan", set(bad_distance), "; ".join("%s: %s" % kv for kv in sorted(bad_distance.items()))))
        if remote_part:
            ctx.count("plans_with_remote_part")
        for f in findings:
            self.classify_and_report(f, plan)

    def classify_and_report(self, finding, plan):
        kind, offending, text = finding[0], finding[1], finding[2]
        extra = finding[3] if len(finding) > 3 else None
        base = self.stack["base"][0]
        mech = kind
        if base == "dc" and offending:
            inferred = self.ctor_local_dc == "" and self.model_local_dc != ""
            if inferred and offending <= self.stale_candidates:
                mech = KNOWN_STALE
            elif inferred and kind == "dcaware-too-many-remote-hosts" and len(offending - self.stale_candidates) <= self.n_remote \
                    and offending & self.stale_candidates:
                mech = KNOWN_STALE
            elif kind in ("plan-misses-live-local-host", "distance-inconsistent-with-plan", "target-plan-membership") \
                    and offending <= self.groupby_candidates \
                    and not (offending & set(plan)):
                mech = KNOWN_GROUPBY
            elif kind == "dcaware-too-few-remote-hosts" and extra is not None:
                _tag, d, have, n = extra
                members = set(a for a in self.live if self.eff_dc(self.hosts[a]) == d)
                # the policy's own view of that datacenter lacks (some of) the hosts lost at populate
                if offending & self.groupby_candidates and have >= min(n, len(members - self.groupby_candidates)):
                    mech = KNOWN_GROUPBY
        self.report(mech, offending, text, plan)

    def report(self, mech, offending, text, plan):
        if mech in self.reported:
            return
        self.reported.add(mech)
        witness = {"policy": describe(self.stack), "flow": self.flow, "callbacks_delivered_n_times": self.mult,
                   "contact_points": sorted(self.contact_addrs), "events": list(self.log), "plan": plan,
                   "model_live": sorted(self.live), "offending_hosts": sorted(offending),
                   "hosts": dict((a, "%s/%s up=%s" % (h.datacenter, h.rack, h.is_up)) for a, h in self.hosts.items())}
        self.ctx.violation(mech, "%s after %s: %s" % (describe(self.stack), self.log[-1] if self.log else "start", text), witness)


def describe(stack):
    b = stack["base"]
    if b[0] == "rr":
        s = "RoundRobinPolicy()"
    elif b[0] == "dc":
        s = "DCAwareRoundRobinPolicy(local_dc=%r, used_hosts_per_remote_dc=%d)" % (b[1], b[2])
    else:
        s = "WhiteListRoundRobinPolicy(%s)" % (list(b[1]),)
    preds = list(stack["preds"])
    for w in stack["wrappers"]:
        if w == "hf":
            s = "HostFilterPolicy(%s, %s)" % (s, preds.pop(0),)
        elif w == "default":
            s = "DefaultLoadBalancingPolicy(%s)" % s
        elif w == "dse":
            s = "DSELoadBalancingPolicy(%s)" % s
        else:
            s = "TokenAwarePolicy(%s, shuffle_replicas=%s)" % (s, stack["ta_shuffle"])
    return s


# ----------------------------------------------------------------------------------------------------
# sequence generation
# ----------------------------------------------------------------------------------------------------
def random_universe(rng):
    n = rng.randint(1, 6)
    n_dcs = rng.randint(1, 3)
    nodes = []
    for i in range(n):
        dc = DCS[rng.randrange(n_dcs)] if rng.random() < 0.7 else DCS[0]
        nodes.append(("10.0.%d.%d" % (DCS.index(dc) + 1, i + 1), dc, rng.choice(["r1", "r1", "r2"])))
    # some clusters live on the loopback addresses (what 'localhost' / '127.1' / '::0:1' resolve to)
    if rng.random() < 0.2:
        nodes[0] = ("127.0.0.1",) + nodes[0][1:]
        if len(nodes) > 1 and rng.random() < 0.5:
            nodes[1] = ("::1",) + nodes[1][1:]
    return nodes


def steady_state(hx, rng, nodes, n_events):
    """Events a running Cluster delivers; `nodes` is the true cluster (address, dc, rack)."""
    truth = dict((a, (dc, rack)) for a, dc, rack in nodes)
    for _ in range(n_events):
        in_meta = dict((h.address, h) for h in hx.metadata.all_hosts())
        absent = [a for a in truth if a not in in_meta]
        choices = []
        ups = [h for h in in_meta.values() if h.is_up]
        not_ups = [h for h in in_meta.values() if not h.is_up]
        if ups:
            choices += ["down"] * 3
        if not_ups:
            choices += ["up"] * 3 + ["down-again", "re-add"]
        if absent:
            choices += ["add"] * 3
        if in_meta:
            choices += ["remove", "move", "move"]
        if not choices:
            return
        ev = rng.choice(choices)
        if ev == "down":
            hx.ev_down(rng.choice(sorted(ups)))
        elif ev == "up":
            hx.ev_up(rng.choice(sorted(not_ups)))
        elif ev == "down-again":
            hx.ev_down(rng.choice(sorted(not_ups)))          # status DOWN event for a host already down
        elif ev == "re-add":
            hx.ev_add(rng.choice(sorted(not_ups)))           # reconnector of a host whose first pool failed
        elif ev == "add":
            a = rng.choice(sorted(absent))
            hx.ev_add(hx.new_host(a, truth[a][0], truth[a][1]))
        elif ev == "remove":
            hx.ev_remove(rng.choice(sorted(in_meta.values())))
        else:
            h = rng.choice(sorted(in_meta.values()))
            dc = rng.choice(DCS)
            rack = rng.choice(["r1", "r2", "r3"])
            truth[h.address] = (dc, rack)
            hx.ev_location(h, dc, rack)


def sequence_connect(ctx, rng, stack_override=None):
    nodes = random_universe(rng)
    addrs = [a for a, _d, _r in nodes]
    n_contacts = rng.randint(1, min(3, len(nodes)))
    contacts = rng.sample(addrs, n_contacts)
    bogus = None
    if rng.random() < 0.15:
        bogus = "10.0.9.9"                       # a contact point the peers table does not list
        contacts.append(bogus)
        rng.shuffle(contacts)
    stack = stack_override or random_stack(rng, addrs)
    hx = Harness(ctx, stack, "connect", rng.choice([1, 1, 2, 4]), contacts)
    truth = dict((a, (dc, rack)) for a, dc, rack in nodes)
    for a in contacts:
        hx.new_host(a, None, None).set_up()
    hx.ev_populate(hx.metadata.all_hosts())
    # the control connection reaches one of the real contact points: its system.local row comes first
    real_contacts = [a for a in contacts if a != bogus]
    connected = rng.choice(real_contacts)
    hx.ev_location(hx.hosts[connected], *truth[connected])
    peers = [a for a in addrs if a != connected]
    rng.shuffle(peers)
    withheld = set(a for a in peers if a not in contacts and rng.random() < 0.3)     # joins later
    for a in peers:
        if a in withheld:
            continue
        if a in hx.hosts:
            hx.ev_location(hx.hosts[a], *truth[a])
        else:
            hx.ev_add(hx.new_host(a, *truth[a]))
    if bogus:
        hx.ev_remove(hx.hosts[bogus])
    steady_state(hx, rng, nodes, rng.randint(0, 10))
    return hx


def sequence_add_profile(ctx, rng, stack_override=None, order=None):
    nodes = random_universe(rng)
    addrs = [a for a, _d, _r in nodes]
    stack = stack_override or random_stack(rng, addrs)
    contacts = rng.sample(addrs, rng.randint(1, min(3, len(addrs))))
    if rng.random() < 0.1:
        contacts = ["10.0.9.9"]                  # contact point resolved to an address the metadata does not know
    hx = Harness(ctx, stack, "add-profile", rng.choice([1, 1, 2]), contacts)
    present = [n for n in nodes if rng.random() < 0.85] or nodes[:1]
    rng.shuffle(present)
    if order == "by-dc":
        present.sort(key=lambda n: n[1])
    for a, dc, rack in present:
        h = hx.new_host(a, dc, rack)
        h.is_up = rng.choice([True, True, True, False, None])
    all_hosts = hx.metadata.all_hosts()
    hx.ev_populate(all_hosts)
    for h in all_hosts:
        if h.is_up:
            hx.ev_up(h, set_state=False)
    steady_state(hx, rng, nodes, rng.randint(0, 12))
    return hx


def fixed_witnesses(ctx):
    """The two orders named in DESIGN section 6 item 18 and the two-contact-point start-up, verbatim."""
    rng = ctx.rng
    # item 18: populate with hosts ordered dc1, dc2, dc1
    stack = {"base": ("dc", "dc1", 2), "wrappers": (), "preds": (), "ta_shuffle": False}
    hx = Harness(ctx, stack, "add-profile", 1, ["10.0.1.1"])
    for a, dc in (("10.0.1.1", "dc1"), ("10.0.2.2", "dc2"), ("10.0.1.3", "dc1")):
        hx.new_host(a, dc, "r1").is_up = None
    hx.ev_populate(hx.metadata.all_hosts())
    finish(ctx, hx)
    # two contact points, local DC inferred, one remote host allowed
    stack = {"base": ("dc", "", 1), "wrappers": (), "preds": (), "ta_shuffle": False}
    hx = Harness(ctx, stack, "connect", 1, ["10.0.1.1", "10.0.1.2"])
    for a in ("10.0.1.1", "10.0.1.2"):
        hx.new_host(a, None, None).set_up()
    hx.ev_populate(hx.metadata.all_hosts())
    hx.ev_location(hx.hosts["10.0.1.1"], "dc1", "r1")
    hx.ev_location(hx.hosts["10.0.1.2"], "dc1", "r1")
    hx.ev_down(hx.hosts["10.0.1.2"])
    finish(ctx, hx)


def finish(ctx, hx):
    n_hosts = len(hx.hosts)
    ctx.case((describe(hx.stack), hx.flow, hx.mult, tuple(sorted(hx.contact_addrs)), tuple(hx.sig)),
             nontrivial=n_hosts >= 2 and len(hx.sig) >= 3)
    ctx.count("sequences")
    ctx.count("events", len(hx.sig))
    ctx.count("sequences_" + hx.stack["base"][0])
    if hx.stack["base"][0] == "wl":
        b = hx.stack["base"]
        respelled = [n for n in b[1] if n not in b[2]]
        if respelled:
            ctx.count("sequences_wl_with_entry_spelled_unlike_host_address")
            live_via_add = [e for e in hx.sig if e[0] == "add" and e[1] in b[2] and any(e[1] in resolve(n) for n in respelled)]
            if live_via_add:
                ctx.count("sequences_wl_respelled_host_arrives_through_on_add")
    for w in set(hx.stack["wrappers"]):
        ctx.count("sequences_with_" + w)
    if hx.flow == "connect":
        ctx.count("sequences_connect_flow")
    else:
        ctx.count("sequences_add_profile_flow")


def run(ctx):
    _global_random.seed(ctx.rng.getrandbits(64))      # the policies draw start positions from the module-level generator
    warnings.simplefilter("ignore", DeprecationWarning)
    ctx.rule = ("seeded random histories: universe of 1..6 hosts in 1..3 DCs; flow connect (1..3 contact points with unknown DC, "
                "location updates / on_add per peers row, removal of unlisted contact points) or add-profile (populate of all known "
                "hosts in metadata order + on_up of the up ones), then 0..12 steady-state events; policy = base in {RoundRobin, "
                "DCAware(local_dc given/inferred/absent, 0..3 remote), WhiteList(subset)} under wrapper stacks of HostFilter / Default "
                "/ DSE / TokenAware; callbacks delivered 1, 2 or 4 times. distinct = (policy description, flow, multiplicity, contact "
                "points, event sequence with hosts and DCs); trivial = fewer than 2 hosts or fewer than 3 events")
    ctx.assume("every host carries a broadcast_rpc_address when a plan is requested (Cluster assigns it in the refresh that delivers "
               "the event); DefaultLoadBalancingPolicy looks targets up by that address")
    ctx.assume("populate(hosts) makes every given host live, whatever its is_up (RoundRobinPolicy does exactly that); liveness afterwards "
               "follows the callbacks only - Host.is_up is not consulted")
    ctx.assume("hosts of unknown datacenter count as local (Host.datacenter or local_dc), as DCAwareRoundRobinPolicy documents for "
               "contact points; an inferred local_dc is the datacenter of the first contact point located through on_up/on_add")
    ctx.assume("white-list entries may be spelled unlike Host.address (localhost, 127.1, 0x7f.1, a.b.N, decimal, ::0:1 ...); only "
               "spellings that socket.getaddrinfo resolves in this sandbox without DNS are used; reference membership is by resolved address")
    ctx.assume("with a HostFilterPolicy above a DCAware policy only '<= used_hosts_per_remote_dc per remote DC' is demanded (the child "
               "slices before the filter); without a filter exactly min(used_hosts_per_remote_dc, live hosts of the DC)")
    rng = ctx.rng
    fixed_witnesses(ctx)
    n = ctx.scale(8000, 1200000)
    for i in range(n):
        r = rng.random()
        if r < 0.5:
            hx = sequence_connect(ctx, rng)
        elif r < 0.9:
            hx = sequence_add_profile(ctx, rng)
        else:
            hx = sequence_add_profile(ctx, rng, order="by-dc")
        finish(ctx, hx)
        if i < 3:
            ctx.sample({"policy": describe(hx.stack), "flow": hx.flow, "events": hx.log[:12]})
    ctx.floor_distinct = 3000 if ctx.quick else 500000
    ctx.floor_counters = {"sequences": 4000, "plans_judged": 60000, "distance_evaluations": 100000, "callbacks_delivered": 30000,
                          "location_updates": 3000, "local_dc_inferences": 300, "plans_with_remote_part": 3000,
                          "sequences_rr": 300, "sequences_dc": 1500, "sequences_wl": 300,
                          "sequences_wl_with_entry_spelled_unlike_host_address": 150,
                          "sequences_wl_respelled_host_arrives_through_on_add": 40, "sequences_with_hf": 500,
                          "sequences_with_default": 200, "sequences_with_dse": 100, "sequences_with_ta": 300,
                          "target_host_plans_judged": 1000, "sequences_connect_flow": 1500, "sequences_add_profile_flow": 1500}
