"""C44 - heartbeats detect dead idle connections without leaking capacity.

Monitor: the real ``ConnectionHeartbeat.run`` / ``HeartbeatFuture`` code runs as a thread of the
deterministic world (only Thread.start/join of that class are redirected to the world), either
created by a real ``Cluster(idle_heartbeat_interval=I, idle_heartbeat_timeout=T)`` over its real
pools and control connection, or constructed directly over small holder objects with real
handshaken connections.  Round by round the scenario makes connections busy or leaves them idle
(ordinary traffic, or only the late answer to a request that timed out client-side and left an orphaned stream id)
and lets the node answer the heartbeat OPTIONS at once / late but within the timeout (staggered
fractions of the timeout over the connections of one round) / with an ERROR / with an unexpected
message / not at all, closes the connection underneath, or the send step itself fails with an error
that is not a ConnectionException (socket not writable -> ConnectionBusy, transport refusing data).  What the node received per
connection and round, the connection flags, the owners' ``return_connection`` calls and the
request-id accounting before/after each round are judged.
"""
import random

PROPERTY = "C44"
LEVEL = "exploration"
ENGINE = "sim"
TECHNIQUE = "runtime monitor in a deterministic world: heartbeat OPTIONS counted per connection and interval at the node, defunct/owner-notification and request-id conservation checked per round"
LEVEL_TEXT = ("Hundreds (quick) to tens of thousands (thorough) of seeded histories of 3-7 heartbeat rounds over 2-8 connections (real pools + control "
              "connection of a Cluster at protocol v2/v4/v5, or direct holders), each connection per round idle or busy and its heartbeat "
              "answered at once / answered after 0.15-0.9 x timeout (staggered over the >= 3 connections of a round) / answered with ERROR / "
              "answered with an unexpected message / unanswered / the connection closed or reset underneath, "
              "under seeded interleavings of heartbeat thread, reactor and executor: idle -> exactly one OPTIONS in the interval, busy -> none, "
              "failed or silent -> defunct and owner.return_connection called (owner drops it), success -> in_flight / free ids / highest id "
              "unchanged. Held-on-observed schedules.")
LEVEL_NOTE = ("Trusted base: sim/world.py (switches only at synchronisation points), sim/node.py + sim/s5_handshake.py, spec/frames.py. "
              "ConnectionHeartbeat subclasses the real threading.Thread: for the duration of a history its start()/join() are redirected to "
              "world.spawn / a world wait; run(), HeartbeatFuture and everything they call are the repository's code. Busy/idle is derived from "
              "the frames delivered to the connection since the previous round (not from the driver's msg_received flag). Heartbeat timeout is "
              "kept <= 0.3 x interval so that rounds stay one interval apart.")
QUICK_WORKERS = 4
WORKERS = 14

_MISSING = object()


class HeartbeatInWorld(object):
    """Run ConnectionHeartbeat threads inside the world (restored on exit)."""
    def __init__(self, world):
        self.world = world
        self.started = []

    def __enter__(self):
        import cassandra.connection as C
        cls = self.cls = C.ConnectionHeartbeat
        self.saved = dict((k, cls.__dict__.get(k, _MISSING)) for k in ('start', 'join'))
        w, rec = self.world, self

        def start(hb):
            rec.started.append((hb, w.now))
            hb._sim_thread = w.spawn(hb.run, name='heartbeat')

        def join(hb, timeout=None):
            t = getattr(hb, '_sim_thread', None)
            if t is not None and w.cur() is not None and not w.dead:
                w.block(lambda: t.state == 'done', None if timeout is None else w.now + timeout, 'join-heartbeat')
        cls.start, cls.join = start, join
        return self

    def __exit__(self, *a):
        for k, v in self.saved.items():
            if v is _MISSING:
                delattr(self.cls, k)
            else:
                setattr(self.cls, k, v)
        return False


class Holder(object):
    """the smallest owner ConnectionHeartbeat works with"""
    def __init__(self, world, name):
        self.world, self.name = world, name
        self.conns = []
        self.returned = []
        self.shutdown_on_error = False

    def get_connections(self):
        return list(self.conns)

    def return_connection(self, conn):
        self.returned.append((conn, self.world.now))
        if (conn.is_defunct or conn.is_closed) and conn in self.conns:
            self.conns.remove(conn)


TREATMENTS = ['ok', 'ok', 'ok', 'ok', 'ok', 'error', 'silent', 'unexpected', 'close-at-round', 'reset-at-round', 'not-writable', 'push-raises']
SEND_FAULTS = ('not-writable', 'push-raises')     # the send step itself fails, with an error that is not a ConnectionException


def run_history(seed, quick):
    from sim.env import SimEnv
    from sim import world as W
    from sim import s5_handshake as H
    from sim.scen import uid_query, uid_of
    from spec import frames as F
    from cassandra.connection import ConnectionHeartbeat, DefaultEndPoint
    from cassandra.protocol import OptionsMessage, QueryMessage
    from cassandra import ConsistencyLevel
    from cassandra.policies import ConstantReconnectionPolicy, HostDistance
    rng = random.Random(seed)
    random.seed(seed)
    mode = rng.choice(['cluster', 'holders'])
    I = rng.choice([5.0, 10.0, 30.0])
    T = I * rng.choice([0.1, 0.2, 0.3])
    proto = rng.choice([2, 4, 4, 5])
    nnodes = rng.choice([1, 2, 2, 3]) if mode == 'cluster' else rng.choice([1, 2])
    rounds = rng.randint(3, 7)
    calm = rng.random() < 0.45           # no traffic / deaths between rounds: every connection is idle in every round after the first
    p_slow_round = rng.choice([0.0, 0.3, 0.6, 0.9])
    # cluster histories of this flavour have no ordinary traffic; instead requests time out client-side (their stream ids become orphans)
    # and the server's late answers - the only frames of their interval on that connection - arrive one interval later
    late_flavour = mode == 'cluster' and rng.random() < 0.4
    if late_flavour:
        calm = True
    ch = W.RandomChooser(random.Random(seed * 7 + 3), p_time=0.0, p_preempt=rng.choice([0.0, 0.1, 0.25]))
    addrs = ['127.0.0.%d' % (i + 1) for i in range(nnodes)]
    env = SimEnv(ch, addresses=addrs, max_steps=250000)
    H.upgrade(env)
    plan = {}            # conn id -> treatment of its next heartbeat OPTIONS
    hb_seen = []         # (conn id, t, treatment)
    probing = set()      # connections on which the scenario itself is sending a request right now
    windows = []         # (A, B) of every judged round

    hold_uids = set()    # requests whose answer the server keeps back until the scenario releases it

    def behaviour(node, cstate, req):
        if req['op'] == 'QUERY' and uid_of(req.get('query')) in hold_uids:
            return ('hold', node.void(cstate, req)[1])
        if req['op'] == 'OPTIONS' and cstate.ready:
            cid = cstate.conn.sim_id
            if cid in probing:
                return None               # the scenario's own OPTIONS request, not a heartbeat
            tr = plan.pop(cid, 'ok')
            hb_seen.append((cid, node.net.world.now, tr))
            if tr == 'error':
                return node.error(cstate, req, 'server', 'scripted heartbeat failure')
            if tr == 'unexpected':
                return node.reply(cstate, req, 'READY', b'')
            if tr == 'silent':
                return ('silence',)
            if isinstance(tr, tuple):          # ('slow', f): the answer leaves the server f x timeout after the request arrived
                frame = node.default_reaction(cstate, req)[1]
                conn = cstate.conn
                node.net.world.add_timer(tr[1] * T, (lambda: node.net.send(conn, frame)), label='slow-answer')
                return ('silence',)
            return None
        return None
    for n in env.net.nodes.values():
        n.behaviour = behaviour
    viol = []
    stats = {'rounds': 0, 'conn_rounds': 0, 'idle_ok': 0, 'busy': 0, 'failed': 0, 'silent': 0, 'closed_underneath': 0, 'dead_found': 0,
             'capacity_checks': 0, 'return_calls_seen': 0, 'heartbeats_at_node': 0, 'control_rounds': 0, 'pool_rounds': 0, 'replaced_seen': 0,
             'raced_close': 0, 'collateral': 0, 'owner_still_lists': 0, 'ambiguous': 0, 'slow_ok': 0, 'rounds_3_slow': 0, 'late_answers': 0, 'requests_left_to_time_out': 0, 'send_faults': 0, 'busy_by_late_answer_only': 0}
    ret_log = []         # (owner, conn, t)

    def wrap_owner(o):
        if isinstance(o, Holder) or getattr(o, '_c44_wrapped', False):
            return
        orig = o.return_connection

        def return_connection(conn, *a, **k):
            ret_log.append((o, conn, env.world.now))
            return orig(conn, *a, **k)
        o.return_connection = return_connection
        o._c44_wrapped = True

    with env, HeartbeatInWorld(env.world) as hbw:
        world = env.world
        cluster = session = hb = None
        holders = []
        if mode == 'cluster':
            cluster = env.cluster(contact_points=addrs, protocol_version=proto, idle_heartbeat_interval=I, idle_heartbeat_timeout=T,
                                  reconnection_policy=ConstantReconnectionPolicy(0.25 * I, max_attempts=None))
            if proto < 3:
                cluster.set_core_connections_per_host(HostDistance.LOCAL, 2)
                cluster.set_max_connections_per_host(HostDistance.LOCAL, 2)
            session = cluster.connect()
            world.settle(advance=False)

            def get_holders():
                return cluster.get_connection_holders()
        else:
            for hi in range(rng.randint(1, 3)):
                h = Holder(world, 'h%d' % hi)
                for _ in range(rng.randint(2, 3) if calm else rng.randint(1, 3)):
                    h.conns.append(env.conn_class.factory(DefaultEndPoint(rng.choice(addrs)), 5.0, protocol_version=proto))
                holders.append(h)

            def get_holders():
                return list(holders)
            hb = ConnectionHeartbeat(I, get_holders, T)
        if len(hbw.started) != 1:
            raise RuntimeError("harness: %d heartbeat threads started" % len(hbw.started))
        t0 = hbw.started[0][1]
        uid = [0]
        last_B_trace = {}        # conn id -> trace index from which deliveries count for the next round
        known_conns = set()
        prev_window = None       # (A, B) of the previous round

        def deliveries(cid, lo, hi):
            return sum(1 for e in world.trace[lo:hi] if e[0] == 'deliver' and e[1] == cid)

        def snapshot(c):
            with c.lock:
                return (c.in_flight, tuple(sorted(c.request_ids)), c.highest_request_id, len(c._requests), len(c.orphaned_request_ids))

        def returned_calls(owner, c, since):
            if isinstance(owner, Holder):
                return sum(1 for (x, t) in owner.returned if x is c and t >= since)
            return sum(1 for (o, x, t) in ret_log if o is owner and x is c and t >= since)

        for k in range(1, rounds + 1):
            tk = t0 + k * I
            A, B = tk - 0.05 * I, tk + T + 0.02 * I
            world.preempt = True
            world.advance_to(A)
            world.preempt = False
            # ---------------- just before the round
            cur = []
            for o in get_holders():
                wrap_owner(o)
                for c in o.get_connections():
                    cur.append((c, o))
            trace_A = len(world.trace)
            wire_A = len(env.net.wire_log)
            hb_A = len(hb_seen)
            rows = []
            nfail = 0
            slow_round = rng.random() < p_slow_round      # the server answers this round's heartbeats late but within the timeout, staggered
            for c, o in cur:
                cid = c.sim_id
                alive = not (c.is_closed or c.is_defunct)
                busy = deliveries(cid, last_B_trace.get(cid, 0), trace_A) > 0
                # a connection born while the previous round was running may or may not have been seen (and reset) by that round
                ambiguous = (cid not in last_B_trace and prev_window is not None and
                             prev_window[0] - 1e-3 <= getattr(c, 'sim_created_at', -1.0) <= prev_window[1] + 1e-3)
                tr = None
                if alive and not busy and not ambiguous:
                    tr = rng.choice(TREATMENTS)
                    if tr != 'ok':
                        if nfail >= (1 if mode == 'cluster' else 2):
                            tr = 'ok'
                        else:
                            nfail += 1
                    if tr == 'ok' and slow_round:
                        tr = ('slow', rng.choice([0.15, 0.3, 0.4, 0.5, 0.6, 0.7, 0.8, 0.9]))
                    if tr == 'not-writable':
                        c._socket_writable = False         # what a reactor does under back-pressure: send_msg raises ConnectionBusy
                    elif tr == 'push-raises':
                        def broken_push(data, c=c):
                            raise RuntimeError("transport of connection %d refuses to queue data (event loop closed)" % c.sim_id)
                        c.push = broken_push
                    elif tr in ('close-at-round', 'reset-at-round'):
                        world.add_timer(max(0.0, tk - world.now) + rng.choice([0.0, 0.0, 1e-5]),
                                        (lambda c=c, tr=tr: env.net.server_close(c, reset=(tr == 'reset-at-round'))), label='server-close')
                    elif tr not in SEND_FAULTS:
                        plan[cid] = tr
                rows.append({'c': c, 'o': o, 'cid': cid, 'alive': alive, 'busy': busy, 'tr': tr, 'ambiguous': ambiguous, 'snap': snapshot(c) if alive else None,
                             'control': bool(c.is_control_connection)})
                known_conns.add(cid)
            # ---------------- the round
            world.preempt = True
            world.advance_to(B)
            world.preempt = False
            stats['rounds'] += 1
            if sum(1 for r in rows if isinstance(r['tr'], tuple)) >= 3:
                stats['rounds_3_slow'] += 1
            for r in rows:
                c, o, cid = r['c'], r['o'], r['cid']
                stats['conn_rounds'] += 1
                stats['control_rounds' if r['control'] else 'pool_rounds'] += 1
                n_opt = sum(1 for q in env.net.wire_log[wire_A:] if q['_conn'] == cid and q['op'] == 'OPTIONS')
                stats['heartbeats_at_node'] += n_opt
                tag = 'conn %d (%s%s) round %d' % (cid, 'control' if r['control'] else 'pooled', '' if mode == 'cluster' else ', holder', k)
                nret = returned_calls(o, c, A)
                stats['return_calls_seen'] += nret
                if not r['alive']:
                    stats['dead_found'] += 1
                    if n_opt:
                        viol.append(('heartbeat-sent-on-dead-connection', '%s: %d OPTIONS on a closed/defunct connection' % (tag, n_opt)))
                    if nret == 0:
                        viol.append(('owner-not-told-about-dead-connection', '%s: closed/defunct connection listed by its owner, the heartbeat round did not call return_connection' % tag))
                    continue
                if r['ambiguous']:
                    stats['ambiguous'] += 1
                    continue
                if r['busy']:
                    stats['busy'] += 1
                    if late_flavour and cid in last_B_trace:
                        stats['busy_by_late_answer_only'] += 1      # no other traffic exists in these histories
                    if n_opt:
                        viol.append(('heartbeat-sent-on-busy-connection', '%s: the connection received frames during the interval but %d OPTIONS arrived' % (tag, n_opt)))
                    elif snapshot(c) != r['snap'] and not (c.is_closed or c.is_defunct):
                        viol.append(('capacity-changed-by-heartbeat-round', '%s (busy, no heartbeat): %r -> %r' % (tag, r['snap'][:1] + r['snap'][2:], snapshot(c)[:1] + snapshot(c)[2:])))
                    continue
                tr = r['tr']
                if tr in ('close-at-round', 'reset-at-round'):
                    stats['closed_underneath'] += 1
                    if n_opt > 1:
                        viol.append(('more-than-one-heartbeat-per-interval', '%s: %d OPTIONS' % (tag, n_opt)))
                    if n_opt == 1:
                        stats['raced_close'] += 1
                    if not (c.is_closed or c.is_defunct):
                        raise RuntimeError("harness: server close was not delivered")
                    # if the heartbeat did not get to tell the owner in this round, the next round finds the dead connection listed (judged there)
                    continue
                if tr in SEND_FAULTS:
                    if n_opt:
                        raise RuntimeError("harness: a heartbeat arrived although the connection's send step was broken")
                    n_opt = 1          # judged below like any other failed heartbeat: out of service and the owner told
                    stats['send_faults'] += 1
                if n_opt == 0 and mode == 'cluster' and (c.is_closed or c.is_defunct):
                    # closed by its owner during the round before the heartbeat reached it (a sibling's failure shut the pool down, the
                    # control connection moved because its host went down): not this connection's heartbeat
                    stats['collateral'] += 1
                    plan.pop(cid, None)
                    continue
                if n_opt != 1:
                    viol.append(('idle-connection-heartbeat-count', '%s: idle for the whole interval, %d OPTIONS arrived (expected exactly 1)' % (tag, n_opt)))
                    continue
                if tr == 'ok' or isinstance(tr, tuple):
                    if isinstance(tr, tuple):
                        stats['slow_ok'] += 1
                        tag += ' (answered after %.2f x timeout)' % tr[1]
                    stats['idle_ok'] += 1
                    stats['capacity_checks'] += 1
                    after = snapshot(c)
                    by_heartbeat = c.is_defunct and ('eartbeat' in str(c.last_error) or 'OptionsMessage' in str(c.last_error))
                    if (c.is_defunct or c.is_closed) and (mode == 'holders' or by_heartbeat):
                        viol.append(('healthy-connection-defuncted-by-heartbeat', '%s: heartbeat answered with SUPPORTED but the connection is closed/defunct (%r)' % (tag, c.last_error)))
                    elif c.is_defunct or c.is_closed:
                        stats['collateral'] += 1         # closed by its owner for another connection's failure (pool shutdown, control connection moved)
                    elif after != r['snap']:
                        viol.append(('capacity-leak-after-successful-heartbeat', '%s: in_flight %d -> %d, free ids %d -> %d, highest id %d -> %d, pending %d -> %d' % (
                            tag, r['snap'][0], after[0], len(r['snap'][1]), len(after[1]), r['snap'][2], after[2], r['snap'][3], after[3])))
                    if nret and not r['control'] and mode == 'holders':
                        viol.append(('healthy-connection-returned-to-owner', '%s: return_connection called %d times after a successful heartbeat' % (tag, nret)))
                else:
                    stats['silent' if tr == 'silent' else 'failed'] += 1
                    if not c.is_defunct and not (mode == 'cluster' and c.is_closed):
                        # (cluster mode: the owner may have closed it first for a sibling's failure; closed is out of service as well)
                        viol.append(('failed-heartbeat-connection-not-defunct', '%s: heartbeat %s but is_defunct=%s is_closed=%s' % (tag, tr, c.is_defunct, c.is_closed)))
                    if nret == 0:
                        viol.append(('owner-not-notified-of-failed-heartbeat', '%s: heartbeat %s, return_connection never called' % (tag, tr)))
                    elif any(x is c for oo in get_holders() for x in oo.get_connections()):
                        if mode == 'holders':
                            viol.append(('owner-keeps-failed-connection', '%s: heartbeat %s, owner was told but still lists the connection' % (tag, tr)))
                        else:
                            stats['owner_still_lists'] += 1   # a pool that shut itself down / a control connection still reconnecting keeps the dead object listed
            extra = [h for h in hb_seen[hb_A:] if h[0] not in [r['cid'] for r in rows]]
            if extra:
                viol.append(('heartbeat-on-connection-outside-holders', 'OPTIONS heartbeats on connections %r that no holder listed before the round' % (sorted(set(h[0] for h in extra)),)))
            plan.clear()
            prev_window = (A, B)
            windows.append((A, B))
            trace_B = len(world.trace)
            for r in rows:
                last_B_trace[r['cid']] = trace_B
            if viol:
                break
            # ---------------- between the rounds: traffic, silent deaths, replacements
            world.preempt = True
            world.advance_to(tk + 0.6 * I)
            if late_flavour and session is not None and not cluster.is_shutdown:
                # first the late answers to the requests that timed out in the previous interval, then new requests that will time out
                for h in [h for h in env.net.held if not h.done]:
                    if not h.conn.is_closed:
                        stats['late_answers'] += 1
                    h.release()
                world.settle(advance=False)
                if k < rounds - 1:
                    for _ in range(rng.choice([1, 1, 2, 3])):
                        uid[0] += 1
                        hold_uids.add(uid[0])
                        try:
                            session.execute_async(uid_query(uid[0]), timeout=0.1 * I)
                            stats['requests_left_to_time_out'] += 1
                        except Exception:       # noqa
                            pass
                    world.settle(advance=False)
            if calm:
                world.preempt = False
                continue
            if mode == 'cluster':
                if session is not None and not cluster.is_shutdown:
                    for _ in range(rng.choice([0, 0, 1, 3, 6])):
                        uid[0] += 1
                        try:
                            session.execute_async(uid_query(uid[0]), timeout=2.0)
                        except Exception:       # noqa  (no host available while everything is down: not this property's business)
                            pass
                    world.settle(advance=False)
                    if rng.random() < 0.25:
                        try:
                            cluster.control_connection.refresh_node_list_and_token_map()
                        except Exception:       # noqa
                            pass
                        world.settle(advance=False)
            else:
                for h in holders:
                    for c in list(h.conns):
                        if not (c.is_closed or c.is_defunct) and rng.random() < 0.35:
                            probing.add(c.sim_id)
                            try:
                                c.wait_for_response(OptionsMessage() if rng.random() < 0.5 else
                                                    QueryMessage(query=uid_query(uid[0]), consistency_level=ConsistencyLevel.ONE), timeout=2.0)
                            except Exception as e:      # noqa
                                raise RuntimeError("harness: probe request failed: %r" % (e,))
                            finally:
                                probing.discard(c.sim_id)
                    if len(h.conns) < 3 and rng.random() < 0.5:
                        h.conns.append(env.conn_class.factory(DefaultEndPoint(rng.choice(addrs)), 5.0, protocol_version=proto))
                        stats['replaced_seen'] += 1
                world.settle(advance=False)
            world.preempt = False
            if rng.random() < 0.3:
                live = [c for o in get_holders() for c in o.get_connections() if not (c.is_closed or c.is_defunct)]
                if mode == 'cluster':
                    live = [c for c in live if not c.is_control_connection or rng.random() < 0.3]
                if live:
                    env.net.server_close(rng.choice(live), reset=rng.random() < 0.5)
            world.preempt = True
            world.settle(advance=False)
            world.preempt = False
        # every heartbeat the node saw belongs to a round: none before the first interval elapsed, none between rounds
        stray = [(cid, round(t - t0, 4)) for cid, t, tr in hb_seen if t <= world.now and not any(a <= t <= b for a, b in windows)
                 and t < (windows[-1][1] if windows else 0)]
        if stray and not viol:
            viol.append(('heartbeat-outside-the-interval-schedule', 'OPTIONS heartbeats at offsets %r (conn, seconds after the heartbeat thread started); rounds are due every %.0f s' % (stray[:6], I)))
        harness = list(world.errors) + [('parse', p) for p in env.net.parse_failures] + [('framing', p) for p in env.net.framing_errors]
        if mode == 'cluster':
            stats['replaced_seen'] += sum(1 for c in env.net.conns if c.sim_creator in ('reconnector', 'pool-replace'))
        info = {'seed': seed, 'mode': mode, 'interval': I, 'timeout': T, 'proto': proto, 'nodes': nnodes, 'rounds': rounds,
                'connections': len(env.net.conns), 'stats': dict(stats), 'heartbeats': [(a, round(b - t0, 4), c) for a, b, c in hb_seen][:40]}
        world.preempt = True
        try:
            if cluster is not None:
                cluster.shutdown()
            if hb is not None:
                hb.stop()
                for h in holders:
                    for c in h.conns:
                        c.close()
            world.settle(advance=True, until=world.now + 1.0)
            alive_threads = [t.name for t in world.threads if t.name == 'heartbeat' and t.state != 'done']
            if alive_threads and not viol:
                viol.append(('heartbeat-thread-survives-stop', 'ConnectionHeartbeat.stop() returned but its thread is still running'))
        except (W.WorldLimit, W.WorldHang):
            pass
    return viol, harness, info


def run(ctx):
    from vlib import shim
    shim.import_cluster()
    from vlib.run import Inconclusive
    from sim.world import WorldLimit, WorldHang
    ctx.rule = ("a case = one seeded history (cluster pools + control connection | direct holders, interval, timeout, protocol, nodes, 3-7 rounds, per "
                "round and connection idle/busy and the treatment of its heartbeat, interleaving); distinct by the sequence of (connection, offset, "
                "treatment) of the heartbeats the node saw plus the configuration; non-trivial = at least one failed/silent/closed connection")
    ctx.assume("idle_heartbeat_timeout <= 0.3 x idle_heartbeat_interval (with timeout >= interval the driver's rounds are no longer one interval apart "
               "and 'one heartbeat per interval' is not well defined); a connection that is full (in_flight at the stream-id limit) is not generated")
    ctx.assume("traffic, silent connection deaths and replacements happen strictly between rounds; server closes that race the round are timed at the "
               "round's instant and may or may not be preceded by the heartbeat's OPTIONS (both accepted), a dead connection an owner still lists at the next round must be handed to return_connection then")
    # the amount of work is fixed by counts (deterministic); the wall-clock cap only guards against a badly overloaded machine
    n = 300 if ctx.quick else 4000            # per worker (~50 ms CPU per history)
    wall_cap = 80.0 if ctx.quick else 520.0
    import time
    from sim import s5_handshake as H
    run_history(ctx.seed * 1000003 + 999983, ctx.quick)       # warm-up: everything imported lazily is loaded now
    H.settle_heap()
    t_run0 = time.time()
    base = ctx.seed * 1000003 + (ctx.worker or 0) * 100003
    for i in range(n):
        if time.time() - t_run0 > wall_cap and i >= 20:
            ctx.note("stopped by the wall-clock cap after %d of %d histories" % (i, n))
            break
        seed = base + i
        try:
            viol, harness, info = run_history(seed, ctx.quick)
        except WorldLimit:
            ctx.count("histories_over_budget")
            continue
        except WorldHang as e:
            raise Inconclusive("history seed %d: world hang %s" % (seed, e))
        except Exception as e:      # noqa
            import traceback
            raise Inconclusive("history seed %d failed in the harness: %s: %s\n%s" % (seed, type(e).__name__, e, traceback.format_exc()[-900:]))
        st = info['stats']
        ctx.case(repr((info['mode'], info['interval'], info['timeout'], info['proto'], info['nodes'], info['heartbeats'])),
                 nontrivial=(st['failed'] + st['silent'] + st['closed_underneath'] + st['dead_found']) > 0)
        ctx.count("histories")
        ctx.count("histories_" + info['mode'])
        for k_, name in (('rounds', 'heartbeat_rounds'), ('conn_rounds', 'connection_rounds_judged'), ('idle_ok', 'idle_connections_heartbeat_answered'),
                         ('busy', 'busy_connections_no_heartbeat'), ('failed', 'heartbeats_answered_with_error_or_unexpected'),
                         ('silent', 'heartbeats_unanswered'), ('closed_underneath', 'connections_closed_at_the_round'),
                         ('raced_close', 'closes_that_raced_a_sent_heartbeat'), ('dead_found', 'dead_connections_found_by_heartbeat'),
                         ('capacity_checks', 'capacity_conservation_checks'), ('return_calls_seen', 'owner_return_connection_calls_seen'),
                         ('heartbeats_at_node', 'heartbeat_options_seen_at_node'), ('control_rounds', 'control_connection_rounds'),
                         ('replaced_seen', 'replacement_connections_seen'), ('collateral', 'connections_closed_by_owner_for_a_sibling_failure'),
                         ('owner_still_lists', 'failed_connections_still_listed_by_notified_owner'),
                         ('ambiguous', 'connections_born_during_a_round_not_judged'), ('slow_ok', 'heartbeats_answered_late_within_timeout'),
                         ('rounds_3_slow', 'rounds_with_3_or_more_staggered_late_answers'),
                         ('late_answers', 'late_answers_to_timed_out_requests_delivered'),
                         ('send_faults', 'heartbeats_whose_send_step_raised_a_non_connection_error'),
                         ('busy_by_late_answer_only', 'connection_rounds_busy_only_by_a_late_answer_to_an_orphaned_request')):
            ctx.count(name, st[k_])
        if harness and not viol:
            raise Inconclusive("harness error in history seed %d: %r" % (seed, harness[:2]))
        seen = set()
        for mech, what in viol:
            if mech in seen:
                continue
            seen.add(mech)
            ctx.violation(mech, "%s [seed %d, %s, interval %.0f timeout %.1f, v%d]" % (what, seed, info['mode'], info['interval'], info['timeout'], info['proto']), info)
        if not viol and len(ctx.samples) < 5 and st['silent'] and st['busy'] and random.Random(seed).random() < 0.1:
            ctx.sample(info)
    # floors: well below the fixed amount of work (quick 4 x 300 histories, thorough 14 x 4000)
    ctx.floor_distinct = 100 if ctx.quick else 1500
    k = 1 if ctx.quick else 8
    ctx.floor_counters = {"histories": 150 * k, "heartbeat_rounds": 600 * k, "idle_connections_heartbeat_answered": 500 * k,
                          "busy_connections_no_heartbeat": 300 * k, "heartbeats_answered_with_error_or_unexpected": 40 * k,
                          "heartbeats_unanswered": 20 * k, "connections_closed_at_the_round": 20 * k, "dead_connections_found_by_heartbeat": 10 * k,
                          "capacity_conservation_checks": 500 * k, "control_connection_rounds": 100 * k, "histories_cluster": 40 * k,
                          "histories_holders": 40 * k, "heartbeats_answered_late_within_timeout": 150 * k,
                          "rounds_with_3_or_more_staggered_late_answers": 20 * k, "heartbeats_whose_send_step_raised_a_non_connection_error": 40 * k,
                          "connection_rounds_busy_only_by_a_late_answer_to_an_orphaned_request": 40 * k}
