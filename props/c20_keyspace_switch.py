"""C20 - switching the session keyspace is applied everywhere or reported.

Monitor: the real Cluster/Session/pools/Connection stack runs in the deterministic world over
1-4 scripted nodes.  Each node's pool is first driven into a state - open; no connection (the
connection was lost and the replacement is still inside its connection factory call); shut down
(but still registered in the session); answers USE with an error; swallows USE and then loses
the connection - and then the session keyspace is switched with a USE statement (execute /
execute_async) or with Session.set_keyspace.  Answers of the nodes are held and released in an
enumerated / random order, or delivered in an order picked by the world's chooser.

Oracle: (a) the switch completes (a hang of the world or a future still pending when every node
has answered everything and virtual time has passed all timeouts is the witness); (b) after a
reported success every connection a later request is sent on - including replacements created
later - has the new keyspace selected, at the client and at the node; (c) a USE answered with an
error makes the switch report an error.
"""
import itertools
import random
import re

PROPERTY = "C20"
LEVEL = "exploration"
ENGINE = "sim"
TECHNIQUE = "runtime monitor in a deterministic world: per-pool fault states x completion orders, outcome / wire / pool-state oracle"
LEVEL_TEXT = ("Every combination of the five per-pool states for 1-2 pools (quick; 1-3 thorough) for HostConnection (v4) and HostConnectionPool "
              "(v2) and the three triggers, plus seeded random combinations up to 4 pools with enumerated / random release orders and "
              "schedules: completion, keyspace of every connection used afterwards (client attribute, node-side state, probe requests) and "
              "error reporting are decided on what was observed. Held-on-observed histories.")
LEVEL_NOTE = ("Trusted base: sim/world.py, sim/node.py, spec/frames.py. Pools are observed by wrapping the bound method "
              "_set_keyspace_for_all_conns of each pool instance from the outside (records whether the completion callback was invoked); "
              "pool states are reached through the driver's own paths (connection resets with requests in flight, a per-host conviction "
              "policy, a second session keeping the host up). 'Never completes' is restated as: pending although no node owes an answer and "
              "virtual time is far past every timeout, or the whole world blocked without a deadline.")
QUICK_WORKERS = 4
WORKERS = 14

STATES = ('open', 'noconn', 'shutdown', 'error', 'lost', 'orphan', 'building')
TRIGGERS = ('async', 'execute', 'set_keyspace')
USE_RE = re.compile(r'\s*use\s+("?)ks2\1\s*;?\s*$', re.I)
INIT_USE_RE = re.compile(r'\s*use\s+"ks1"\s*;?\s*$', re.I)

KNOWN_SKIP = "hostconnection-set-keyspace-callback-skipped-when-shutdown-or-connectionless"
KNOWN_LAST = "session-keyspace-switch-reports-only-last-pool-errors"
KNOWN_EMPTY = "hostconnectionpool-empty-at-switch-keyspace-not-recorded"
KNOWN_RACE = "connection-joining-hostconnectionpool-during-switch-misses-it"


def systematic_cases(max_nodes):
    out = []
    for n in range(1, max_nodes + 1):
        for states in itertools.product(STATES, repeat=n):
            for proto in (4, 2):
                for trig in TRIGGERS:
                    out.append({'proto': proto, 'states': states, 'trigger': trig, 'timeout': None, 'init_ks': None if (len(out) % 2) else 'ks1',
                                'order': len(out) % 6, 'core': 1 + (len(out) // 2) % 2, 'sys': True})
    return out


def random_case(rng):
    n = rng.choice([1, 2, 2, 3, 3, 4])
    weights = [6, 2, 2, 2, 2, 2, 2]
    return {'proto': rng.choice([2, 3, 4]), 'states': tuple(rng.choices(STATES, weights)[0] for _ in range(n)),
            'trigger': rng.choice(TRIGGERS), 'timeout': rng.choice([None, None, 10.0, 3.0]), 'init_ks': rng.choice([None, 'ks1']),
            'order': rng.randrange(24), 'core': rng.choice([1, 2]), 'sys': False}


def run_history(seed, case):
    from sim.env import SimEnv
    from sim import world as W
    from sim.scen import uid_query, uid_of, ECHO_COLS
    from cassandra.cluster import ExecutionProfile, EXEC_PROFILE_DEFAULT
    from cassandra.policies import RoundRobinPolicy, ConvictionPolicy, ConstantReconnectionPolicy, HostDistance, FallthroughRetryPolicy

    rng = random.Random(seed)
    random.seed(seed)
    proto, states, trigger, T = case['proto'], case['states'], case['trigger'], case['timeout']
    n = len(states)
    addrs = ['127.0.0.%d' % (i + 1) for i in range(n)]
    state = dict(zip(addrs, states))
    ch = W.RandomChooser(random.Random(seed * 11 + 3), p_time=0.0, p_preempt=rng.choice([0.0, 0.1, 0.3]))
    env = SimEnv(ch, addresses=addrs, max_virtual_time=2000.0)
    # state 'orphan': the pool's connection is past its orphan threshold (three requests timed out on the client), so the next borrow makes the
    # pool replace it - here while the switch's per-connection USE is still unanswered.  Driven for v3+ pools with the async trigger and a
    # coordinator that is not such a node (a borrow for the USE statement itself would start the replacement before the switch); otherwise
    # the node simply behaves as 'open'.
    orphan_nodes = [a for a in addrs if state[a] == 'orphan']
    orphan_active = bool(orphan_nodes) and trigger == 'async' and proto >= 3 and any(state[a] in ('open', 'lost', 'error') for a in addrs)
    if orphan_active:
        env.conn_class.max_in_flight = 8
        env.conn_class.orphaned_threshold = 3
    hold_mode = trigger == 'async'
    lost_kind = rng.choice(['reset', 'close'])
    mute = {}                       # address -> number of OPTIONS still to be swallowed
    plan = {}                       # uid -> 'hold'
    convict = dict((a, True) for a in addrs)
    for a in addrs:
        if state[a] == 'noconn':
            convict[a] = False
        elif state[a] == 'lost':
            convict[a] = rng.random() < 0.5
    holding = [True]                # async trigger: answers to the per-connection USE are kept back while this is set
    mark = [None]                   # number of connections that existed when the switch was triggered
    use_log = []                    # every USE ks2 seen at a node
    errors_answered = []
    lost_conns = []
    R = {'outcome': None, 'viol': [], 'calls': [], 'skip': None}

    def behaviour(node, cstate, req):
        a = node.address
        if req['op'] == 'OPTIONS' and mute.get(a, 0) > 0:
            # the replacement connection is "connected at the node" but its handshake answer is kept back: the pool has no connection meanwhile
            mute[a] -= 1
            r = node.default_reaction(cstate, req)
            if not hold_mode:
                w_ = env.world
                w_.add_timer(3.0, release_handshakes, label='harness-release-handshake')
            return ('hold', r[1])
        if req['op'] != 'QUERY':
            return None
        q = req['query']
        uid = uid_of(q)
        if uid is not None:
            r = node.rows(cstate, req, ECHO_COLS, [[uid, a]], 'ks', 't')
            if plan.get(uid) == 'silent':
                return ('silence',)
            return ('hold', r[1]) if plan.get(uid) == 'hold' else r
        if state[a] == 'building' and build_mark.get(a) is not None and cstate.conn.sim_id >= build_mark[a] and cstate.conn.sim_creator == 'pool-init' \
                and INIT_USE_RE.match(q) and not build_held.get(a) and build_open[0]:
            # the pool that on_up is building for this host: the answer to its initial USE <initial keyspace> is kept back
            build_held[a] = True
            r = node.default_reaction(cstate, req)
            return ('hold', r[1])
        m = USE_RE.match(q)
        if not m:
            return None
        internal = bool(m.group(1))
        old = mark[0] is not None and cstate.conn.sim_id < mark[0]
        ent = {'node': a, 'conn': cstate.conn.sim_id, 'internal': internal, 't': env.world.now, 'how': 'ok'}
        use_log.append(ent)
        if state[a] == 'error':
            ent['how'] = 'error'
            r = node.error(cstate, req, 'invalid', "Keyspace 'ks2' does not exist")
            if hold_mode and internal and holding[0]:
                return ('hold', r[1])
            errors_answered.append(ent)
            return r
        if state[a] == 'lost' and internal and old:
            ent['how'] = 'lost'
            if hold_mode and holding[0]:
                lost_conns.append(cstate.conn)
                return ('silence',)
            return (lost_kind,)
        r = node.default_reaction(cstate, req)
        if hold_mode and internal and old and holding[0]:
            return ('hold', r[1])
        return r

    build_mark = {}                 # address -> connections created from this id on belong to the pool being rebuilt
    build_held = {}

    build_open = [True]

    def release_initial_use():
        build_open[0] = False           # from now on nothing is kept back any more
        for h in list(env.net.held):
            if not h.done and INIT_USE_RE.match(h.req.get('query') or ''):
                h.release()

    def release_handshakes():
        for h in list(env.net.held):
            if not h.done and h.req['op'] == 'OPTIONS':
                h.release()

    for nd in env.net.nodes.values():
        nd.behaviour = behaviour

    class PerHostConviction(ConvictionPolicy):
        def add_failure(self, connection_exc):
            return convict.get(self.host.endpoint.address, True)

        def reset(self):
            pass

    uid_counter = itertools.count(1)
    with env:
        w = env.world
        prof = ExecutionProfile(load_balancing_policy=RoundRobinPolicy(), request_timeout=T, retry_policy=FallthroughRetryPolicy())
        cluster = env.cluster(contact_points=[addrs[0]], executor_threads=min(8, 3 + 2 * states.count('noconn')), protocol_version=proto,
                              execution_profiles={EXEC_PROFILE_DEFAULT: prof}, conviction_policy_factory=PerHostConviction,
                              reconnection_policy=ConstantReconnectionPolicy(2.0, max_attempts=None), connect_timeout=5.0)
        ncore = 1
        if proto < 3:
            ncore = case['core']
            cluster.set_core_connections_per_host(HostDistance.LOCAL, ncore)
            cluster.set_max_connections_per_host(HostDistance.LOCAL, 2)
        session = cluster.connect(case['init_ks'], wait_for_all_pools=True)
        other = None
        if 'shutdown' in states:
            other = cluster.connect(wait_for_all_pools=True)     # a bystander session: keeps the host "connected" so the down event is discounted
        w.settle(advance=False)
        hosts = dict((h.endpoint.address, h) for h in cluster.metadata.all_hosts())
        if len(session._pools) != n or set(hosts) != set(addrs):
            R['skip'] = 'connect did not create every pool'
            release_initial_use()
            release_handshakes()
            w.settle(advance=False)
            cluster.shutdown()
            w.settle(until=w.now + 30)
            return R, env

        def kill_pool(sess, a):
            pool = sess._pools.get(hosts[a])
            conns = list(pool.get_connections())
            for c in conns:
                uid = next(uid_counter)
                plan[uid] = 'hold'
                sess.execute_async(uid_query(uid), host=hosts[a], timeout=30.0)
            w.settle(advance=False)
            for c in conns:
                env.net.server_close(c, reset=True)
            w.settle(advance=False)
            return pool

        # ---- drive the pools into their states
        # state 'building': the host went down, its reconnection succeeded and on_up is building a new pool whose initial USE <initial keyspace>
        # is not answered yet (the session has no pool for the host meanwhile); without an initial keyspace there is nothing to wait for and the
        # state is an ordinary open pool after a down/up cycle
        R['building_pools'] = 0
        for a in addrs:
            if state[a] == 'building':
                build_mark[a] = len(env.net.conns) + 0
                kill_pool(session, a)
                build_mark[a] = len(env.net.conns)
        if any(state[a] == 'building' for a in addrs):
            w.advance_to(w.now + 2.3)
            w.settle(advance=False)
            with w.inspect():
                for a in addrs:
                    if state[a] != 'building':
                        continue
                    pool = session._pools.get(hosts[a])
                    if case['init_ks']:
                        if pool is not None or not build_held.get(a):
                            R['skip'] = 'state building not reached'
                        else:
                            R['building_pools'] += 1
                    elif pool is None or pool.is_shutdown:
                        R['skip'] = 'state building not reached'
        R['orphan_pools'] = 0
        if orphan_active:
            for a in orphan_nodes:
                for _ in range(3):
                    uid = next(uid_counter)
                    plan[uid] = 'silent'
                    session.execute_async(uid_query(uid), host=hosts[a], timeout=0.3)
            w.settle(advance=False)
            w.advance_to(w.now + 0.5)
            w.settle(advance=False)
            with w.inspect():
                for a in orphan_nodes:
                    pool = session._pools.get(hosts[a])
                    c = pool._connection if pool is not None else None
                    if c is None or not c.orphaned_threshold_reached or pool.is_shutdown:
                        R['skip'] = 'state orphan not reached'
                    else:
                        R['orphan_pools'] += 1
        for a in addrs:
            if state[a] == 'noconn':
                mute[a] = 8          # connection attempts in the window do not see SUPPORTED yet: they sit in the factory
                pool = kill_pool(session, a)
                with w.inspect():
                    ok = (not pool.is_shutdown) and len(pool.get_connections()) == 0 and session._pools.get(hosts[a]) is pool
                if not ok:
                    R['skip'] = 'state noconn not reached'
            elif state[a] == 'shutdown':
                pool = kill_pool(session, a)
                with w.inspect():
                    ok = pool.is_shutdown and session._pools.get(hosts[a]) is pool and hosts[a].is_up
                if not ok:
                    R['skip'] = 'state shutdown not reached'
        if R['skip']:
            release_initial_use()
            release_handshakes()
            w.settle(advance=False)
            cluster.shutdown()
            w.settle(until=w.now + 30)
            return R, env

        # ---- observe the pools from outside
        order = itertools.count()

        def wrap(pool):
            orig = pool._set_keyspace_for_all_conns

            def wrapped(keyspace, callback):
                rec = {'host': str(pool.host.endpoint.address), 'cls': type(pool).__name__, 'shutdown': bool(pool.is_shutdown),
                       'conns': len(pool.get_connections()), 'called_back': False, 'errors': None, 'seq': None}
                R['calls'].append(rec)

                def cb(p, errors):
                    rec['called_back'], rec['errors'], rec['seq'] = True, [repr(e)[:80] for e in errors], next(order)
                    return callback(p, errors)
                return orig(keyspace, cb)
            pool._set_keyspace_for_all_conns = wrapped
        with w.inspect():
            for pool in list(session._pools.values()):
                wrap(pool)
            mark[0] = len(env.net.conns)
            R['pre'] = [(str(h.endpoint.address), type(p).__name__, bool(p.is_shutdown), len(p.get_connections())) for h, p in session._pools.items()]
        t_trigger = w.now

        # ---- the switch
        outcome = []
        usable = [a for a in addrs if state[a] in ('open', 'lost', 'error')]
        coord = hosts[rng.choice(usable)] if usable and (rng.random() < 0.8 or orphan_active) else None     # else: whatever the load balancer yields first
        if trigger == 'async':
            f = session.execute_async("USE ks2", host=coord)
            f.add_callbacks(lambda rows: outcome.append(('ok', w.now)), lambda exc: outcome.append(('err', w.now, exc)))
            w.settle(advance=False)
            pending = [h for h in env.net.held if not h.done and USE_RE.match(h.req.get('query') or '')]
            acts = [('release', h) for h in pending] + [('lose', c) for c in lost_conns]
            if orphan_active:
                acts += [('borrow', a) for a in orphan_nodes]        # a request to that host: the pool starts replacing its connection
            acts += [('init_use', h) for h in env.net.held if not h.done and INIT_USE_RE.match(h.req.get('query') or '')]
            if rng.random() < 0.4:
                acts += [('handshake', h) for h in env.net.held if not h.done and h.req['op'] == 'OPTIONS']     # the replacement may finish in the middle
            perms = None
            if len(acts) <= 4:
                perms = list(itertools.permutations(range(len(acts))))
                perm = perms[case['order'] % len(perms)]
            else:
                perm = list(range(len(acts)))
                rng.shuffle(perm)
            for i in perm:
                kind, obj = acts[i]
                if kind == 'release':
                    if state[obj.node.address] == 'error' and not obj.conn.is_closed:
                        errors_answered.append({'node': obj.node.address, 'conn': obj.conn.sim_id, 'internal': True, 'how': 'error'})
                    obj.release()
                elif kind == 'handshake':
                    obj.release()
                elif kind == 'init_use':
                    obj.release()
                elif kind == 'borrow':
                    session.execute_async(uid_query(next(uid_counter)), host=hosts[obj], timeout=5.0)
                    w.settle(advance=False)
                else:
                    env.net.server_close(obj, reset=lost_kind == 'reset')
                if rng.random() < 0.7:
                    w.settle(advance=False)
            w.settle(advance=False)
            # answers held for requests that arrived later (a USE sent after a release): let them go as well
            for _ in range(6):
                more = [h for h in env.net.held if not h.done and USE_RE.match(h.req.get('query') or '')]
                if not more:
                    break
                for h in more:
                    if state[h.node.address] == 'error' and not h.conn.is_closed:
                        errors_answered.append({'node': h.node.address, 'conn': h.conn.sim_id, 'internal': True, 'how': 'error'})
                    h.release()
                w.settle(advance=False)
            holding[0] = False
            release_initial_use()
            if not outcome and rng.random() < 0.5:
                w.settle(until=w.now + 2.0)
            release_handshakes()
            w.settle(advance=False)
            if not outcome:
                w.settle(until=w.now + (60.0 if T is None else T + 20.0))
            if not outcome:
                R['outcome'] = ('pending', "execute_async('USE ks2') still pending at t+%.1f s; no node owes an answer" % (w.now - t_trigger))
            else:
                R['outcome'] = outcome[0]
        else:
            try:
                if trigger == 'execute':
                    session.execute("USE ks2", host=coord)
                else:
                    session.set_keyspace("ks2")
                R['outcome'] = ('ok', w.now)
            except W.WorldHang as e:
                R['outcome'] = ('hang', str(e))
                R['trace'] = tuple(x[:2] for x in w.trace)
                return R, env
            except W.WorldLimit:
                raise
            except Exception as e:
                R['outcome'] = ('err', w.now, e)
        R['t_done'] = w.now - t_trigger
        if R['outcome'][0] == 'pending':
            with w.inspect():
                R['owed'] = [(h.node.address, h.conn.sim_id) for h in env.net.held if not h.done and not h.conn.is_closed and USE_RE.match(h.req.get('query') or '')]
            R['trace'] = tuple(x[:2] for x in w.trace)
            release_initial_use()
            release_handshakes()
            w.settle(advance=False)
            cluster.shutdown()
            w.settle(until=w.now + 30)
            return R, env

        # ---- (c) error reporting
        false_success = bool(errors_answered) and R['outcome'][0] == 'ok'
        if false_success:
            R['viol'].append(('c', "the switch reported success although node(s) %s answered USE with an error" % sorted(set(e['node'] for e in errors_answered))))

        def stale_info(conn, a, pool):
            rec = [c for c in R['calls'] if c['host'] == a]
            return {'creator': conn.sim_creator, 'existed_at_trigger': conn.sim_id < mark[0], 'opened_before_switch_end': conn.sim_created_at <= t_end,
                    'node_ks': conn.peer.keyspace, 'client_ks': conn.keyspace, 'state': state[a], 'pool': type(pool).__name__,
                    'pool_ks': getattr(pool, '_keyspace', None), 'pool_conns_at_switch': rec[0]['conns'] if rec else None,
                    'got_use_ks2': any(u['conn'] == conn.sim_id and u['internal'] for u in use_log), 'init_ks': case['init_ks']}

        t_end = w.now
        # ---- let replacements / reconnections finish
        mute.clear()
        release_initial_use()
        release_handshakes()
        w.settle(until=w.now + 40.0)
        R['checked_conns'] = 0
        R['probes'] = 0
        R['replaced_after'] = 0
        if R['outcome'][0] == 'ok' and not false_success:
            # connections created later: lose the connection of some healthy pools now and let the pool replace it
            victims = [a for a in addrs if state[a] == 'open' and rng.random() < 0.6][:2]
            for a in victims:
                with w.inspect():
                    pool = session._pools.get(hosts[a])
                    usable = pool is not None and not pool.is_shutdown and len(pool.get_connections()) > 0
                if usable:
                    convict[a] = False
                    kill_pool(session, a)
                    R['replaced_after'] += 1
            if victims:
                w.settle(until=w.now + 30.0)
            # probe requests: which connection does a later request travel on, and what keyspace has it at the node?
            probes = {}
            for a in addrs:
                uid = next(uid_counter)
                probes[uid] = a
                session.execute_async(uid_query(uid), host=hosts[a], timeout=5.0)
            w.settle(until=w.now + 8.0)
            with w.inspect():
                for req in env.net.wire_log:
                    uid = uid_of(req.get('query') or '') if req['op'] == 'QUERY' else None
                    if uid in probes:
                        R['probes'] += 1
                        conn = env.net.conns[req['_conn']]
                        if conn.peer.keyspace != 'ks2' or conn.keyspace != 'ks2':
                            R['viol'].append(('b', "a request sent after the successful switch travelled on connection %d to %s (created by %s at t=%.1f) whose keyspace is %r at the node and %r at the client" % (
                                conn.sim_id, req['_node'], conn.sim_creator, conn.sim_created_at, conn.peer.keyspace, conn.keyspace),
                                stale_info(conn, req['_node'], session._pools.get(hosts[req['_node']]))))
                if session.keyspace != 'ks2':
                    R['viol'].append(('b', "session.keyspace is %r after the successful switch" % (session.keyspace,), {'session': True}))
                for h, pool in list(session._pools.items()):
                    if pool.is_shutdown:
                        continue
                    for conn in list(pool.get_connections()):
                        if conn.is_closed or conn.is_defunct:
                            continue
                        R['checked_conns'] += 1
                        if conn.peer.keyspace != 'ks2' or conn.keyspace != 'ks2':
                            a = h.endpoint.address
                            R['viol'].append(('b', "pooled connection %d to %s (created by %s at t=%.1f) has keyspace %r at the node and %r at the client after the successful switch" % (
                                conn.sim_id, a, conn.sim_creator, conn.sim_created_at, conn.peer.keyspace, conn.keyspace),
                                stale_info(conn, a, pool)))
        R['trace'] = tuple(x[:2] for x in w.trace)
        R['uses'] = len(use_log)
        release_initial_use()
        release_handshakes()
        w.settle(advance=False)
        cluster.shutdown()
        w.settle(until=w.now + 30)
    return R, env


def run_sequence_history(seed):
    """Several consecutive switches on one session (pools all open): the same target repeated after a failed attempt, A->B->A, A->B->C;
    per (switch, node) the node accepts or refuses the keyspace (InvalidRequest, connection stays open).  After every switch: an answered
    error must be reported, and after a reported success every pooled connection / probe request must be on that keyspace at the node."""
    from sim.env import SimEnv
    from sim import world as W
    from sim.scen import uid_query, uid_of, ECHO_COLS
    from cassandra.cluster import ExecutionProfile, EXEC_PROFILE_DEFAULT
    from cassandra.policies import RoundRobinPolicy, HostDistance, FallthroughRetryPolicy

    rng = random.Random(seed)
    random.seed(seed)
    n = rng.choice([1, 2, 2, 3])
    proto = rng.choice([4, 4, 3, 2])
    init_ks = rng.choice([None, 'ks1', 'ks1'])
    addrs = ['127.0.0.%d' % (i + 1) for i in range(n)]
    n_switch = rng.choice([2, 2, 3])
    pattern = rng.choice(['retry', 'retry', 'back', 'chain', 'random'])
    if pattern == 'retry':
        targets = ['ks2'] * n_switch
    elif pattern == 'back':
        targets = (['ks2', init_ks or 'ks1', 'ks2'])[:n_switch]
    elif pattern == 'chain':
        targets = ['ks2', 'ks3', 'ks2'][:n_switch]
    else:
        targets = [rng.choice(['ks1', 'ks2', 'ks3']) for _ in range(n_switch)]
    # optionally one host's pool is being rebuilt by on_up during the whole sequence: its initial USE <initial keyspace> and the catch-up USEs
    # that follow are kept back at the node and let go one at a time between the switches (several switches during one pool creation)
    building = addrs[-1] if (n >= 2 and init_ks and rng.random() < 0.4) else None
    if building:
        targets = ['ks2', 'ks3', 'ks2'][:n_switch]
    # refuse[i][a]: node a refuses the keyspace of switch i; the first switch fails somewhere more often than not
    refuse = []
    for i in range(n_switch):
        p_ref = (0.5 if i == 0 else 0.25) * (0.4 if building else 1.0)
        refuse.append(dict((a, rng.random() < p_ref and a != building) for a in addrs))
    triggers = [rng.choice(['execute', 'set_keyspace', 'async']) for _ in range(n_switch)]
    ch = W.RandomChooser(random.Random(seed * 11 + 3), p_time=0.0, p_preempt=rng.choice([0.0, 0.1, 0.3]))
    env = SimEnv(ch, addresses=addrs, max_virtual_time=2000.0)
    cur = [None]
    use_re = re.compile(r'\s*use\s+("?)(ks\d)\1\s*;?\s*$', re.I)
    errors_answered = []
    use_seen = []
    R = {'viol': [], 'steps': [], 'case': {'proto': proto, 'nodes': n, 'init_ks': init_ks, 'targets': targets, 'refuse': refuse, 'triggers': triggers},
         'checked_conns': 0, 'probes': 0, 'ok': 0, 'err': 0, 'retries_after_failure': 0}

    reset_uids = set()
    bstate = {'mark': None, 'hold': 0, 'held': 0}

    def release_one_building_use(all_=False):
        done = False
        for h in list(env.net.held):
            if not h.done and use_re.match(h.req.get('query') or ''):
                h.release()
                done = True
                if not all_:
                    return True
        return done

    def behaviour(node, cstate, req):
        if req['op'] != 'QUERY':
            return None
        q = req['query']
        uid = uid_of(q)
        if uid is not None:
            if uid in reset_uids:
                return ('reset',)
            return node.rows(cstate, req, ECHO_COLS, [[uid, node.address]], 'ks', 't')
        m = use_re.match(q)
        if m and bstate['mark'] is not None and node.address == building and cstate.conn.sim_creator == 'pool-init' and cstate.conn.sim_id >= bstate['mark'] \
                and bstate['hold'] > 0 and bstate['session']._pools.get(bstate['host']) is None:
            # (only while the pool is under construction: once it is installed its connection answers like any other)
            bstate['hold'] -= 1
            bstate['held'] += 1
            r = node.default_reaction(cstate, req)
            return ('hold', r[1])
        if not m or cur[0] is None:
            return None
        i = cur[0]
        use_seen.append((i, node.address, cstate.conn.sim_id, m.group(2)))
        if m.group(2) == targets[i] and refuse[i][node.address]:
            errors_answered.append((i, node.address))
            return node.error(cstate, req, 'invalid', "Keyspace '%s' does not exist" % m.group(2))
        return None

    for nd in env.net.nodes.values():
        nd.behaviour = behaviour
    uid_counter = itertools.count(1)
    with env:
        w = env.world
        prof = ExecutionProfile(load_balancing_policy=RoundRobinPolicy(), request_timeout=None, retry_policy=FallthroughRetryPolicy())
        from cassandra.policies import ConstantReconnectionPolicy
        cluster = env.cluster(contact_points=[addrs[0]], executor_threads=3, protocol_version=proto, execution_profiles={EXEC_PROFILE_DEFAULT: prof},
                              reconnection_policy=ConstantReconnectionPolicy(2.0, max_attempts=None))
        if proto < 3:
            cluster.set_core_connections_per_host(HostDistance.LOCAL, rng.choice([1, 2]))
            cluster.set_max_connections_per_host(HostDistance.LOCAL, 2)
        session = cluster.connect(init_ks, wait_for_all_pools=True)
        w.settle(advance=False)
        hosts = dict((h.endpoint.address, h) for h in cluster.metadata.all_hosts())
        R['building'] = False
        if building:
            pool = session._pools.get(hosts[building])
            for c in list(pool.get_connections()):
                uid = next(uid_counter)
                reset_uids.add(uid)
                session.execute_async(uid_query(uid), host=hosts[building], timeout=30.0)
            w.settle(advance=False)
            bstate['mark'] = len(env.net.conns)
            bstate['session'], bstate['host'] = session, hosts[building]
            bstate['hold'] = n_switch + 1
            w.advance_to(w.now + 2.3)
            w.settle(advance=False)
            with w.inspect():
                R['building'] = session._pools.get(hosts[building]) is None and bstate['held'] == 1
            if not R['building']:
                bstate['hold'] = 0
                release_one_building_use(all_=True)
                w.settle(advance=False)
        failed_before = set()

        def verify(i, target, label):
            # (b) after a reported success: every pooled connection, and the connection a later request travels on, is on `target`
            probes = {}
            for a in addrs:
                uid = next(uid_counter)
                probes[uid] = a
                session.execute_async(uid_query(uid), host=hosts[a], timeout=5.0)
            w.settle(advance=False)
            if not (R['building'] and label == 'after'):
                w.settle(until=w.now + 8.0)      # (not while a pool is under construction: its catch-up waits only connect_timeout for an answer)
            with w.inspect():
                asked = sorted(set(x[1] for x in use_seen if x[0] == i))
                for req in env.net.wire_log:
                    uid = uid_of(req.get('query') or '') if req['op'] == 'QUERY' else None
                    if uid in probes:
                        R['probes'] += 1
                        conn = env.net.conns[req['_conn']]
                        if conn.peer.keyspace != target:
                            R['viol'].append(('b', "%s switch %d (USE %s) reported success a request travelled on connection %d to %s whose keyspace at the node is %r" % (
                                label, i, target, conn.sim_id, req['_node'], conn.peer.keyspace),
                                {'step': i, 'node_ks': conn.peer.keyspace, 'client_ks': conn.keyspace, 'nodes_asked_in_this_switch': asked,
                                 'same_target_failed_before': target in failed_before, 'session_ks': session.keyspace}))
                for h, pool in list(session._pools.items()):
                    if pool.is_shutdown:
                        continue
                    for conn in list(pool.get_connections()):
                        if conn.is_closed or conn.is_defunct:
                            continue
                        R['checked_conns'] += 1
                        if conn.peer.keyspace != target or conn.keyspace != target:
                            R['viol'].append(('b', "%s switch %d (USE %s) reported success pooled connection %d to %s has keyspace %r at the node and %r at the client" % (
                                label, i, target, conn.sim_id, h.endpoint.address, conn.peer.keyspace, conn.keyspace),
                                {'step': i, 'node_ks': conn.peer.keyspace, 'client_ks': conn.keyspace, 'nodes_asked_in_this_switch': asked,
                                 'same_target_failed_before': target in failed_before, 'session_ks': session.keyspace}))
                if session.keyspace != target:
                    R['viol'].append(('b', "session.keyspace is %r %s switch %d (USE %s) reported success" % (session.keyspace, label, i, target), {'step': i, 'session': True}))

        last_ok = None
        for i in range(n_switch):
            cur[0] = i
            target = targets[i]
            if target in failed_before:
                R['retries_after_failure'] += 1
            coord = hosts[rng.choice([a_ for a_ in addrs if a_ != building])] if (rng.random() < 0.8 or R['building']) else None
            n_err_before = len(errors_answered)
            outcome = None
            try:
                if triggers[i] == 'execute':
                    session.execute("USE %s" % target, host=coord)
                    outcome = ('ok',)
                elif triggers[i] == 'set_keyspace':
                    session.set_keyspace(target)
                    outcome = ('ok',)
                else:
                    f = session.execute_async("USE %s" % target, host=coord)
                    w.settle(advance=False)
                    if not f._event.is_set():
                        w.settle(until=w.now + 30.0)
                    if not f._event.is_set():
                        R['viol'].append(('a', "switch %d (USE %s) is still pending 30 s after every node answered" % (i, target), {'step': i}))
                        break
                    outcome = ('ok',) if f._final_exception is None else ('err', f._final_exception)
            except W.WorldHang as e:
                R['viol'].append(('a', "switch %d (USE %s, %s) never returns: %s" % (i, target, triggers[i], str(e)[:200]), {'step': i}))
                R['trace'] = tuple(x[:2] for x in w.trace)
                return R, env
            except W.WorldLimit:
                raise
            except Exception as e:
                outcome = ('err', e)
            w.settle(advance=False)
            answered = [x for x in errors_answered[n_err_before:]]
            R['steps'].append((target, triggers[i], outcome[0], sorted(set(a for _, a in answered))))
            if outcome[0] == 'ok':
                R['ok'] += 1
            else:
                R['err'] += 1
                failed_before.add(target)
            if answered and outcome[0] == 'ok':
                R['viol'].append(('c', "switch %d (USE %s) reported success although node(s) %s answered USE with an error" % (
                    i, target, sorted(set(a for _, a in answered))), {'step': i}))
                continue
            if outcome[0] != 'ok':
                if R['building'] and rng.random() < 0.85:
                    release_one_building_use()
                    w.settle(advance=False)
                continue
            last_ok = (i, target)
            verify(i, target, 'after')
            if R['building'] and rng.random() < 0.85:
                release_one_building_use()        # the pool under construction gets one answer: its next (catch-up) USE goes out and is kept back again
                w.settle(advance=False)
        if R['building']:
            # let the pool creation finish; if the last switch reported success the freshly installed pool must be on its keyspace too
            bstate['hold'] = 0
            for _ in range(6):
                if not release_one_building_use(all_=True):
                    break
                w.settle(advance=False)
            w.settle(until=w.now + 10.0)
            if last_ok is not None and last_ok[0] == n_switch - 1 and not R['viol']:
                with w.inspect():
                    R['building_pool_installed'] = session._pools.get(hosts[building]) is not None
                verify(last_ok[0], last_ok[1], 'the pool creation finished after')
        R['trace'] = tuple(x[:2] for x in w.trace)
        cluster.shutdown()
        w.settle(until=w.now + 30)
    return R, env



def classify_incomplete(R):
    """Mechanism of a switch that never completed, from what the pool wrappers saw."""
    calls = R['calls']
    silent = [c for c in calls if not c['called_back']]
    if silent and all(c['cls'] == 'HostConnection' and (c['shutdown'] or c['conns'] == 0) for c in silent):
        return KNOWN_SKIP
    return "keyspace-switch-never-completes"


def classify_error_lost(R):
    calls = sorted([c for c in R['calls'] if c['called_back']], key=lambda c: c['seq'])
    if calls and len(calls) == len(R['calls']) and not calls[-1]['errors'] and any(c['errors'] for c in calls[:-1]):
        return KNOWN_LAST
    return "use-error-not-reported"


def classify_stale(info):
    if info.get('session'):
        return "session-keyspace-not-updated"
    if info.get('pool') == 'HostConnectionPool' and info.get('pool_conns_at_switch') == 0 and info.get('pool_ks') != 'ks2' \
            and info.get('node_ks') == info.get('init_ks') and not info.get('got_use_ks2'):
        # the pool had no connection when the switch came: it called back without remembering the keyspace, its later connections never get it
        return KNOWN_EMPTY
    if info.get('pool') == 'HostConnectionPool' and info.get('pool_ks') == 'ks2' and info.get('creator') in ('pool-grow', 'pool-replace') \
            and info.get('opened_before_switch_end') and not info.get('got_use_ks2') and info.get('node_ks') == info.get('init_ks'):
        # the connection was between "keyspace set from session.keyspace" and "appended to the pool" while the switch took its snapshot
        return KNOWN_RACE
    return "connection-with-stale-keyspace-after-successful-switch"


def run(ctx):
    from vlib import shim
    shim.import_cluster()
    from vlib.run import Inconclusive
    from sim.world import WorldLimit
    ctx.rule = ("a case is one history: protocol (v2 pools with 1-2 connections / v3+ single-connection pools), 1-4 pools each in a state from "
                "{open, no connection, shut down, USE error, USE swallowed then connection lost, past its orphan threshold and replaced while the USE is outstanding, being rebuilt by on_up with its initial USE outstanding}, trigger (execute_async with held answers released "
                "in a chosen order / execute / set_keyspace with chooser-picked delivery order), request timeout (none or finite), initial keyspace; "
                "every fourth history instead runs 2-3 consecutive switches on one session with all pools open (same target repeated after a failed attempt, "
                "A->B->A, A->B->C; per switch and node the keyspace is accepted or refused) and applies (a)(b)(c) after every switch; "
                "distinct by event-order signature of the world trace; non-trivial = at least one pool not in state open or at least 2 pools")
    ctx.assume("a request timeout ending a switch whose pools never all called back counts as 'completed with an error' (the statement only demands completion); "
               "the never-completes verdict is only drawn with request_timeout=None, where nothing else can end the wait")
    ctx.assume("a node in state 'error' answers every USE ks2 (the statement itself and the per-connection ones) with InvalidRequest; a node in state 'lost' "
               "answers the statement itself normally and only swallows the per-connection USE")
    cases = systematic_cases(2 if ctx.quick else 3)
    nw = max(1, ctx.nworkers)
    me = ctx.worker or 0
    mine = [c for i, c in enumerate(cases) if i % nw == me]
    ctx.rng.shuffle(mine)
    n_random = ctx.scale(1500, 40000)
    budget = 20 if ctx.quick else 150        # CPU seconds of this worker (vlib caps wall-clock at 4x)
    base = ctx.seed * 1000003 + me * 100003
    done_sys = 0
    i = 0
    while True:
        if ctx.time_left(budget) < 0:
            ctx.note("stopped by time budget after %d histories (%d of %d systematic)" % (i, done_sys, len(mine)))
            break
        # systematic cases first in thorough; interleaved in quick so that both kinds are seen within the time budget
        if i % 4 == 3:
            case = None
        elif mine and (not ctx.quick or i % 3 != 2):
            case = mine.pop()
            done_sys += 1
        elif n_random > 0:
            case = random_case(ctx.rng)
            n_random -= 1
        elif mine:
            case = mine.pop()
            done_sys += 1
        else:
            break
        if i % 4 == 3:
            # several consecutive switches on one session
            seed = base + i
            i += 1
            try:
                R, env = run_sequence_history(seed)
            except WorldLimit:
                ctx.count("histories_over_budget")
                continue
            except Exception as e:
                import traceback
                raise Inconclusive("sequence history seed %d failed in the harness: %s: %s\n%s" % (seed, type(e).__name__, e, traceback.format_exc()[-800:]))
            if env.world.errors or env.net.parse_failures:
                raise Inconclusive("harness error in sequence history seed %d: %r" % (seed, (list(env.world.errors) + list(env.net.parse_failures))[:2]))
            ctx.case(repr(R.get('trace')), nontrivial=True)
            ctx.count("sequence_histories")
            ctx.count("sequence_switches_reporting_success", R['ok'])
            ctx.count("sequence_switches_reporting_error", R['err'])
            ctx.count("sequence_switches_repeating_a_target_that_failed_before", R['retries_after_failure'])
            ctx.count("sequence_histories_with_a_pool_under_construction_across_the_switches", 1 if R.get('building') else 0)
            ctx.count("sequence_pools_installed_after_the_last_switch_and_checked", 1 if R.get('building_pool_installed') else 0)
            ctx.count("sequence_connections_checked_after_success", R['checked_conns'])
            ctx.count("sequence_probe_requests_located_on_the_wire", R['probes'])
            seen = set()
            for v in R['viol']:
                mech = {'a': "keyspace-switch-never-completes", 'c': "use-error-not-reported"}.get(v[0]) or \
                    ("session-keyspace-not-updated" if v[2].get('session') else "connection-with-stale-keyspace-after-successful-switch")
                if mech in seen:
                    continue
                seen.add(mech)
                ctx.violation(mech, "%s [sequence %s, v%d, %d nodes, init=%s]" % (v[1], R['steps'], R['case']['proto'], R['case']['nodes'], R['case']['init_ks']),
                              {"seed": seed, "case": R['case'], "steps": R['steps'], "detail": v[2]})
            if not R['viol'] and len(ctx.samples) < 6 and R['retries_after_failure'] and R['ok']:
                ctx.sample({"sequence": R['steps'], "case": R['case'], "checked_conns": R['checked_conns'], "probes": R['probes']})
            continue
        seed = base + i
        i += 1
        try:
            R, env = run_history(seed, case)
        except WorldLimit:
            ctx.count("histories_over_budget")
            continue
        except Exception as e:
            import traceback
            raise Inconclusive("history seed %d %r failed in the harness: %s: %s\n%s" % (seed, case, type(e).__name__, e, traceback.format_exc()[-800:]))
        if env.world.errors or env.net.parse_failures:
            raise Inconclusive("harness error in history seed %d %r: %r" % (seed, case, (list(env.world.errors) + list(env.net.parse_failures))[:2]))
        if R['skip']:
            ctx.count("setup_not_reached")
            ctx.count("setup_not_reached: " + R['skip'])
            continue
        desc = "v%d %s states=%s timeout=%s init=%s" % (case['proto'], case['trigger'], ",".join(case['states']), case['timeout'], case['init_ks'])
        ctx.case(repr(R.get('trace')), nontrivial=len(case['states']) >= 2 or case['states'][0] != 'open')
        ctx.count("histories")
        ctx.count("histories_" + case['trigger'])
        for s in case['states']:
            ctx.count("pools_in_state_" + s)
        ctx.count("pool_callbacks_observed", sum(1 for c in R['calls'] if c['called_back']))
        ctx.count("use_frames_seen_at_nodes", R.get('uses', 0))
        kind = R['outcome'][0]
        ctx.count("outcome_" + kind)
        wit = {"seed": seed, "case": case, "pools_before": R.get('pre'), "pool_calls": R['calls'], "outcome": repr(R['outcome'])[:300]}
        if kind in ('hang', 'pending'):
            if case['timeout'] is None:
                ctx.violation(classify_incomplete(R), "the keyspace switch never completes [%s]: %s" % (desc, R['outcome'][1][:300]), wit)
            else:
                ctx.violation("keyspace-switch-outlives-its-request-timeout", "the switch is still pending after its request timeout [%s]" % desc, wit)
            continue
        if kind == 'ok':
            ctx.count("successful_switches")
            ctx.count("connections_checked_after_success", R['checked_conns'])
            ctx.count("probe_requests_located_on_the_wire", R['probes'])
            ctx.count("connections_lost_and_replaced_after_success", R['replaced_after'])
            ctx.count("successful_switches_with_orphan_threshold_replacement_during_the_switch", 1 if R.get('orphan_pools') else 0)
            ctx.count("successful_switches_while_a_pool_was_waiting_for_its_initial_use", 1 if R.get('building_pools') else 0)
        else:
            ctx.count("switches_reporting_error")
            if "OperationTimedOut" in repr(R['outcome'][2]) and any(not c['called_back'] for c in R['calls']):
                ctx.count("switches_ended_only_by_the_request_timer")
        seen = set()
        for v in R['viol']:
            if v[0] == 'c':
                mech = classify_error_lost(R)
            else:
                mech = classify_stale(v[2])
            if mech in seen:
                continue
            seen.add(mech)
            w2 = dict(wit)
            if len(v) > 2:
                w2['detail'] = v[2]
            ctx.violation(mech, "%s [%s]" % (v[1], desc), w2)
        if not R['viol'] and len(ctx.samples) < 5 and len(case['states']) >= 2 and i % 7 == 0:
            ctx.sample({"case": case, "outcome": repr(R['outcome'])[:120], "pool_calls": R['calls'], "checked_conns": R.get('checked_conns'),
                        "probes": R.get('probes')})
    if not mine:
        ctx.count("systematic_cases_completed_by_worker", 1)
    ctx.floor_distinct = 60 if ctx.quick else 1500
    ctx.floor_counters = {"histories": 60, "pool_callbacks_observed": 60, "successful_switches": 15, "switches_reporting_error": 15,
                          "connections_checked_after_success": 25, "probe_requests_located_on_the_wire": 25,
                          "sequence_histories": 15, "sequence_histories_with_a_pool_under_construction_across_the_switches": 5, "sequence_pools_installed_after_the_last_switch_and_checked": 2, "sequence_switches_repeating_a_target_that_failed_before": 5, "sequence_connections_checked_after_success": 15,
                          "pools_in_state_noconn": 10, "pools_in_state_orphan": 10, "pools_in_state_building": 10, "successful_switches_while_a_pool_was_waiting_for_its_initial_use": 3, "successful_switches_with_orphan_threshold_replacement_during_the_switch": 3, "pools_in_state_shutdown": 10, "pools_in_state_error": 10, "pools_in_state_lost": 10}
