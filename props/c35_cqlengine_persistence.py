"""C35 - cqlengine persists exactly the model state.

Monitor: dynamically defined models (1-2 partition keys, 0-2 clustering keys, scalar / set / list / map columns, static columns,
counter tables) are driven through operation sequences of the mapper - Model.create / instance.save, attribute changes
(assignment, None, in-place collection mutation) + save / update(**kw), blind query-set updates with
__add/__remove/__append/__prepend/__update, deletes of rows and partitions, static-only rows, BatchQuery, ttl / timestamp /
if_not_exists / if_exists / iff - executed through cqlengine on the real Session of the deterministic world whose ``execute`` is
intercepted.  Every emitted statement is parsed together with its parameter dict and applied to ``spec/cqlsem.py`` (in-memory
tables with Cassandra's semantics); SELECTs are answered from the interpreter, so reads go through the model's own result
construction.
Oracle: (1) a statement the interpreter rejects as invalid CQL is a violation; (2) after every step the rows of the touched
partitions read back through the mapper must equal a shadow state maintained from the documented semantics of each operation
(None and the empty collection are the same value; a row whose regular columns are all null is the same as no row); (3) the
acting instance's own values must equal the shadow row.
"""
import collections

PROPERTY = "C35"
LEVEL = "exploration"
ENGINE = "spec+sim"
TECHNIQUE = "runtime monitor: emitted CQL executed on an independent in-memory CQL interpreter, read back through the mapper, compared with a shadow state"
LEVEL_TEXT = ("exploration: thousands (quick) to ~100k (thorough) seeded operation sequences of <= 10 steps over generated models; every "
              "statement is validated and executed by an independent interpreter of Cassandra's DML semantics and every step is followed by "
              "reads through the mapper compared with the documented effect of the operation")
LEVEL_NOTE = ("trusted base: spec/cqllex.py, spec/cqlstmt.py, spec/cqlsem.py (current Cassandra semantics; TTL / TIMESTAMP / IF are carried "
              "but not evaluated; batches touching a cell twice are skipped as undefined); column types are limited to int / bigint / text / "
              "boolean and collections of int / text (value conversion of other types is C36's subject)")
QUICK_WORKERS = 2
WORKERS = 12

K_DELETE_CK = "null-column-delete-with-map-key-removal-omits-clustering-key"
K_MAP_ASSIGN = "queryset-update-map-assignment-merges-instead-of-overwriting"
K_MAP_EMPTY = "queryset-update-empty-map-delta-clears-the-map"
K_STATIC_NULL = "static-only-instance-column-and-map-key-deletions-not-emitted"
K_REDELETE = "unchanged-null-column-deleted-again-on-every-save"
K_STALE_PREV = "collection-emptied-in-place-keeps-stale-previous-value"


class Rejected(Exception):
    def __init__(self, text, params, why):
        Exception.__init__(self, why)
        self.text, self.params, self.why = text, params, why


class UndefinedOp(Exception):
    pass


class FakeResult(list):
    def one(self):
        return self[0] if self else None


# --------------------------------------------------------------------------------------------
# models
# --------------------------------------------------------------------------------------------
class ColSpec(object):
    def __init__(self, attr, kind, role):
        self.attr, self.kind, self.role = attr, kind, role
        self.container = kind.split("<")[0] if "<" in kind else None


SCALAR_T = {"int": ("int",), "bigint": ("bigint",), "text": ("text",), "bool": ("boolean",), "counter": ("counter",)}


def spec_type(kind):
    if kind in SCALAR_T:
        return SCALAR_T[kind]
    if kind.startswith("set<"):
        return ("set", SCALAR_T[kind[4:-1]])
    if kind.startswith("list<"):
        return ("list", SCALAR_T[kind[5:-1]])
    a, b = kind[4:-1].split(",")
    return ("map", SCALAR_T[a], SCALAR_T[b])


def make_column(C, cs):
    kw = {}
    if cs.role == "pk":
        kw["partition_key"] = True
    elif cs.role == "ck":
        kw["primary_key"] = True
    elif cs.role == "static":
        kw["static"] = True
    scalar = {"int": C.Integer, "bigint": C.BigInt, "text": C.Text, "bool": C.Boolean}
    k = cs.kind
    if k == "counter":
        return C.Counter()
    if k in scalar:
        return scalar[k](**kw)
    if k.startswith("set<"):
        return C.Set(scalar[k[4:-1]], **kw)
    if k.startswith("list<"):
        return C.List(scalar[k[5:-1]], **kw)
    a, b = k[4:-1].split(",")
    return C.Map(scalar[a], scalar[b], **kw)


class ModelSpec(object):
    pass


def build_model(rng, C, models, SEM, db, uid):
    sp = ModelSpec()
    npk, nck = rng.choice([1, 1, 2]), rng.choice([0, 1, 1, 2])
    counter = rng.random() < 0.12
    cols = [ColSpec("k%d" % i, rng.choice(["int", "text"]), "pk") for i in range(npk)]
    cols += [ColSpec("c%d" % i, rng.choice(["int", "text"]), "ck") for i in range(nck)]
    if counter:
        for i in range(rng.randint(1, 3)):
            cols.append(ColSpec("n%d" % i, "counter", "reg"))
    else:
        for i in range(rng.randint(2, 6)):
            r = rng.random()
            if r < 0.4:
                kind = rng.choice(["int", "text", "bool", "bigint"])
            elif r < 0.6:
                kind = "set<%s>" % rng.choice(["int", "text"])
            elif r < 0.8:
                kind = "list<%s>" % rng.choice(["int", "text"])
            else:
                kind = "map<%s,%s>" % (rng.choice(["int", "text"]), rng.choice(["int", "text"]))
            cols.append(ColSpec("v%d" % i, kind, "static" if (nck and rng.random() < 0.2) else "reg"))
    attrs = {"__keyspace__": "ks35", "__table_name__": "t35_%d" % uid}
    for c in cols:
        c.col = make_column(C, c)
        attrs[c.attr] = c.col
    sp.model = type("M35_%d" % uid, (models.Model,), attrs)
    sp.cols = cols
    sp.by_attr = dict((c.attr, c) for c in cols)
    sp.pk = [c for c in cols if c.role == "pk"]
    sp.ck = [c for c in cols if c.role == "ck"]
    sp.reg = [c for c in cols if c.role == "reg"]
    sp.static = [c for c in cols if c.role == "static"]
    sp.data = sp.reg + sp.static
    sp.counter = counter
    role = {"pk": "partition", "ck": "clustering", "reg": "regular", "static": "static"}
    sp.table = db.add_table(SEM.Table("ks35", attrs["__table_name__"], [(c.attr, spec_type(c.kind), role[c.role]) for c in cols]))
    sp.shape = "%dpk/%dck/%s" % (npk, nck, "counter" if counter else ",".join(sorted(set(c.kind.split("<")[0] + ("*" if c.role == "static" else "") for c in sp.data))))
    return sp


def gen_scalar(rng, kind, small=False):
    if kind == "int":
        return rng.randint(0, 5) if small else rng.randint(-2 ** 31, 2 ** 31 - 1)
    if kind == "bigint":
        return rng.randint(-2 ** 63, 2 ** 63 - 1)
    if kind == "text":
        return rng.choice("abcde") if small else rng.choice(["", "a", "it's", "x' --", "é"]) + "%05x" % rng.getrandbits(20)
    if kind == "bool":
        return rng.random() < 0.5
    raise AssertionError(kind)


def gen_value(rng, cs, nonempty=False):
    k = cs.kind
    if "<" not in k:
        return gen_scalar(rng, k)
    n = rng.choice([1, 2, 3] if nonempty else [0, 1, 2, 3])
    small = rng.random() < 0.7          # small domains so that deltas overlap existing elements
    if k.startswith("set<"):
        return set(gen_scalar(rng, k[4:-1], small) for _ in range(n))
    if k.startswith("list<"):
        return [gen_scalar(rng, k[5:-1], small) for _ in range(n)]
    a, b = k[4:-1].split(",")
    return dict((gen_scalar(rng, a, small), gen_scalar(rng, b, small)) for _ in range(n))


def norm(v):
    """shadow normal form: None for null and for the empty collection; plain python containers"""
    if v is None:
        return None
    tn = type(v).__name__
    if isinstance(v, (set, frozenset)) or tn == "SortedSet":
        return set(v) or None
    if isinstance(v, dict) or tn.startswith("OrderedMap"):
        return dict(v.items()) or None
    if isinstance(v, (list, tuple)):
        return list(v) or None
    return v


def _plain_copy(v):
    if v is None:
        return None
    if isinstance(v, (set, frozenset)):
        return set(v)
    if isinstance(v, dict):
        return dict(v)
    if isinstance(v, (list, tuple)):
        return list(v)
    return v


def same(a, b):
    a, b = norm(a), norm(b)
    if type(a) is not type(b):
        return False
    return a == b


# --------------------------------------------------------------------------------------------
# one history
# --------------------------------------------------------------------------------------------
class History(object):
    def __init__(self, ctx, rng, env, sp):
        self.ctx, self.rng, self.env, self.sp = ctx, rng, env, sp
        self.shadow = {}           # pkey -> {"static": {attr: v}, "rows": {ckey: {attr: v}}}
        self.inst = {}             # (pkey, ckey) -> tracked instance (never stale)
        self.dead_counter_keys = set()
        self.stale = {}            # (pkey, ckey) -> attrs for which the tracked instance does not mirror the row (blind writes elsewhere)
        self.emptied = {}          # (pkey, ckey, attr) -> value the container had before it was emptied in place and saved
        self.used_keys = set()
        self.trace = []
        self.last_op = None
        self.stop = False

    # -- shadow helpers ----------------------------------------------------------------------------------
    def part(self, pkey):
        return self.shadow.setdefault(pkey, {"static": {}, "rows": {}})

    def srow(self, pkey, ckey):
        return self.part(pkey)["rows"].setdefault(ckey, {})

    def set_shadow(self, pkey, ckey, cs, v):
        v = norm(v)
        if cs.role == "static":
            self.part(pkey)["static"][cs.attr] = v
        else:
            self.srow(pkey, ckey)[cs.attr] = v

    def get_shadow(self, pkey, ckey, cs):
        p = self.shadow.get(pkey)
        if p is None:
            return None
        if cs.role == "static":
            return p["static"].get(cs.attr)
        return p["rows"].get(ckey, {}).get(cs.attr)

    def keys_kw(self, pkey, ckey):
        kw = dict((c.attr, v) for c, v in zip(self.sp.pk, pkey))
        if ckey is not None:
            kw.update((c.attr, v) for c, v in zip(self.sp.ck, ckey))
        return kw

    def fresh_key(self, same_partition=None, exclude_partitions=()):
        rng, sp = self.rng, self.sp
        for _ in range(50):
            if same_partition is not None:
                pkey = same_partition
            elif self.shadow and sp.ck and rng.random() < 0.5:
                pkey = rng.choice(sorted(self.shadow, key=repr))
            else:
                pkey = tuple(gen_scalar(rng, c.kind, small=rng.random() < 0.3) for c in sp.pk)
            if pkey in exclude_partitions:
                continue
            ckey = tuple(gen_scalar(rng, c.kind, small=rng.random() < 0.5) for c in sp.ck)
            if (pkey, ckey) not in self.used_keys:
                self.used_keys.add((pkey, ckey))
                return pkey, ckey
        return None, None

    def existing_rows(self):
        out = []
        for pkey, p in self.shadow.items():
            for ckey in p["rows"]:
                out.append((pkey, ckey))
        return sorted(out, key=repr)

    def note(self, text):
        self.trace.append(text)

    # -- verification ------------------------------------------------------------------------------------
    def verify(self, pkeys, acting=None):
        """read the partitions back through the mapper and compare with the shadow; acting = [(pkey, ckey, instance)]"""
        sp, ctx = self.sp, self.ctx
        problems = []
        for pkey in pkeys:
            kw = dict((c.attr, v) for c, v in zip(sp.pk, pkey))
            got = list(sp.model.objects.filter(**kw))
            ctx.count("partitions_read_back_through_the_mapper")
            ctx.count("instances_constructed_from_interpreter_rows", len(got))
            exp = self.shadow.get(pkey, {"static": {}, "rows": {}})
            exp_rows = dict((ck, dict((a, v) for a, v in r.items() if v is not None)) for ck, r in exp["rows"].items())
            exp_rows = dict((ck, r) for ck, r in exp_rows.items() if r)
            exp_static = dict((a, v) for a, v in exp["static"].items() if v is not None)
            got_rows = {}
            for inst in got:
                ckey = tuple(getattr(inst, c.attr) for c in sp.ck)
                for c, v in zip(sp.pk, pkey):
                    if not same(getattr(inst, c.attr), v):
                        problems.append(("read-back-key-differs", "partition %r: instance has %s=%r" % (pkey, c.attr, getattr(inst, c.attr))))
                st = dict((c.attr, norm(getattr(inst, c.attr))) for c in sp.static if norm(getattr(inst, c.attr)) is not None)
                if st != exp_static or any(not same(st[a], exp_static[a]) for a in st):
                    problems.append(("static", pkey, None, st, exp_static))
                if any(x is None for x in ckey):
                    continue
                vals = dict((c.attr, norm(getattr(inst, c.attr))) for c in sp.reg)
                vals = dict((a, v) for a, v in vals.items() if v is not None and not (sp.counter and v == 0))
                if vals:
                    got_rows[ckey] = vals
            if not got and exp_static:
                problems.append(("static", pkey, None, {}, exp_static))
            if sp.counter:
                exp_rows = dict((ck, dict((a, v) for a, v in r.items() if v != 0)) for ck, r in exp_rows.items())
                exp_rows = dict((ck, r) for ck, r in exp_rows.items() if r)
            for ck in sorted(set(got_rows) | set(exp_rows), key=repr):
                g, e = got_rows.get(ck, {}), exp_rows.get(ck, {})
                if set(g) != set(e) or any(not same(g[a], e[a]) for a in g):
                    problems.append(("row", pkey, ck, g, e))
                else:
                    ctx.count("rows_equal_to_shadow")
            # point reads
            if exp_rows and self.rng.random() < 0.3:
                ck = self.rng.choice(sorted(exp_rows, key=repr))
                try:
                    one = sp.model.objects(**self.keys_kw(pkey, ck)).get()
                    ctx.count("point_reads")
                    for c in sp.reg:
                        if not same(getattr(one, c.attr), exp_rows[ck].get(c.attr)) and not (sp.counter and not getattr(one, c.attr) and not exp_rows[ck].get(c.attr)):
                            problems.append(("row", pkey, ck, dict((x.attr, norm(getattr(one, x.attr))) for x in sp.reg), exp_rows[ck]))
                            break
                except sp.model.DoesNotExist:
                    problems.append(("row", pkey, ck, {}, exp_rows[ck]))
        for pkey, ckey, inst in (acting or []):
            if ckey is None:
                continue
            for c in sp.reg:
                if c.attr in self.stale.get((pkey, ckey), ()):
                    continue
                mine = norm(getattr(inst, c.attr))
                want = self.get_shadow(pkey, ckey, c)
                if sp.counter:
                    mine, want = mine or 0, want or 0
                if not same(mine, want):
                    problems.append(("instance", pkey, ckey, {c.attr: mine}, {c.attr: want}))
                    break
            else:
                ctx.count("acting_instances_equal_to_shadow")
        return problems

    # -- the operations ----------------------------------------------------------------------------------
    def writer(self, target, batch, opts_ok=True, is_instance=False, kind="insert", row=None):
        """apply random ttl / timestamp / lwt options to an instance or a query set (none of them is evaluated by the interpreter)"""
        rng, sp = self.rng, self.sp
        if is_instance:
            target = target.batch(batch)          # an instance keeps its last batch and options: always (re)set them
            if not sp.counter:
                target.ttl(None)
                target.if_exists(False)
                target.if_not_exists(False)
                target.iff()
        elif batch is not None:
            target = target.batch(batch)
        if not opts_ok or sp.counter:
            return target
        r = rng.random()
        if r < 0.08:
            target = target.ttl(rng.choice([1, 60, 86400]))
            self.note("ttl")
        elif r < 0.14:
            target = target.timestamp(rng.randint(1, 2 ** 50))
            self.note("timestamp")
        elif r < 0.2 and batch is None:
            if kind == "insert":
                target = target.if_not_exists()
                self.note("if_not_exists")
            elif kind == "update":
                target = target.if_exists()
                self.note("if_exists")
        elif r < 0.26 and batch is None and kind == "update" and row is not None:
            cands = [c for c in sp.reg if not c.container and self.get_shadow(row[0], row[1], c) is not None]
            if cands:
                c = rng.choice(cands)
                target = target.iff(**{c.attr: self.get_shadow(row[0], row[1], c)})
                self.note("iff %s" % c.attr)
        return target

    def op_create(self, batch=None, pkey_hint=None):
        rng, sp = self.rng, self.sp
        pkey, ckey = self.fresh_key(pkey_hint)
        if pkey is None or (pkey, ckey) in self.dead_counter_keys:
            return None
        kw = self.keys_kw(pkey, ckey)
        given = {}
        for c in sp.data:
            r = rng.random()
            if sp.counter:
                if r < 0.7:
                    given[c.attr] = rng.randint(-5, 20)
            elif r < 0.6:
                given[c.attr] = gen_value(rng, c)
            elif r < 0.72:
                given[c.attr] = None
        kw.update(given)
        items = list(kw.items())
        rng.shuffle(items)
        kw = dict(items)
        mode = rng.random()
        self.note("create %r" % (kw,))
        if mode < 0.4 and batch is None:
            inst = sp.model.create(**kw)
        elif mode < 0.7:
            inst = self.writer(sp.model(**kw), batch, is_instance=True).save()
        else:
            q = self.writer(sp.model.objects if batch is None else sp.model.objects, batch)
            inst = q.create(**kw)
        self.srow(pkey, ckey)
        for c in sp.data:
            if c.attr in given:
                v = given[c.attr]
                if sp.counter:
                    v = (self.get_shadow(pkey, ckey, c) or 0) + v
                self.set_shadow(pkey, ckey, c, v)
        self.inst[(pkey, ckey)] = inst
        return [(pkey, ckey, inst)]

    def op_create_static_only(self, batch=None):
        rng, sp = self.rng, self.sp
        if not sp.static or not sp.ck:
            return None
        pkey = tuple(gen_scalar(rng, c.kind) for c in sp.pk)
        if pkey in self.shadow:
            return None
        kw = self.keys_kw(pkey, None)
        given = {}
        for c in sp.static:
            if rng.random() < 0.8:
                given[c.attr] = gen_value(rng, c, nonempty=True)
        if not given:
            return None
        kw.update(given)
        self.note("create static-only %r" % (kw,))
        inst = sp.model.create(**kw) if batch is None else sp.model.batch(batch).create(**kw)
        self.part(pkey)
        for c in sp.static:
            if c.attr in given:
                self.set_shadow(pkey, None, c, given[c.attr])
        self.inst[(pkey, None)] = inst
        return [(pkey, None, inst)]

    def mutate(self, cs, cur):
        """a new python value for column cs given the instance's current value (exercises partial collection updates)"""
        rng = self.rng
        r = rng.random()
        if r < 0.12:
            return None
        if not cs.container or cur is None or r < 0.3:
            return gen_value(rng, cs)
        elem = lambda kind: gen_scalar(rng, kind, small=rng.random() < 0.7)
        if cs.container == "set":
            v = set(cur)
            k = cs.kind[4:-1]
            for _ in range(rng.randint(1, 2)):
                if v and rng.random() < 0.5:
                    v.discard(rng.choice(sorted(v, key=repr)))
                else:
                    v.add(elem(k))
            return v
        if cs.container == "list":
            v = list(cur)
            k = cs.kind[5:-1]
            for _ in range(rng.randint(1, 2)):
                q = rng.random()
                if q < 0.3:
                    v.append(elem(k))
                elif q < 0.6:
                    v.insert(0, elem(k))
                elif q < 0.75 and v:
                    v.pop(rng.randrange(len(v)))
                elif q < 0.9 and v:
                    v[rng.randrange(len(v))] = elem(k)
                else:
                    v = [elem(k)] + v + [elem(k)]
            return v
        v = dict(cur)
        a, b = cs.kind[4:-1].split(",")
        for _ in range(rng.randint(1, 2)):
            q = rng.random()
            if q < 0.4 and v:
                del v[rng.choice(sorted(v, key=repr))]
            elif q < 0.7 and v:
                v[rng.choice(sorted(v, key=repr))] = elem(b)
            else:
                v[elem(a)] = elem(b)
        return v

    def op_modify(self, batch=None, exclude_partitions=()):
        rng, sp = self.rng, self.sp
        cands = sorted((k for k in self.inst if k[0] not in exclude_partitions), key=repr)
        if not cands:
            return None
        pkey, ckey = rng.choice(cands)
        inst = self.inst[(pkey, ckey)]
        cols = sp.static if ckey is None else sp.data
        chosen = rng.sample(cols, rng.randint(1, min(3, len(cols))))
        changes = {}
        stale = self.stale.get((pkey, ckey), set())
        for c in chosen:
            cur = getattr(inst, c.attr)
            if c.attr in stale or (c.role == "static" and not same(cur, self.get_shadow(pkey, ckey, c))):
                # the instance does not mirror the stored cell (a blind write elsewhere, or it was built from the key only): what it can
                # still do by documentation is null the column explicitly (-> DELETE) or overwrite a scalar with a new value
                if c.container or c.kind == "bool" or rng.random() < 0.6:
                    changes[c.attr] = None
                else:
                    v = gen_value(rng, c)
                    while same(v, cur):
                        v = gen_value(rng, c)
                    changes[c.attr] = v
                continue
            if sp.counter:
                changes[c.attr] = (cur or 0) + rng.choice([1, -1, 5, -3, 100, 0])
            else:
                changes[c.attr] = self.mutate(c, cur)
        if not changes:
            return None
        before = dict((a, norm(_plain_copy(getattr(inst, a)))) for a in changes)
        stored_before = dict((a, norm(_plain_copy(self.get_shadow(pkey, ckey, sp.by_attr[a])))) for a in changes)
        null_static = [c.attr for c in sp.static if c.attr not in changes and norm(getattr(inst, c.attr)) is None]
        style = rng.random()
        inplace = []
        self.note("modify %r %r via %s" % ((pkey, ckey), changes, "update(**kw)" if style < 0.3 else "setattr+save/update"))
        target = self.writer(inst, batch, is_instance=True, kind="update", row=(pkey, ckey) if ckey is not None else None)
        if style < 0.3:
            target.update(**changes)
        else:
            for a, v in changes.items():
                c = sp.by_attr[a]
                cur = getattr(inst, a)
                if c.container and v is not None and cur is not None and rng.random() < 0.5:
                    # in-place mutation of the instance's own container
                    if c.container == "set":
                        cur.clear()
                        cur.update(v)
                    elif c.container == "list":
                        cur[:] = v
                    else:
                        cur.clear()
                        cur.update(v)
                    inplace.append(a)
                else:
                    setattr(inst, a, v)
            if rng.random() < 0.6:
                target.save()
            else:
                target.update()
        for a, v in changes.items():
            self.set_shadow(pkey, ckey, sp.by_attr[a], v)
            stale.discard(a)
        stale_prev = {}
        for a in changes:
            if (pkey, ckey, a) in self.emptied:
                stale_prev[a] = self.emptied[(pkey, ckey, a)]
                if not (norm(changes[a]) is None and a in inplace):
                    del self.emptied[(pkey, ckey, a)]      # an explicit assignment or a non-null value resets previous_value
            if a in inplace and norm(changes[a]) is None and before.get(a) is not None:
                self.emptied[(pkey, ckey, a)] = before[a]
        self.step_mods[(pkey, ckey)] = {"changes": changes, "before": before, "null_static": null_static, "stale_previous": stale_prev,
                                        "stored_before": stored_before}
        return [(pkey, ckey, inst)]

    def op_rekey(self):
        """reassign a clustering key component (or a partition key component) of a persisted instance, optionally change other
        columns too, then save(): the documented behaviour is an INSERT of the whole instance under the new primary key; the row
        under the old key is left as it is"""
        rng, sp = self.rng, self.sp
        if sp.counter:
            return None
        cands = sorted((k for k in self.inst if k[1] is not None and not self.stale.get(k) and not any(e[:2] == k for e in self.emptied)), key=repr)
        if not cands:
            return None
        pkey, ckey = rng.choice(cands)
        inst = self.inst[(pkey, ckey)]
        # the INSERT names every non-null column of the instance, static ones included: the instance must not be stale for them
        for c in sp.static:
            if not same(getattr(inst, c.attr), self.get_shadow(pkey, ckey, c)):
                return None
        change_ck = bool(sp.ck) and rng.random() < 0.7
        for _ in range(20):
            npkey, nckey = list(pkey), list(ckey)
            cols, target = (sp.ck, nckey) if change_ck else (sp.pk, npkey)
            for i in rng.sample(range(len(cols)), rng.randint(1, len(cols))):
                target[i] = gen_scalar(rng, cols[i].kind, small=rng.random() < 0.3)
            npkey, nckey = tuple(npkey), tuple(nckey)
            if (npkey, nckey) != (pkey, ckey) and (npkey, nckey) not in self.used_keys:
                break
        else:
            return None
        if not change_ck and npkey in self.shadow and sp.static:
            return None             # the instance's static values would overwrite another partition's: keep the expectation simple
        self.used_keys.add((npkey, nckey))
        changes = {}
        if sp.reg and rng.random() < 0.6:
            for c in rng.sample(sp.reg, rng.randint(1, min(2, len(sp.reg)))):
                changes[c.attr] = self.mutate(c, getattr(inst, c.attr))
        self.note("re-key %r -> %r, also %r, save()" % ((pkey, ckey), (npkey, nckey), changes))
        target = self.writer(inst, None, opts_ok=False, is_instance=True)
        for c, v in list(zip(sp.pk, npkey)) + list(zip(sp.ck, nckey)):
            if not same(getattr(inst, c.attr), v):
                setattr(inst, c.attr, v)
        for a, v in changes.items():
            setattr(inst, a, v)
        target.save()
        self.srow(npkey, nckey)
        for c in sp.reg:
            self.set_shadow(npkey, nckey, c, _plain_copy(getattr(inst, c.attr)))
        for c in sp.static:
            if norm(getattr(inst, c.attr)) is not None:
                self.set_shadow(npkey, nckey, c, _plain_copy(getattr(inst, c.attr)))
        self.drop_instance(pkey, ckey)
        self.inst[(npkey, nckey)] = inst
        out = [(npkey, nckey, inst)]
        if npkey != pkey:
            out.append((pkey, ckey, None))
        return out

    def op_reload(self):
        rng, sp = self.rng, self.sp
        rows = [k for k in self.existing_rows() if any(v is not None for v in self.shadow[k[0]]["rows"][k[1]].values())]
        if not rows:
            return None
        pkey, ckey = rng.choice(rows)
        self.note("reload %r" % ((pkey, ckey),))
        try:
            inst = sp.model.objects(**self.keys_kw(pkey, ckey)).get() if rng.random() < 0.5 else sp.model.get(**self.keys_kw(pkey, ckey))
        except sp.model.DoesNotExist:
            self.pending_problem = ("row", pkey, ckey, {}, dict((a, v) for a, v in self.shadow[pkey]["rows"][ckey].items() if v is not None))
            return []
        for key in [k for k in self.emptied if k[:2] == (pkey, ckey)]:
            del self.emptied[key]
        self.stale.pop((pkey, ckey), None)
        self.inst[(pkey, ckey)] = inst
        return [(pkey, ckey, inst)]

    def op_blind_update(self, batch=None, exclude_partitions=()):
        rng, sp = self.rng, self.sp
        if sp.counter:
            return None
        rows = [k for k in self.existing_rows() if k[0] not in exclude_partitions]
        if rows and rng.random() < 0.8:
            pkey, ckey = rng.choice(rows)
        else:
            pkey, ckey = self.fresh_key(exclude_partitions=exclude_partitions)
            if pkey is None:
                return None
        q = sp.model.objects(**self.keys_kw(pkey, ckey))
        q = self.writer(q, batch, kind="update", row=(pkey, ckey))
        kw = {}
        effects = []
        info = []
        for c in rng.sample(sp.data, rng.randint(1, min(3, len(sp.data)))):
            cur = self.get_shadow(pkey, ckey, c)
            r = rng.random()
            if r < 0.12:
                kw[c.attr] = None
                effects.append((c, None))
                continue
            v = gen_value(rng, c)
            if not c.container:
                kw[c.attr] = v
                effects.append((c, v))
                continue
            if c.container == "set":
                op = rng.choice([None, "add", "remove"])
                new = v if op is None else (set(cur or ()) | v if op == "add" else set(cur or ()) - v)
            elif c.container == "list":
                op = rng.choice([None, "append", "prepend"])
                new = v if op is None else (list(cur or []) + v if op == "append" else v + list(cur or []))
            else:
                op = rng.choice([None, "update", "remove"])
                if op == "remove":
                    v = set(v.keys()) | (set(rng.sample(sorted(cur, key=repr), 1)) if cur and rng.random() < 0.6 else set())
                    new = dict((a, b) for a, b in (cur or {}).items() if a not in v)
                elif op == "update":
                    new = dict(cur or {})
                    new.update(v)
                else:
                    new = v
                info.append((c.attr, op, bool(v), norm(cur)))
            kw[c.attr if op is None else "%s__%s" % (c.attr, op)] = v
            effects.append((c, new))
        self.note("blind update %r %r" % ((pkey, ckey), kw))
        q.update(**kw)
        for c, new in effects:
            self.set_shadow(pkey, ckey, c, new)
        touched_attrs = set(c.attr for c, _ in effects)
        if (pkey, ckey) in self.inst and rng.random() < 0.5:
            # keep the tracked instance: it is now stale for the columns written behind its back
            self.stale.setdefault((pkey, ckey), set()).update(touched_attrs)
            for key in [k for k in self.emptied if k[:2] == (pkey, ckey) and k[2] in touched_attrs]:
                del self.emptied[key]
        else:
            self.drop_instance(pkey, ckey)
        self.step_blind[(pkey, ckey)] = info
        return [(pkey, ckey, None)]

    def drop_instance(self, pkey, ckey):
        self.inst.pop((pkey, ckey), None)
        self.stale.pop((pkey, ckey), None)
        for key in [k for k in self.emptied if k[:2] == (pkey, ckey)]:
            del self.emptied[key]

    def op_blind_instance(self, batch=None, exclude_partitions=()):
        """an instance built from the primary key only (never loaded), some columns assigned - values or explicit None - through the
        constructor, attribute assignment or update(**kw), then update() / save(): by documentation the assigned columns are written
        (None = DELETE of the column), every other column of the row is left alone"""
        rng, sp = self.rng, self.sp
        if sp.counter:
            return None
        rows = [k for k in self.existing_rows() if k[0] not in exclude_partitions]
        if rows and rng.random() < 0.85:
            pkey, ckey = rng.choice(rows)
        else:
            pkey, ckey = self.fresh_key(exclude_partitions=exclude_partitions)
            if pkey is None:
                return None
        assigned = {}
        for c in rng.sample(sp.data, rng.randint(1, min(3, len(sp.data)))):
            cur = self.get_shadow(pkey, ckey, c)
            if rng.random() < 0.45 or (c.container == "map" and cur is not None):
                assigned[c.attr] = None if (not c.container or rng.random() < 0.6) else gen_value(rng, c)[:0] if c.container == "list" else type(gen_value(rng, c))()
            else:
                assigned[c.attr] = gen_value(rng, c)
        kw = self.keys_kw(pkey, ckey)
        ctor = dict((a, v) for a, v in assigned.items() if rng.random() < 0.25)
        rest = dict((a, v) for a, v in assigned.items() if a not in ctor)
        kw.update(ctor)
        inst = sp.model(**kw)
        style = rng.random()
        self.note("blind instance %r ctor=%r then %r via %s" % ((pkey, ckey), ctor, rest, "update(**kw)" if style < 0.4 else "setattr+update()" if style < 0.75 else "setattr+save()"))
        target = self.writer(inst, batch, is_instance=True, kind="update", row=(pkey, ckey))
        if style < 0.4:
            target.update(**rest)
        else:
            for a, v in rest.items():
                setattr(inst, a, v)
            if style < 0.75:
                target.update()
            else:
                target.save()
        if style >= 0.75:
            self.srow(pkey, ckey)
        for a, v in assigned.items():
            self.set_shadow(pkey, ckey, sp.by_attr[a], v)
        self.drop_instance(pkey, ckey)
        self.inst[(pkey, ckey)] = inst
        self.stale[(pkey, ckey)] = set(c.attr for c in sp.data if c.attr not in assigned)
        return [(pkey, ckey, inst)]

    def op_delete(self, batch=None, exclude_partitions=()):
        rng, sp = self.rng, self.sp
        rows = [k for k in self.existing_rows() if k[0] not in exclude_partitions]
        if not rows:
            return None
        pkey, ckey = rng.choice(rows)
        r = rng.random()
        inst = self.inst.get((pkey, ckey))
        if r < 0.45 and inst is not None:
            self.note("instance delete %r" % ((pkey, ckey),))
            self.writer(inst, batch, opts_ok=False, is_instance=True).delete()
            scope = "row"
        elif r < 0.8 or not sp.ck or sp.counter:
            self.note("query-set delete %r" % ((pkey, ckey),))
            q = sp.model.objects(**self.keys_kw(pkey, ckey))
            if batch is not None:
                q = q.batch(batch)
            q.delete()
            scope = "row"
        else:
            self.note("partition delete %r" % (pkey,))
            q = sp.model.objects(**self.keys_kw(pkey, None))
            if batch is not None:
                q = q.batch(batch)
            q.delete()
            scope = "partition"
        if scope == "row" and sp.ck:
            self.shadow[pkey]["rows"].pop(ckey, None)
            self.drop_instance(pkey, ckey)
            if sp.counter:
                self.dead_counter_keys.add((pkey, ckey))
        else:
            for ck in list(self.shadow.get(pkey, {"rows": {}})["rows"]):
                self.drop_instance(pkey, ck)
                if sp.counter:
                    self.dead_counter_keys.add((pkey, ck))
            self.drop_instance(pkey, None)
            self.shadow.pop(pkey, None)
        return [(pkey, ckey, None)]

    def op_batch(self, Q):
        rng, sp = self.rng, self.sp
        kw = {}
        if sp.counter:
            kw["batch_type"] = Q.BatchType.Counter
        elif rng.random() < 0.3:
            kw["batch_type"] = Q.BatchType.Unlogged
        b = Q.BatchQuery(**kw)
        touched = []
        acting = []
        self.note("batch begin")
        for _ in range(rng.randint(2, 4)):
            ex = [p for p, _, _ in touched]
            kind = rng.choice(["create", "modify", "blind", "blind-instance", "delete"])
            if kind == "create":
                res = None
                for _try in range(5):
                    pkey = tuple(gen_scalar(rng, c.kind) for c in sp.pk)
                    if pkey not in ex and pkey not in self.shadow:
                        res = self.op_create(batch=b, pkey_hint=pkey)
                        break
            elif kind == "modify":
                res = self.op_modify(batch=b, exclude_partitions=ex)
            elif kind == "blind":
                res = self.op_blind_update(batch=b, exclude_partitions=ex)
            elif kind == "blind-instance":
                res = self.op_blind_instance(batch=b, exclude_partitions=ex)
            else:
                res = self.op_delete(batch=b, exclude_partitions=ex)
            if res:
                touched += res
                acting += [x for x in res if x[2] is not None]
        self.note("batch execute")
        if rng.random() < 0.5:
            b.execute()
        else:
            with b:
                pass
        return touched

    def step(self, Q):
        rng, sp = self.rng, self.sp
        r = rng.random()
        self.step_mods = {}
        self.step_blind = {}
        self.pending_problem = None
        if not self.shadow or r < 0.22:
            kind, res = "create", self.op_create()
        elif r < 0.26:
            kind, res = "create-static-only", self.op_create_static_only()
        elif r < 0.5:
            kind, res = "modify", self.op_modify()
        elif r < 0.56:
            kind, res = "re-key", self.op_rekey()
        elif r < 0.64:
            kind, res = "reload", self.op_reload()
        elif r < 0.74:
            kind, res = "blind-update", self.op_blind_update()
        elif r < 0.8:
            kind, res = "blind-instance", self.op_blind_instance()
        elif r < 0.9:
            kind, res = "delete", self.op_delete()
        else:
            kind, res = "batch", self.op_batch(Q)
        return kind, res


GENERIC = {"row": "row-read-back-differs-from-model-state", "static": "static-column-read-back-differs-from-model-state",
           "instance": "instance-values-differ-from-persisted-state"}


def _merged(before, new):
    m = dict(before or {})
    m.update(new or {})
    return m


def delta_on_empty(old, new):
    """what a now-null collection holds after the partial update computed for old -> new has been applied to it"""
    if new is None:
        return None
    if isinstance(new, set):
        return (new - set(old or ())) or None
    if isinstance(new, dict):
        return dict((k, v) for k, v in new.items() if not (k in (old or {}) and same(old[k], v))) or None
    old = list(old or [])
    if len(new) < len(old) or not old:
        return new
    for i in range(len(new) - len(old) + 1):
        if new[i:i + len(old)] == old:
            return (new[:i] + new[i + len(old):]) or None
    return new


def deleted_columns(P, statements):
    """column names selected by the DELETE statements of this step"""
    out = set()
    for text, _ in statements:
        try:
            st = P.parse(text)
        except P.StmtError:
            continue
        for sub in (st.statements if st.kind == "batch" else [st]):
            if sub.kind == "delete":
                out.update(sel[1] for sel in sub.selections if sel[0] == "col")
    return out


def classify(h, P, problem, statements):
    """mechanism slugs for a state mismatch (one per differing column); narrow predicates for the confirmed defects"""
    what = problem[0]
    generic = GENERIC.get(what, what)
    if what not in ("row", "static") or not isinstance(problem[3], dict):
        return [generic]
    pkey, ckey, got, exp = problem[1], problem[2], problem[3], problem[4]
    slugs = []
    for a in sorted(x for x in set(got) | set(exp) if not same(got.get(x), exp.get(x))):
        g, e = got.get(a), exp.get(a)
        slug = generic
        for (pk, ck), infos in h.step_blind.items():
            if pk != pkey or (what == "row" and ck != ckey):
                continue
            for attr, op, nonempty, before in infos:
                if attr != a:
                    continue
                if op is None and nonempty and before and isinstance(g, dict) and isinstance(e, dict) and same(g, _merged(before, e)):
                    slug = K_MAP_ASSIGN
                elif op in ("update", "remove") and not nonempty and before and g is None and same(e, before):
                    slug = K_MAP_EMPTY
        for (pk, ck), mod in h.step_mods.items():
            if pk != pkey or (what == "row" and ck != ckey) or (what == "static" and h.sp.by_attr[a].role != "static"):
                continue
            if a in mod["stale_previous"]:
                # the delta was computed against the value the collection had before it was emptied (and deleted)
                old, new = mod["stale_previous"][a], norm(mod["changes"][a])
                if same(g, delta_on_empty(old, new)):
                    slug = K_STALE_PREV
        if what == "static":
            for (pk, ck), mod in h.step_mods.items():
                if pk != pkey:
                    continue
                if ck is None and a in mod["changes"]:
                    new, before = norm(mod["changes"][a]), mod["before"].get(a)
                    if new is None and g is not None and same(g, mod["stored_before"].get(a)):
                        slug = K_STATIC_NULL            # nothing was sent: the stored value is what it was before the step
                    elif isinstance(new, dict) and isinstance(before, dict) and any(k not in new for k in before) and same(g, _merged(before, new)):
                        slug = K_STATIC_NULL
                if a in mod["null_static"] and g is None and e is not None and a in deleted_columns(P, statements):
                    slug = K_REDELETE
        slugs.append(slug)
    return slugs or [generic]


def classify_rejected(P, sp, rej):
    """mechanism slug for a statement the interpreter rejects"""
    try:
        st = P.parse(rej.text)
    except P.StmtError:
        return "emitted-statement-does-not-parse"
    stmts = st.statements if st.kind == "batch" else [st]
    if "clustering keys are missing" in rej.why:
        for s in stmts:
            if (s.kind == "delete" and any(sel[0] == "elem" for sel in s.selections) and sp.ck
                    and not any(r.lhs[0] == "col" and r.lhs[1] in [c.attr for c in sp.ck] for r in s.where)
                    and any(sp.by_attr[sel[1]].role == "reg" for sel in s.selections if sel[1] in sp.by_attr)):
                return K_DELETE_CK
        return "emitted-statement-misses-clustering-key"
    return "emitted-statement-rejected-as-invalid-cql"


def run(ctx):
    from vlib import shim
    shim.import_cluster()
    from vlib.run import Inconclusive
    from props._cqe_session import CqeSession
    from spec import cqllex as L
    from spec import cqlstmt as P
    from spec import cqlsem as SEM
    L._selftest()
    P._selftest()
    SEM._selftest()
    ctx.rule = ("a case = one seeded history: a generated model (1-2 partition keys, 0-2 clustering keys, int/bigint/text/bool, set/list/map of "
                "int/text, static columns, or a counter table) and up to 10 steps out of create (Model.create / instance.save / queryset.create, "
                "explicit None, options), static-only create, attribute modification (assignment, None, partial and in-place collection changes) "
                "+ save() / update() / update(**kw), reload, blind query-set update (__add/__remove/__append/__prepend/__update, whole "
                "assignment, None), row / partition delete, BatchQuery over distinct partitions; after every step the touched partitions "
                "are read back through the mapper; distinct by the emitted statement sequence")
    ctx.assume("TTL, TIMESTAMP and IF / IF EXISTS / IF NOT EXISTS are carried but not evaluated: every statement applies, in arrival order")
    ctx.assume("a row whose regular columns are all null is not distinguished from an absent row (rows written by UPDATE have no row marker); "
               "None and the empty collection are the same value; a never-written counter reads as 0")
    ctx.assume("create() is only issued for primary keys not used before in the history (an INSERT over an existing row keeps the columns it "
               "does not name - upsert semantics, not a mapper defect); deleted counter rows are not written again; tracked instances are "
               "dropped when a blind update or a delete touches their row; static columns are assigned fresh values only")
    ctx.assume("deleting a static-only instance (null clustering key), db_field renames (C37), LWT results, "
               "conditional batches and USING TIMESTAMP on conditional statements are not generated; batches never touch a partition twice")
    ctx.assume("blind instances (built from the primary key only) and instances made stale by a blind query-set update write what they assign "
               "(None / empty collection = DELETE of the column, a value = overwrite) and leave the other columns of the row alone; on a "
               "column the instance does not mirror only explicit None or a new scalar value is assigned (a collection delta computed from a "
               "stale value is the caller's error, not the mapper's); a blind instance assigns a non-empty map only where none is stored")
    ctx.assume("re-keying = assigning new clustering / partition key values to a persisted, non-stale instance and save(): the whole instance "
               "must be readable under the new key (always a key unused so far), the row under the old key stays as it is; only save() is "
               "used (update() is a partial write by documentation), not inside batches, not on counter tables")
    ctx.assume("whether Cassandra accepts clustering restrictions on statements that touch only static columns differs by release: accepted")
    rng = ctx.rng
    n_hist = ctx.scale(1500, 100000)
    budget = 35 if ctx.quick else 270

    def adapt(v):
        tn = type(v).__name__
        if tn == "InQuoter":
            return list(v.value)
        if tn == "SortedSet":
            return set(v)
        if tn.startswith("OrderedMap"):
            return dict(v.items())
        return v

    db = SEM.Database(adapt=adapt)
    seen = []

    def to_driver(v):
        from cassandra import util
        if isinstance(v, set):
            return util.sortedset(v)
        if isinstance(v, dict):
            return util.OrderedMap(sorted(v.items(), key=repr))
        return v

    def handler(query, parameters):
        text = getattr(query, "query_string", query)
        seen.append((text, parameters))
        ctx.count("statements_executed_by_the_interpreter")
        try:
            res = db.execute(text, parameters)
        except SEM.Invalid as e:
            raise Rejected(text, parameters, str(e))
        except SEM.Undefined as e:
            raise UndefinedOp(str(e))
        if res is None:
            head = text.lstrip()[:6].upper()
            ctx.count("statements_applied:" + ("BATCH" if head.startswith("BEGIN") else head.strip()))
            return FakeResult()
        ctx.count("selects_answered")
        return FakeResult([dict((k, to_driver(v)) for k, v in row.items()) for row in res])

    with CqeSession("c35", None, seed=ctx.seed) as hs:
        from cassandra.cqlengine import columns as C, models, query as Q
        hs.session.execute = lambda query, parameters=None, *a, **kw: handler(query, parameters)
        uid = (ctx.worker or 0) * 10 ** 6
        done = 0
        while done < n_hist:
            if ctx.time_left(budget) < 0:
                ctx.note("stopped by time budget after %d histories" % done)
                break
            uid += 1
            done += 1
            sp = build_model(rng, C, models, SEM, db, uid)
            ctx.count("histories")
            ctx.count("models:" + ("counter" if sp.counter else "static" if sp.static else "plain") + (":clustered" if sp.ck else ":single-row"))
            h = History(ctx, rng, hs, sp)
            n0 = len(seen)
            steps = rng.randint(3, 10)
            for stepno in range(steps):
                s0 = len(seen)
                try:
                    kind, res = h.step(Q)
                except Rejected as rej:
                    slug = classify_rejected(P, sp, rej)
                    ctx.count("statements_rejected_by_the_interpreter")
                    ctx.violation(slug, "%s: the interpreter rejects an emitted statement: %s" % (h.trace[-1][:60] if h.trace else "?", rej.why),
                                  {"statement": rej.text, "parameters": dict((k, repr(v)[:80]) for k, v in (rej.params or {}).items()),
                                   "why": rej.why, "model": dict((c.attr, "%s %s" % (c.kind, c.role)) for c in sp.cols), "history": h.trace[-6:]})
                    break
                except UndefinedOp as e:
                    ctx.count("histories_ended_by_an_undefined_case")
                    ctx.count("undefined:" + str(e)[:45])
                    if len(ctx.notes) < 3:
                        ctx.note("undefined case: %s | %s | %s | %r" % (e, seen[-1][0][:700].replace("\n", " | "), " ## ".join(h.trace[-8:]), seen[-1][1]))
                    break
                if res is None:
                    ctx.count("steps_not_applicable")
                    continue
                ctx.count("steps:" + kind)
                pkeys = []
                for pkey, _, _ in res:
                    if pkey not in pkeys:
                        pkeys.append(pkey)
                try:
                    problems = h.verify(pkeys, [x for x in res if x[2] is not None])
                except Rejected as rej:
                    raise Inconclusive("a verification read was rejected by the interpreter: %s: %s" % (rej.text, rej.why))
                if h.pending_problem:
                    problems.append(h.pending_problem)
                if problems:
                    reported = set()
                    step_stmts = [(t, p) for t, p in seen[s0:] if not t.startswith("SELECT")]
                    for pr in problems:
                        for slug in classify(h, P, pr, step_stmts):
                            if slug in reported:
                                continue
                            reported.add(slug)
                            what = ("after %s: %s %r %r: read back %r, model state %r" % (kind, pr[0], pr[1], pr[2], pr[3], pr[4]) if len(pr) == 5
                                    else "after %s: %s" % (kind, pr[1]))
                            ctx.violation(slug, what, {"model": dict((c.attr, "%s %s" % (c.kind, c.role)) for c in sp.cols), "history": h.trace[-8:],
                                                       "statements_of_the_step": [(t, dict((k, repr(v)[:80]) for k, v in (p or {}).items()))
                                                                                  for t, p in step_stmts][:8]})
                    break       # the states have diverged: end this history
                ctx.count("steps_verified")
            key = [(t, sorted((k, repr(v)) for k, v in (p or {}).items())) for t, p in seen[n0:] if not t.startswith("SELECT")]
            ctx.case(repr((sp.shape, key)), nontrivial=len(key) >= 2)
            if len(ctx.samples) < 5 and rng.random() < 0.01:
                ctx.sample({"model": dict((c.attr, "%s %s" % (c.kind, c.role)) for c in sp.cols), "history": h.trace[:6],
                            "statements": [t for t, _ in seen[n0:]][:10]})
            del seen[:]
            db.tables.clear()
        if hs.harness_errors():
            raise Inconclusive("harness errors: %r" % (hs.harness_errors()[:2],))
    ctx.floor_distinct = 600 if ctx.quick else 20000
    ctx.floor_counters = {"histories": 600, "steps_verified": 2500, "statements_executed_by_the_interpreter": 10000, "selects_answered": 4000,
                          "statements_applied:INSERT": 600, "statements_applied:UPDATE": 600, "statements_applied:DELETE": 300,
                          "statements_applied:BATCH": 80, "rows_equal_to_shadow": 2500, "instances_constructed_from_interpreter_rows": 3000,
                          "acting_instances_equal_to_shadow": 1000, "steps:blind-update": 200, "steps:modify": 400, "steps:delete": 100,
                          "steps:re-key": 60, "steps:blind-instance": 100}
