"""C42 - node-list refreshes make cluster metadata mirror the system tables.

Monitor: the real Cluster / ControlConnection / Session / pools run in the deterministic world.
The control node serves scripted snapshots of system.local and system.peers_v2 (or legacy
system.peers) - valid rows, rows with a missing address / host_id / data_center / rack /
tokens, several rows for one endpoint, a peers row carrying the control node's own endpoint,
one host_id on two endpoints, hosts appearing / vanishing, dc / rack / token changes, a host
replaced by a new endpoint that keeps its tokens, hosts swapping tokens; with peers_v2 every row
carries its native_port and several hosts share an address (also the control node's).  After
every refresh (called from the application thread or provoked by a pushed event) the world is
settled and the cluster metadata, the recorded HostStateListener and load-balancing-policy
notifications and the token map are compared with a 10-line reference reading of the snapshot.
"""
import random

PROPERTY = "C42"
LEVEL = "exploration"
ENGINE = "sim"
TECHNIQUE = "runtime monitor in a deterministic world: scripted system.local/peers snapshots, metadata + notifications + token map compared with a reference reading of each snapshot"
LEVEL_TEXT = ("Thousands (quick) to tens of thousands (thorough) of seeded sequences of 2-5 snapshots over a control node and up to 5 peers "
              "(peers_v2 and legacy peers, protocol v3/v4): after each refresh all_hosts() == control node + valid distinct rows, dc/rack/host_id "
              "mirrored, listener on_add / on_remove exactly once per appearance / vanish, the policy told down(old location) then up(new location) "
              "and its live set equal to the membership, token ownership equal to the snapshot whenever membership or tokens changed, replicas "
              "of a SimpleStrategy and of a NetworkTopologyStrategy keyspace equal to a fresh spec/placement.py placement on that snapshot (incl. steps where the "
              "ring positions stay and only owners or dc/rack change), owners and replicas being Host objects of all_hosts(). Held-on-observed sequences.")
LEVEL_NOTE = ("Trusted base: sim/world.py, sim/node.py, spec/frames.py + spec/cqlcodec.py (row encoding), spec/placement.py. Peers are identified "
              "by endpoint (address:port) as the driver does (a node changing its address is out of the statement). Every advertised peer address has a "
              "connectable SimNode so that pools open and on_add is reachable. Token-map judgement is made on TokenMap.token_to_host_owner.")
QUICK_WORKERS = 4
WORKERS = 14

CONTROL = '127.0.0.1'
CONTROL_ID = '127.0.0.1:9042'  # hosts are identified by endpoint = address:port, as the driver does
ADDRS = ['127.0.0.1', '127.0.0.2', '127.0.0.3', '127.0.0.4', '127.0.0.5', '127.0.0.6']
# where a peer can live.  system.peers_v2 carries a native_port per row: several nodes may share an address, also the control node's;
# the legacy system.peers table has no port column (every endpoint is address:9042)
SLOTS_LEGACY = [(a, 9042) for a in ADDRS[1:]]
SLOTS_V2 = [('127.0.0.2', 9042), ('127.0.0.3', 9042), ('127.0.0.3', 9043), ('127.0.0.4', 19042), ('127.0.0.1', 9043), ('127.0.0.1', 9142)]
GHOST = '127.0.0.9'            # only ever advertised in invalid rows: never connected to
EVENT_ADDR = '127.0.0.77'      # address used in pushed events (never a member)
DCS = ['dc1', 'dc2', 'dc3']
RACKS = ['r1', 'r2', 'r3']


# ------------------------------------------------------------------ reference reading of a snapshot
def rid(r):
    return None if r['addr'] is None else '%s:%d' % (r['addr'], r['port'])


def mirror(snap):
    """control node + every valid row, the first row of an endpoint wins: address:port -> (host_id, dc, rack, tokens)"""
    loc = snap['local']
    known = {CONTROL_ID: (loc['host_id'], loc['dc'], loc['rack'], tuple(loc['tokens']))}
    for r in snap['rows']:
        if not (r['addr'] and r['host_id'] and r['dc'] and r['rack'] and r['tokens']):
            continue
        if rid(r) in known:
            continue
        known[rid(r)] = (r['host_id'], r['dc'], r['rack'], tuple(r['tokens']))
    return known


def ownership(known):
    return dict((int(t), a) for a, v in known.items() for t in v[3])


# ------------------------------------------------------------------ snapshot generator
class Gen(object):
    def __init__(self, rng, slots):
        import uuid
        self.rng = rng
        self.slots = list(slots)
        self.uuid = uuid
        pool = rng.sample(range(-4000, 4000), 700)
        self.tokens = iter(pool)
        self.hid_n = 100
        self.truth = {}                        # addr -> dict(host_id, dc, rack, tokens)
        self.local = {'host_id': uuid.UUID(int=1), 'dc': 'dc1', 'rack': 'r1', 'tokens': self.toks()}
        self.last_hid = {}
        for a in self.slots:
            if rng.random() < 0.5:
                self.appear(a)

    def toks(self):
        return [str(next(self.tokens)) for _ in range(self.rng.choice([1, 1, 2, 3]))]

    def hid(self):
        self.hid_n += 1
        return self.uuid.UUID(int=self.hid_n)

    def appear(self, a):
        rng = self.rng
        hid = self.last_hid.get(a) if (a in self.last_hid and rng.random() < 0.5) else self.hid()
        self.truth[a] = {'host_id': hid, 'dc': rng.choice(DCS), 'rack': rng.choice(RACKS), 'tokens': self.toks()}
        self.last_hid[a] = hid

    def step(self):
        rng = self.rng
        kind = rng.choice(['tokens', 'tokens', 'membership', 'membership', 'location', 'mixed', 'mixed', 'none', 'replace', 'swap'])
        present = sorted(self.truth)
        absent = [a for a in self.slots if a not in self.truth]
        if kind == 'replace' and not (present and absent):
            kind = 'swap'
        if kind == 'swap' and not present:
            kind = 'tokens'
        if kind == 'replace':
            # a node is replaced within one snapshot: it vanishes and a new endpoint carries its tokens
            old, new = rng.choice(present), rng.choice(absent)
            gone = self.truth.pop(old)
            self.appear(new)
            self.truth[new]['tokens'] = gone['tokens']
            if rng.random() < 0.5:
                self.truth[new]['dc'], self.truth[new]['rack'] = gone['dc'], gone['rack']
        if kind == 'swap':
            # two hosts exchange tokens (all of them, or one each): the set of ring positions stays what it was
            owners = [self.truth[a] for a in present] + [self.local]
            x, y = rng.sample(owners, 2)
            if rng.random() < 0.5:
                x['tokens'], y['tokens'] = y['tokens'], x['tokens']
            else:
                x['tokens'], y['tokens'] = [y['tokens'][0]] + x['tokens'][1:], [x['tokens'][0]] + y['tokens'][1:]
        if kind in ('tokens', 'mixed'):
            for a in present:
                if rng.random() < (0.5 if kind == 'tokens' else 0.25):
                    self.truth[a]['tokens'] = self.toks()
            if rng.random() < 0.3 or (kind == 'tokens' and not present):
                self.local['tokens'] = self.toks()
        if kind in ('location', 'mixed'):
            for a in present:
                r = rng.random()
                if r < 0.25:
                    self.truth[a]['dc'] = rng.choice([d for d in DCS if d != self.truth[a]['dc']])
                elif r < 0.5:
                    self.truth[a]['rack'] = rng.choice([d for d in RACKS if d != self.truth[a]['rack']])
            if rng.random() < 0.25:
                self.local['rack'] = rng.choice([d for d in RACKS if d != self.local['rack']])
            elif rng.random() < 0.15:
                self.local['dc'] = rng.choice([d for d in DCS if d != self.local['dc']])
        if kind in ('membership', 'mixed'):
            for a in present:
                if rng.random() < 0.3:
                    del self.truth[a]
            for a in absent:
                if rng.random() < 0.4:
                    self.appear(a)
        return kind

    def render(self, quiet=False):
        """rows of the peers table for the current truth plus noise rows"""
        rng = self.rng
        rows = [dict(addr=a[0], port=a[1], kind='valid', **dict((k, (list(v) if isinstance(v, list) else v)) for k, v in t.items()))
                for a, t in self.truth.items()]
        rng.shuffle(rows)
        noise = []
        n_noise = 0 if quiet else rng.choice([0, 0, 1, 1, 2, 3])
        for _ in range(n_noise):
            r = rng.random()
            slot = rng.choice(self.slots + [(GHOST, 9042)])
            base = {'addr': slot[0], 'port': slot[1], 'host_id': self.hid(), 'dc': rng.choice(DCS), 'rack': rng.choice(RACKS),
                    'tokens': self.toks()}
            if r < 0.5:
                miss = rng.choice(['addr', 'host_id', 'dc', 'rack', 'tokens', 'tokens-empty'])
                if miss == 'tokens-empty':
                    base['tokens'] = []
                else:
                    base[miss] = None
                base['kind'] = 'invalid:' + miss
            elif r < 0.75 and rows:
                twin = rng.choice(rows)
                base['addr'], base['port'] = twin['addr'], twin['port']
                base['kind'] = 'dup-endpoint'
            elif r < 0.88:
                base['addr'], base['port'] = CONTROL, 9042
                base['kind'] = 'dup-control'
            elif rows:
                base['addr'], base['port'] = rng.choice(self.slots)
                base['host_id'] = rng.choice(rows)['host_id']
                base['kind'] = 'same-host-id'
            else:
                base['rack'] = None
                base['kind'] = 'invalid:rack'
            if base['addr'] == GHOST and not base['kind'].startswith('invalid'):
                base['host_id'] = None
                base['kind'] = 'invalid:host_id'
            noise.append(base)
        for nrow in noise:
            rows.insert(rng.randrange(len(rows) + 1), nrow)
        loc = dict(self.local)
        loc['tokens'] = list(loc['tokens'])
        return {'local': loc, 'rows': rows}


def canon(snap):
    return (tuple(sorted((k, str(v)) for k, v in snap['local'].items())),
            tuple((r['addr'], r['port'], str(r['host_id']), r['dc'], r['rack'], None if r['tokens'] is None else tuple(r['tokens'])) for r in snap['rows']))


# ------------------------------------------------------------------ one history
def run_history(seed):
    import uuid
    from sim.env import SimEnv
    from sim import world as W
    from sim import node as N
    from spec import frames as F
    from spec import placement
    from cassandra.policies import RoundRobinPolicy, HostStateListener
    from cassandra.cluster import ExecutionProfile, EXEC_PROFILE_DEFAULT
    from cassandra.metadata import KeyspaceMetadata, Murmur3Token

    rng = random.Random(seed)
    random.seed(seed)
    proto = rng.choice([3, 4, 4])
    v2 = rng.random() < 0.6
    nsteps = rng.randint(2, 5)
    gen = Gen(rng, SLOTS_V2 if v2 else SLOTS_LEGACY)
    ch = W.RandomChooser(random.Random(seed * 11 + 3), p_time=0.0, p_preempt=rng.choice([0.0, 0.05, 0.15]))
    env = SimEnv(ch, addresses=ADDRS)          # the sim net routes a connection by address: nodes sharing an address share the scripted node
    control = env.net.nodes[CONTROL]
    control.peers_v2 = v2
    cur = {'snap': gen.render(), 'served': 0}

    def behaviour(node, cstate, req):
        if req['op'] != 'QUERY':
            return None
        q = ' '.join(req['query'].lower().split())
        snap = cur['snap']
        if q.startswith('select * from system.local'):
            row = node.local_row()
            loc = snap['local']
            row[1], row[2], row[6], row[7] = loc['dc'], loc['rack'], loc['host_id'], list(loc['tokens'])
            return node.rows(cstate, req, N.LOCAL_COLS, [row], 'system', 'local')
        if q.startswith('select * from system.peers_v2'):
            if not v2:
                return None                         # default: "unconfigured table" error -> the driver falls back to system.peers
            cur['served'] += 1
            rows = []
            for r in snap['rows']:
                ab = None if r['addr'] is None else N.ip_bytes(r['addr'])
                rows.append([ab, 7000, ab, r['port'], r['host_id'], r['dc'], r['rack'], uuid.UUID(int=7), r['tokens'], '4.0.0'])
            return node.rows(cstate, req, N.PEERS_V2_COLS, rows, 'system', 'peers_v2')
        if q.startswith('select * from system.peers'):
            cur['served'] += 1
            rows = []
            for r in snap['rows']:
                ab = None if r['addr'] is None else N.ip_bytes(r['addr'])
                rows.append([ab, ab, r['host_id'], r['dc'], r['rack'], uuid.UUID(int=7), r['tokens'], '4.0.0'])
            return node.rows(cstate, req, N.PEERS_COLS, rows, 'system', 'peers')
        return None
    control.behaviour = behaviour

    class RecPolicy(RoundRobinPolicy):
        def __init__(self):
            RoundRobinPolicy.__init__(self)
            self.rec = []

        def _note(self, what, h):
            e = (what, str(h.endpoint), h.datacenter, h.rack)
            if not self.rec or self.rec[-1] != e:          # the same policy object serves several built-in profiles
                self.rec.append(e)

        def on_up(self, h):
            self._note('up', h)
            return RoundRobinPolicy.on_up(self, h)

        def on_down(self, h):
            self._note('down', h)
            return RoundRobinPolicy.on_down(self, h)

        def on_add(self, h):
            self._note('add', h)
            return RoundRobinPolicy.on_add(self, h)

        def on_remove(self, h):
            self._note('remove', h)
            return RoundRobinPolicy.on_remove(self, h)

    class RecListener(HostStateListener):
        def __init__(self):
            self.rec = []

        def on_up(self, h):
            self.rec.append(('up', str(h.endpoint)))

        def on_down(self, h):
            self.rec.append(('down', str(h.endpoint)))

        def on_add(self, h):
            self.rec.append(('add', str(h.endpoint)))

        def on_remove(self, h):
            self.rec.append(('remove', str(h.endpoint)))

    viol = []
    stats = {'steps': 0, 'invalid_rows': 0, 'dup_rows': 0, 'appeared': 0, 'vanished': 0, 'loc_changes': 0, 'token_only_steps': 0,
             'token_maps_compared': 0, 'replica_checks': 0, 'event_triggers': 0, 'stale_carryover': 0, 'no_change_steps': 0,
             'token_change_steps': 0, 'hosts_compared': 0, 'forced': 0, 'same_ring_other_owners': 0, 'same_ring_replaced_host': 0,
             'same_ownership_location_changed': 0, 'nts_replica_checks': 0, 'vanished_on_control_address': 0, 'hosts_on_non_default_port': 0}
    steps_log = []
    with env:
        lbp, lis = RecPolicy(), RecListener()
        cluster = env.cluster(protocol_version=proto, token_metadata_enabled=True, topology_event_refresh_window=1,
                              status_event_refresh_window=1,
                              execution_profiles={EXEC_PROFILE_DEFAULT: ExecutionProfile(load_balancing_policy=lbp)})
        cluster.register_listener(lis)
        cluster.connect()
        cluster.metadata.keyspaces['ks42'] = KeyspaceMetadata('ks42', True, 'SimpleStrategy', {'replication_factor': '2'})
        NTS_RF = {'dc1': 2, 'dc2': 1, 'dc3': 2}
        cluster.metadata.keyspaces['nts42'] = KeyspaceMetadata('nts42', True, 'NetworkTopologyStrategy', dict((d, str(n)) for d, n in NTS_RF.items()))
        env.world.settle()
        prev_exp, prev_obs_tm = {}, None
        built = {'tm': None, 'ctrl_loc': None}       # the TokenMap object whose per-keyspace replica maps were computed, and the control node's location then
        for k in range(nsteps):
            if k > 0:
                kind = gen.step()
                cur['snap'] = gen.render(quiet=kind in ('replace', 'swap', 'location') and rng.random() < 0.6)
                lbp.rec, lis.rec = [], []
                served0 = cur['served']
                trig = rng.choice(['refresh_nodes', 'refresh_nodes', 'refresh_nodes-forced', 'control', 'event-topology', 'event-status'])
                if trig.startswith('event'):
                    stats['event_triggers'] += 1
                    if trig == 'event-topology':
                        control.push_event(F.body_event_topology('NEW_NODE', N.ip_bytes(EVENT_ADDR), 9042))
                    else:
                        control.push_event(F.body_event_status('UP', N.ip_bytes(EVENT_ADDR), 9042))
                    env.world.settle()
                    if cur['served'] == served0:
                        raise RuntimeError("pushed %s did not provoke a refresh" % trig)
                elif trig == 'control':
                    if not cluster.control_connection.refresh_node_list_and_token_map():
                        raise RuntimeError("refresh_node_list_and_token_map returned False")
                elif trig == 'refresh_nodes-forced':
                    stats['forced'] += 1
                    cluster.refresh_nodes(force_token_rebuild=True)
                else:
                    cluster.refresh_nodes(force_token_rebuild=False)
                env.world.settle()
            else:
                kind, trig = 'connect', 'connect'
            snap = cur['snap']
            exp = mirror(snap)
            stats['steps'] += 1
            stats['invalid_rows'] += sum(1 for r in snap['rows'] if r['kind'].startswith('invalid'))
            stats['dup_rows'] += sum(1 for r in snap['rows'] if r['kind'].startswith('dup'))
            stats['vanished_on_control_address'] += sum(1 for a in prev_exp if a not in exp and a.startswith(CONTROL + ':'))
            stats['hosts_on_non_default_port'] += sum(1 for a in exp if not a.endswith(':9042'))
            with env.world.inspect():
                hosts = dict((str(h.endpoint), h) for h in cluster.metadata.all_hosts())
                obs = set(hosts)
                wit = {'seed': seed, 'step': k, 'kind': kind, 'trigger': trig, 'proto': proto, 'peers_v2': v2,
                       'snapshot': {'local': snap['local'], 'rows': snap['rows']},
                       'previous_expected': dict((a, v[1:]) for a, v in prev_exp.items())}
                # 1. membership
                if obs != set(exp):
                    rows_by_addr = {}
                    for r in snap['rows']:
                        rows_by_addr.setdefault(rid(r), []).append(r)
                    for a in sorted(obs - set(exp)):
                        if a in rows_by_addr:
                            missing = sorted(set(r['kind'] for r in rows_by_addr[a]))
                            viol.append(('invalid-peer-row-accepted', 'host %s is known although its only rows are %s' % (a, missing), wit))
                        else:
                            viol.append(('vanished-host-kept', 'host %s is still known but no row advertises it' % a, wit))
                    for a in sorted(set(exp) - obs):
                        viol.append(('valid-peer-row-ignored', 'host %s has a valid row but is not in all_hosts()' % a, wit))
                # 2. location / host id mirrored
                for a in sorted(obs & set(exp)):
                    h = hosts[a]
                    stats['hosts_compared'] += 1
                    if (h.datacenter, h.rack) != exp[a][1:3] or h.host_id != exp[a][0]:
                        dup = sum(1 for r in snap['rows'] if rid(r) == a) + (1 if a == CONTROL_ID else 0) > 1
                        viol.append(('later-duplicate-row-overrode-host' if dup else 'location-not-mirrored',
                                     'host %s is (%s, %s, %s), the snapshot says %r' % (a, h.host_id, h.datacenter, h.rack, exp[a][:3]), wit))
                # 3. listener notifications
                adds = sorted(e[1] for e in lis.rec if e[0] == 'add')
                rems = sorted(e[1] for e in lis.rec if e[0] == 'remove')
                if adds != sorted(set(exp) - set(prev_exp)):
                    viol.append(('listener-on-add-not-once-per-appearance', 'on_add for %r, appeared %r' % (adds, sorted(set(exp) - set(prev_exp))), wit))
                if rems != sorted(set(prev_exp) - set(exp)):
                    viol.append(('listener-on-remove-not-once-per-vanish', 'on_remove for %r, vanished %r' % (rems, sorted(set(prev_exp) - set(exp))), wit))
                stats['appeared'] += len(set(exp) - set(prev_exp))
                stats['vanished'] += len(set(prev_exp) - set(exp))
                # 4. the policy
                peer_loc_change = False
                for a in sorted(set(exp) & set(prev_exp)):
                    old, new = prev_exp[a][1:3], exp[a][1:3]
                    if old == new:
                        continue
                    stats['loc_changes'] += 1
                    if a != CONTROL_ID:
                        peer_loc_change = True
                    ok = False
                    for i, e in enumerate(lbp.rec):
                        if e[1] == a and e[0] in ('down', 'remove') and e[2:] == old:
                            if any(f[1] == a and f[0] in ('up', 'add') and f[2:] == new for f in lbp.rec[i + 1:]):
                                ok = True
                                break
                    if not ok:
                        viol.append(('policy-not-told-location-change', 'host %s moved %r -> %r; the policy saw %r' % (
                            a, old, new, [e for e in lbp.rec if e[1] == a]), wit))
                for a in sorted(set(exp) - set(prev_exp)):
                    if k > 0 and not any(e[0] == 'add' and e[1] == a and e[2:] == exp[a][1:3] for e in lbp.rec):
                        viol.append(('policy-not-told-new-host', 'host %s appeared; the policy saw %r' % (a, [e for e in lbp.rec if e[1] == a]), wit))
                live = set(str(h.endpoint) for h in lbp._live_hosts)
                if live != obs:
                    viol.append(('policy-live-set-diverged', 'policy live hosts %r, metadata %r' % (sorted(live), sorted(obs)), wit))
                # 5. token map
                tm = cluster.metadata.token_map
                obs_tm = None if tm is None else dict((t.value, str(h.endpoint)) for t, h in tm.token_to_host_owner.items())
                exp_tm = ownership(exp)
                membership_changed = set(exp) != set(prev_exp)
                tokens_changed = any(a in prev_exp and prev_exp[a][3] != exp[a][3] for a in exp)
                stats['token_maps_compared'] += 1
                if tokens_changed:
                    stats['token_change_steps'] += 1
                if not membership_changed and not tokens_changed:
                    stats['no_change_steps'] += 1
                if not membership_changed and tokens_changed:
                    stats['token_only_steps'] += 1
                same_ring = prev_exp and sorted(exp_tm) == sorted(ownership(prev_exp))
                if same_ring and exp_tm != ownership(prev_exp):
                    stats['same_ring_other_owners'] += 1
                    if membership_changed:
                        stats['same_ring_replaced_host'] += 1
                if same_ring and exp_tm == ownership(prev_exp) and any(prev_exp[a][1:3] != exp[a][1:3] for a in exp if a in prev_exp):
                    stats['same_ownership_location_changed'] += 1
                wit_tm = dict(wit, token_map=sorted(obs_tm.items()) if obs_tm is not None else None, expected=sorted(exp_tm.items()))
                if obs_tm != exp_tm:
                    if trig == 'refresh_nodes-forced':
                        viol.append(('forced-rebuild-left-token-map-different-from-snapshot', 'refresh_nodes(force_token_rebuild=True): ownership %r, snapshot %r' % (
                            sorted(obs_tm.items()) if obs_tm is not None else None, sorted(exp_tm.items())), wit_tm))
                    elif not membership_changed and not tokens_changed:
                        stats['stale_carryover'] += 1              # nothing changed: the statement asks for no rebuild here
                    elif not membership_changed and not peer_loc_change and obs_tm == prev_obs_tm:
                        viol.append(('token-change-without-membership-change-not-rebuilt',
                                     'tokens of %r changed, membership did not: token map kept the old ownership' % (
                                         sorted(a for a in exp if a in prev_exp and prev_exp[a][3] != exp[a][3]),), wit_tm))
                    else:
                        viol.append(('token-map-not-the-snapshot', 'token ownership %r, snapshot %r' % (
                            sorted(obs_tm.items()) if obs_tm is not None else None, sorted(exp_tm.items())), wit_tm))
                elif obs == set(exp):
                    # 6. replicas on the rebuilt ring
                    ring = sorted(exp_tm.items())
                    locations = dict((a, v[1:3]) for a, v in exp.items())
                    if built['tm'] is not tm:
                        built = {'tm': tm, 'ctrl_loc': locations[CONTROL_ID]}
                    for t, h in tm.token_to_host_owner.items():
                        if hosts.get(str(h.endpoint)) is not h:
                            viol.append(('token-owner-is-not-a-current-member', 'token %d is owned by a Host object that is not the one in all_hosts()' % t.value, wit_tm))
                            break
                    for _ in range(3):
                        tv = rng.choice([rng.randint(-4100, 4100), ring[rng.randrange(len(ring))][0]])
                        reps = tm.get_replicas('ks42', Murmur3Token(tv))
                        got = [str(h.endpoint) for h in reps]
                        want = placement.simple_strategy(ring, 2, tv)
                        stats['replica_checks'] += 1
                        if got != want:
                            viol.append(('replicas-differ-on-rebuilt-ring', 'token %d: replicas %r, reference %r' % (tv, got, want), wit_tm))
                        # NetworkTopologyStrategy depends on dc / rack as well: a fresh placement on this snapshot (set comparison, no repeats)
                        nreps = tm.get_replicas('nts42', Murmur3Token(tv))
                        ngot = sorted(str(h.endpoint) for h in nreps)
                        nwant = sorted(placement.network_topology(ring, locations, NTS_RF, tv)[0])
                        stats['nts_replica_checks'] += 1
                        stale = None
                        if ngot != nwant and built['ctrl_loc'] != locations[CONTROL_ID]:
                            # same TokenMap object as when the control node was elsewhere: is this exactly the placement of that time?
                            stale = sorted(placement.network_topology(ring, dict(locations, **{CONTROL_ID: built['ctrl_loc']}), NTS_RF, tv)[0])
                        if ngot != nwant and stale == ngot:
                            viol.append(('nts-replicas-stale-after-control-node-location-change',
                                         'token %d: the control node moved %r -> %r, token map not rebuilt: NetworkTopologyStrategy replicas %r are those of the old location, fresh placement %r' % (
                                             tv, built['ctrl_loc'], locations[CONTROL_ID], ngot, nwant), dict(wit_tm, locations=locations)))
                        elif ngot != nwant:
                            viol.append(('nts-replicas-differ-from-fresh-placement', 'token %d: NetworkTopologyStrategy %r replicas %r, fresh placement on the snapshot %r' % (
                                tv, NTS_RF, ngot, nwant), dict(wit_tm, locations=locations)))
                        if any(hosts.get(str(h.endpoint)) is not h for h in list(reps) + list(nreps)):
                            viol.append(('replica-is-not-a-current-member', 'token %d: a returned replica is not a Host of all_hosts()' % tv, wit_tm))
                prev_obs_tm = obs_tm
            prev_exp = exp
            steps_log.append((kind, trig, canon(snap)))
        harness = list(env.world.errors) + [('parse', p) for p in env.net.parse_failures]
        cluster.shutdown()
        env.world.settle()
    info = {'seed': seed, 'proto': proto, 'peers_v2': v2, 'steps': nsteps}
    return viol, harness, stats, info, steps_log


def run(ctx):
    from vlib import shim
    shim.import_cluster()
    from vlib.run import Inconclusive
    from sim.world import WorldLimit
    ctx.rule = ("a case is one seeded sequence of 2-5 snapshots (system.local row + peers rows incl. invalid / duplicate rows) with the refresh "
                "trigger of each step, protocol version and peers table flavour; distinct by the canonical snapshot sequence; non-trivial = "
                "at least one step after connect")
    ctx.assume("when several rows carry one endpoint the first is the host's row (the driver logs that it excludes the later one); "
               "a peers row carrying the control node's endpoint never overrides system.local")
    ctx.assume("'missing address' = both address columns null (a null native/rpc address with a peer address falls back to the peer column and is not generated); "
               "'missing tokens' = null or empty set; empty-string dc/rack are not generated")
    ctx.assume("distinct valid hosts never share a token in a snapshot (ownership would be ambiguous)")
    n = ctx.scale(100000, 60000)
    budget = 38 if ctx.quick else 300
    base = ctx.seed * 1000003 + (ctx.worker or 0) * 100003
    import time
    t_start = time.time()          # the budget counts from here (imports can be slow on a loaded machine); a minimum is always run
    for i in range(n):
        if i >= 150 and time.time() - t_start > budget:
            ctx.note("stopped by time budget after %d histories" % i)
            break
        seed = base + i
        try:
            viol, harness, stats, info, steps_log = run_history(seed)
        except WorldLimit:
            ctx.count("histories_over_budget")
            continue
        except Exception as e:
            import traceback
            raise Inconclusive("history seed %d failed in the harness: %s: %s\n%s" % (seed, type(e).__name__, e, traceback.format_exc()[-800:]))
        if harness:
            raise Inconclusive("harness error in history seed %d: %r" % (seed, harness[:2]))
        ctx.case(repr((info['proto'], info['peers_v2'], steps_log)), nontrivial=info['steps'] >= 2)
        ctx.count("histories")
        for k, v in (("refreshes_checked", 'steps'), ("invalid_rows_served", 'invalid_rows'), ("duplicate_endpoint_rows_served", 'dup_rows'),
                     ("hosts_appeared", 'appeared'), ("hosts_vanished", 'vanished'), ("location_changes", 'loc_changes'),
                     ("steps_with_token_change_only", 'token_only_steps'), ("steps_with_token_change", 'token_change_steps'),
                     ("steps_without_change", 'no_change_steps'), ("token_maps_compared", 'token_maps_compared'),
                     ("replica_lookups_compared", 'replica_checks'), ("refreshes_provoked_by_pushed_event", 'event_triggers'),
                     ("stale_token_map_carried_over_unchanged_step", 'stale_carryover'), ("host_records_compared", 'hosts_compared'), ("forced_rebuilds", 'forced'),
                     ("steps_same_ring_positions_other_owners", 'same_ring_other_owners'), ("steps_host_replaced_keeping_its_tokens", 'same_ring_replaced_host'),
                     ("steps_same_ownership_location_changed", 'same_ownership_location_changed'), ("nts_replica_lookups_compared", 'nts_replica_checks'),
                     ("hosts_vanished_that_shared_the_control_address", 'vanished_on_control_address'),
                     ("host_records_on_non_default_native_port", 'hosts_on_non_default_port')):
            ctx.count(k, stats[v])
        if info['peers_v2']:
            ctx.count("histories_peers_v2")
        else:
            ctx.count("histories_legacy_peers")
        seen = set()
        for mech, what, wit in viol:
            if mech in seen:
                continue
            seen.add(mech)
            ctx.violation(mech, "%s [seed %d step %d %s via %s, v%d, %s]" % (what, seed, wit['step'], wit['kind'], wit['trigger'], info['proto'],
                                                                               'peers_v2' if info['peers_v2'] else 'peers'), wit)
        if not viol and len(ctx.samples) < 3 and info['steps'] <= 3:
            ctx.sample({"info": info, "steps": [(k, t, repr(c)[:600]) for k, t, c in steps_log]})
    ctx.floor_distinct = 300 if ctx.quick else 5000
    ctx.floor_counters = {"histories": 300, "refreshes_checked": 1000, "invalid_rows_served": 200, "duplicate_endpoint_rows_served": 100,
                          "hosts_appeared": 300, "hosts_vanished": 100, "location_changes": 100, "steps_with_token_change_only": 50,
                          "token_maps_compared": 1000, "replica_lookups_compared": 1000, "refreshes_provoked_by_pushed_event": 50,
                          "histories_peers_v2": 50, "histories_legacy_peers": 50, "steps_same_ring_positions_other_owners": 60,
                          "steps_host_replaced_keeping_its_tokens": 20, "steps_same_ownership_location_changed": 40, "nts_replica_lookups_compared": 1000,
                          "hosts_vanished_that_shared_the_control_address": 30, "host_records_on_non_default_native_port": 500}
