"""C12 - connection pools keep exact accounting and close what they open.

Monitor: the real Cluster/Session/ResponseFuture/HostConnection (protocol v3+) and HostConnectionPool (v2, core 1-2 / max 2-4,
request thresholds lowered) run in the deterministic world over scripted wire-level nodes.  Histories mix requests through the
Session (answered, held, answered after the client timeout, never answered, UNPREPARED -> re-prepare), requests driven directly
through ``borrow_connection`` / ``send_msg`` / ``return_connection``, connection resets / EOFs, refused and delayed replacement
connections, and a ``shutdown()`` of the pool / session / cluster at a random step.

Checked:  under every release of ``conn.lock``: 0 <= in_flight <= max_request_id + 1;  a borrow never returns a connection
beyond its capacity or a stream that is in use;  a borrow that starts after the pool was shut down raises;  at quiescence, on
every open connection whose requests were all answered, in_flight == 0;  after cluster shutdown and drain every connection a
pool ever opened (initial, grown, replacement, trashed) is closed.
"""
import random

PROPERTY = "C12"
LEVEL = "exploration"
ENGINE = "sim"
TECHNIQUE = "runtime monitor in a deterministic world: in_flight invariants hooked under conn.lock, conservation at quiescence, closure census after shutdown"
LEVEL_TEXT = ("Hundreds (quick) to tens of thousands (thorough) of seeded schedules of 4-30 pool events (Session requests, direct borrows, "
              "timeouts, late answers, UNPREPARED, resets, refused / delayed replacements, shutdown at a random step) on v2 multi-connection "
              "pools and v3/v4 single-connection pools with a 8-16 id stream space: in_flight stays within [0, capacity] under the "
              "connection's own lock, borrows respect capacity and shutdown, in_flight returns to 0 when everything was answered, and no "
              "pool connection survives shutdown. Held-on-observed schedules.")
LEVEL_NOTE = ("Trusted base: sim/world.py (switches only at synchronisation points), sim/node.py, sim/s3_pool.py (close() snapshot, bounded "
              "connection refusal, handshake hold, never-convict policy). max_in_flight is lowered on the harness connection class; the "
              "heartbeat thread is not part of these histories (its return_connection on a dead connection decrements without a borrow; not "
              "judged here).")
QUICK_WORKERS = 4
WORKERS = 14


def run_history(ctx, seed):
    from sim.s3_pool import PoolWorld, owner_of, POOL_CREATORS
    from sim.scen import echoed_uid
    rng = random.Random(seed)
    proto = rng.choice([2, 2, 3, 4, 4])
    K = rng.choice([8, 12, 16])
    nodes = rng.choice([1, 1, 2])
    never = rng.random() < 0.6
    v2cfg = None
    if proto < 3:
        core = rng.choice([1, 2])
        mx = rng.choice([2, 3, 4])
        minr = rng.choice([0, 1])
        maxr = rng.choice([2, 3])
        v2cfg = (core, max(mx, core), minr, maxr)
    pw = PoolWorld(seed, proto, K=K, thr=3 * K // 4, nodes=nodes, p_preempt=rng.choice([0.0, 0.1, 0.3, 0.5]), never_convict=never, v2cfg=v2cfg,
                   chunking=rng.random() < 0.3,
                   keyspace='ks' if rng.random() < (0.6 if v2cfg and v2cfg[0] >= 2 else 0.35) else None)
    env, world, net, plan = pw.env, pw.world, pw.net, pw.plan
    nsteps = rng.randint(4, 30)
    shutdown_at = rng.randrange(nsteps) if rng.random() < 0.6 else None
    shutdown_how = rng.choices(['pool', 'session', 'cluster'], [5, 3, 2])[0]
    viol = pw.viol
    info = {'seed': seed, 'proto': proto, 'id_space': K, 'nodes': nodes, 'keyspace': pw.keyspace, 'never_convict': never, 'v2cfg': v2cfg, 'steps': nsteps,
            'shutdown_at': shutdown_at, 'shutdown_how': shutdown_how if shutdown_at is not None else None}
    steps_log = []
    def use_pattern():
        pat = [rng.random() < 0.5 for _ in range(rng.randint(1, 4))]
        if not any(pat):
            pat[rng.randrange(len(pat))] = True
        while sum(pat) > 2:
            pat[pat.index(True)] = False
        return pat
    if pw.keyspace and nodes >= 2 and rng.random() < 0.5:
        # a connection a pool constructor opened is dropped by the node instead of getting its USE answered (the other core connections are fine)
        pw.use_script[pw.addrs[1]] = use_pattern()
        info['use_script_initial'] = list(pw.use_script[pw.addrs[1]])
    stalled_initial_pool = nodes >= 2 and not pw.use_script and rng.random() < 0.3
    if stalled_initial_pool:
        # the pool of the first host is still being built when connect() returns (its connections are stuck in their set-up); whatever makes the session
        # look at its pools meanwhile (another host going down ...) can start a second build for the same host; both finish when the node answers
        pw.hold_init_of[0] = pw.addrs[0]
        info['stalled_initial_pool'] = True
    run_history.last_world = pw
    with env:
        session = pw.start()
        rec = pw.rec
        cluster = pw.cluster
        prepared = True if rng.random() < 0.5 else None
        pw.ch.p_time = rng.choice([0.0, 0.05, 0.15])
        kinds = {}
        uid = [0]
        timeout = 1.0
        did_shutdown = [False]

        def new_uid():
            uid[0] += 1
            return uid[0]

        def all_pools():
            ps = []
            for c in pw.pool_conns():
                p = owner_of(c)
                if p is not None and p not in ps:
                    ps.append(p)
            return ps

        def step(i):
            r = rng.random()
            if (shutdown_at == i or forced_shutdown[0] == i) and not did_shutdown[0]:
                did_shutdown[0] = True
                steps_log.append(('shutdown', shutdown_how))
                if shutdown_how == 'pool':
                    ps = [p for p in pw.pools() if not p.is_shutdown]
                    if ps:
                        rng.choice(ps).shutdown()
                elif shutdown_how == 'session':
                    if pw.hold_init_of[0] is not None:
                        # Session.shutdown() waits for the initial connect tasks without a timeout, and one of them is stuck in its set-up until the
                        # scenario lets the node answer: the application thread that shuts the session down is a thread of its own, this one goes on
                        world.spawn(session.shutdown, name='session-shutdown')
                        if rng.random() < 0.5:
                            world.settle(advance=False)
                    else:
                        session.shutdown()
                else:
                    # Cluster.shutdown() joins the executor: a task blocked for ever in a kept-back USE round trip (no timeout in the driver) would hang it
                    pw.hold_handshake[0] = False
                    pw.hold_init_of[0] = None
                    pw.release_handshakes()
                    cluster.shutdown()
                return
            if r < 0.34:
                u = new_uid()
                k = rng.choices(['rows', 'hold', 'late', 'silent'], [5, 4, 3, 1])[0]
                kinds[u] = k
                plan.set(u, {'rows': 'rows', 'hold': 'hold', 'late': 'hold', 'silent': 'silent'}[k])
                steps_log.append(('send', u, k))
                if not cluster.is_shutdown:
                    rec.execute_async(session, u, timeout=timeout)
            elif r < 0.44 and prepared is not None and not session.is_shutdown:
                # EXECUTE answered UNPREPARED: the driver re-prepares and retries
                u = new_uid()
                kinds[u] = 'unprepared'
                from sim.scen import uid_query
                try:
                    ps = session.prepare(uid_query(u))
                except Exception as e:      # noqa - a dead pool is a legitimate reason
                    steps_log.append(('prepare-failed', u, type(e).__name__))
                    return
                held_unprepared = lambda node, cstate, req, uid: ('hold', node.error(cstate, req, 'unprepared', 'unprepared', query_id=req['query_id'])[1])
                plan.set(u, [rng.choice(['unprepared', held_unprepared]), 'rows'])
                steps_log.append(('send-prepared', u))
                rec.execute_async(session, u, statement=ps.bind(()), timeout=300.0)       # see ctx.assume: no client timeout on the re-prepare path
            elif r < 0.56:
                ps = pw.pools()
                if ps:
                    p = rng.choice(ps)
                    u = new_uid()
                    k = rng.choice(['rows', 'hold'])
                    kinds[u] = 'direct-' + k
                    steps_log.append(('direct', u, k, bool(p.is_shutdown)))
                    pw.direct_request(p, u, k)
            elif r < 0.70:
                cand = [h for h in pw.open_held() if kinds.get(pw.uid_of_held(h)) in ('hold', 'direct-hold', 'unprepared')]
                if cand:
                    h = rng.choice(cand)
                    steps_log.append(('release', pw.uid_of_held(h)))
                    h.release()
            elif r < 0.78:
                live = pw.live_pool_conns()
                if live:
                    c = rng.choice(live)
                    how = rng.random() < 0.5
                    if rng.random() < 0.6:
                        for n in net.nodes.values():
                            n._refuse = rng.choice([0, 0, 1, 2, 3])
                    elif rng.random() < 0.6:
                        # scripted fate of the next connection attempts (reconnector, pool constructor's 1st/2nd connection, replacement ...)
                        for n in net.nodes.values():
                            pat = [rng.random() < 0.4 for _ in range(rng.randint(2, 6))]
                            while sum(pat) > 3:
                                pat[pat.index(True)] = False
                            n._pattern = pat
                    if rng.random() < 0.3:
                        pw.hold_handshake[0] = True
                    if pw.keyspace and rng.random() < 0.6:
                        pw.use_script[str(c.endpoint.address)] = use_pattern()      # fate of the USE round trips when this host's pool is rebuilt
                    steps_log.append(('fail', c.sim_id, 'reset' if how else 'eof', [n._refuse for n in net.nodes.values()], pw.hold_handshake[0]))
                    net.server_close(c, reset=how)
                    if pw.keyspace and not never and rng.random() < 0.5:
                        # with the default conviction policy a host goes down (and its pool is rebuilt) once no connection to it is open: fail them all
                        for c2 in pw.live_pool_conns():
                            if c2 is not c and c2.endpoint == c.endpoint:
                                net.server_close(c2, reset=rng.random() < 0.5)
            elif r < 0.84:
                if pw.held_handshakes or pw.hold_handshake[0]:
                    pw.hold_handshake[0] = False
                    steps_log.append(('release-handshakes', pw.release_handshakes()))
                elif rng.random() < 0.5:
                    # from now on connections a pool opens on its own (growth, refill, replacement) are stuck in their set-up (handshake / USE)
                    pw.hold_handshake[0] = True
                    steps_log.append(('hold-handshakes',))
            elif r < 0.93:
                steps_log.append(('settle',))
                world.settle(advance=False)
            else:
                dt = rng.choice([0.2, 0.6, 1.1, 2.5, 11.0] if proto < 3 else [0.2, 0.6, 1.1, 2.5])
                steps_log.append(('advance', dt))
                world.advance_to(world.now + dt)

        forced_shutdown = [None]
        if stalled_initial_pool:
            saved_preempt, pw.ch.p_preempt = pw.ch.p_preempt, rng.choice([0.1, 0.3, 0.5])
            if rng.random() < 0.75:
                live = pw.live_pool_conns()
                if live:
                    c = rng.choice(live)
                    how = rng.random() < 0.5
                    steps_log.append(('fail', c.sim_id, 'reset' if how else 'eof'))
                    net.server_close(c, reset=how)
                    if rng.random() < 0.5:
                        u = new_uid()
                        kinds[u] = 'rows'
                        plan.set(u, 'rows')
                        rec.execute_async(session, u, timeout=timeout)
                    world.settle(advance=False)
            if rng.random() < 0.8:
                pw.hold_init_of[0] = None
                steps_log.append(('release-initial-pool', pw.release_handshakes()))
                world.settle(advance=False)
            pw.ch.p_preempt = saved_preempt
        idle_family = False
        if proto < 3 and v2cfg[2] >= 1 and not stalled_initial_pool and rng.random() < 0.6:
            # a legacy pool grows above core, every connection ends up with one timed-out (orphaned) stream, the pool sits idle for longer than the
            # trash interval; then a few requests are answered - return_connection on the reactor thread finds a connection idle above core and sets
            # it aside (_maybe_trash_connection) - while the pool / session / cluster is shut down on another thread; the orphans' answers come late
            ps = pw.pools()
            p = ps[0] if ps else None
            if p is not None and type(p).__name__ == 'HostConnectionPool':
                idle_family = True
                core, mx, minr, maxr = v2cfg
                for _ in range(mx * (maxr + 1)):
                    if len(p._connections) > core:
                        break
                    u = new_uid()
                    kinds[u] = 'direct-hold'
                    pw.direct_request(p, u, 'hold', timeout=0.0)
                    world.settle(advance=False)
                for h in pw.open_held():
                    h.release()
                world.settle(advance=False)
                nconn = len(p._connections)
                if nconn > core:
                    for _ in range(nconn):
                        u = new_uid()
                        kinds[u] = 'late'
                        plan.set(u, 'hold')
                        rec.execute_async(session, u, timeout=timeout)
                    world.settle(advance=False)
                    world.advance_to(world.now + 10.5)
                    saved_preempt, pw.ch.p_preempt = pw.ch.p_preempt, rng.choice([0.3, 0.5, 0.5])
                    if rng.random() < 0.7:
                        # another thread keeps taking the connections' locks and holds each for a while (what a heartbeat or wait_for_responses does
                        # around send_msg): whoever needs that lock meanwhile waits
                        hr = random.Random(seed + 17)
                        conns_now = list(p._connections)

                        def holder():
                            for _ in range(hr.randint(2, 6)):
                                for c in conns_now:
                                    with c.lock:
                                        for _ in range(hr.randint(2, 6)):
                                            world.maybe_yield('hold')
                        world.spawn(holder, name='lock-holder')
                    for _ in range(rng.randint(1, 3)):
                        u = new_uid()
                        kinds[u] = 'rows'
                        plan.set(u, 'rows')
                        rec.execute_async(session, u, timeout=30.0)
                    how = rng.choice(['pool', 'pool', 'session', 'cluster'])
                    target = {'pool': p.shutdown, 'session': session.shutdown, 'cluster': cluster.shutdown}[how]
                    if rng.random() < 0.7:
                        world.spawn(target, name='shutdown-' + how)       # the application shuts down on a thread of its own
                        world.settle(advance=False)
                    else:
                        target()
                    pw.ch.p_preempt = saved_preempt
                    did_shutdown[0] = True
                    steps_log.append(('grown-idle-pool-shut-down-while-answers-arrive', nconn, how))
                    info['idle_family'] = how
        if not idle_family and rng.random() < (0.3 if proto < 3 else 0.12):
            # saturation prelude: fill every connection of a pool exactly to its capacity with requests the node keeps back (the pool may grow meanwhile),
            # then borrowers that have to wait: some give up while the pool is still full, some are woken by a stream that really was freed
            ps = pw.pools()
            if ps:
                p = ps[0]
                filled, misses = 0, 0
                if rng.random() < 0.4:
                    # connections the pool opens while it fills up (growth) get stuck in their set-up; the pool may be shut down meanwhile
                    pw.hold_handshake[0] = True
                    steps_log.append(('hold-handshakes',))
                    if rng.random() < 0.6:
                        forced_shutdown[0] = rng.randrange(0, 3)
                        info['forced_shutdown_step'] = forced_shutdown[0]
                while misses < 3 and filled < 80:
                    u = new_uid()
                    kinds[u] = 'direct-hold'
                    if pw.direct_request(p, u, 'hold', timeout=0.0) is None:
                        misses += 1
                        world.settle(advance=False)          # a connection the pool decided to open may add capacity
                    else:
                        filled += 1
                        misses = 0
                steps_log.append(('saturated', filled, [(c.sim_id, c.in_flight, c.max_request_id) for c in pw.live_pool_conns()]))
                info['saturated'] = filled
                for _ in range(rng.randint(1, 5)):
                    r = rng.random()
                    if r < 0.35:
                        u = new_uid()
                        kinds[u] = 'direct-rows'
                        steps_log.append(('waiting-borrow', u))
                        pw.direct_request(p, u, 'rows', timeout=rng.choice([0.05, 0.3]))
                    elif r < 0.55:
                        u = new_uid()
                        kinds[u] = 'rows'
                        plan.set(u, 'rows')
                        steps_log.append(('send', u, 'rows'))
                        rec.execute_async(session, u, timeout=30.0)            # Session path: borrow_connection(timeout=2.0)
                    elif r < 0.8:
                        # free a stream first (the answer is on its way), then wait: this borrower must be served
                        cand = [h for h in pw.open_held() if kinds.get(pw.uid_of_held(h)) == 'direct-hold']
                        if cand:
                            rng.choice(cand).release()
                        u = new_uid()
                        kinds[u] = 'direct-rows'
                        steps_log.append(('release-then-waiting-borrow', u))
                        pw.direct_request(p, u, 'rows', timeout=0.3)
                    else:
                        for _ in range(rng.randint(1, 3)):
                            u = new_uid()
                            kinds[u] = 'direct-rows'
                            world.spawn(lambda u=u, p=p: pw.direct_request(p, u, 'rows', timeout=0.3), name='waiter-%d' % u)
                        cand = [h for h in pw.open_held() if kinds.get(pw.uid_of_held(h)) == 'direct-hold']
                        if cand and rng.random() < 0.6:
                            rng.choice(cand).release()
                        steps_log.append(('waiter-threads',))
                        world.settle(advance=False)
        if proto >= 3 and rng.random() < 0.5:
            # overload prelude: enough timed-out streams to cross the orphan threshold while other requests stay pending, then more
            # requests (a burst: several borrows race the replacement) make the pool replace the connection: the old one goes to _trash
            thr = 3 * K // 4
            for _ in range(thr):
                u = new_uid()
                kinds[u] = rng.choice(['late', 'silent'])
                plan.set(u, 'hold' if kinds[u] == 'late' else 'silent')
                rec.execute_async(session, u, timeout=timeout)
            pending = rng.randint(0, K - 1 - thr)
            for _ in range(pending):
                u = new_uid()
                kinds[u] = 'hold'
                plan.set(u, 'hold')
                rec.execute_async(session, u, timeout=30.0)
            world.settle(advance=False)
            world.advance_to(world.now + timeout + 0.2)
            steps_log.append(('overload-prelude', thr, pending))
            info['overload_prelude'] = True
            if rng.random() < 0.7:
                burst = rng.randint(1, 8)
                saved_preempt, pw.ch.p_preempt = pw.ch.p_preempt, rng.choice([0.3, 0.5])     # borrowers get parked at lock acquisitions more often
                ps = pw.pools()
                if ps and rng.random() < 0.6:
                    # concurrent borrowers on threads of their own (an application calling the session from several threads): each can be
                    # parked at a lock while the replacement completes
                    for _ in range(rng.randint(2, 4)):
                        u = new_uid()
                        kinds[u] = 'direct-rows'
                        world.spawn(lambda u=u, p=ps[0]: pw.direct_request(p, u, 'rows'), name='borrower-%d' % u)
                    steps_log.append(('borrower-threads',))
                if ps and never and rng.random() < 0.35:
                    # a dead connection is handed to the pool by a thread of its own (what the idle-heartbeat does with a connection it finds closed) while
                    # the host's lock is busy (Cluster.on_up / on_down hold it for long stretches) and the orphan-threshold replacement completes meanwhile
                    pw.hold_handshake[0] = True
                    u = new_uid()
                    kinds[u] = 'rows'
                    plan.set(u, 'rows')
                    rec.execute_async(session, u, timeout=30.0)
                    world.settle(advance=False)
                    old_conns = [c for c in pw.live_pool_conns() if c.orphaned_threshold_reached and owner_of(c) is ps[0] and ps[0]._connection is c]
                    if old_conns:
                        x = old_conns[0]
                        how = rng.random() < 0.6
                        net.server_close(x, reset=how)
                        world.settle(advance=False)
                        hold_lock = rng.random() < 0.8
                        if hold_lock:
                            ps[0].host.lock.acquire()
                        try:
                            world.spawn(lambda p=ps[0], x=x: p.return_connection(x), name='returner-%d' % x.sim_id)
                            if rng.random() < 0.8:
                                world.settle(advance=False)
                            pw.hold_handshake[0] = False
                            pw.release_handshakes()
                            world.settle(advance=False)
                        finally:
                            if hold_lock:
                                ps[0].host.lock.release()
                        world.settle(advance=False)
                        steps_log.append(('dead-connection-returned-while-replacement-completes', x.sim_id, 'reset' if how else 'eof', hold_lock))
                    pw.hold_handshake[0] = False
                    pw.release_handshakes()
                elif ps and rng.random() < 0.4:
                    # the overloaded connection fails at the moment its replacement completes: the replacement's set-up is kept back until the pool waits
                    # for it, then the node lets it finish and resets the old connection in the same breath
                    pw.hold_handshake[0] = True
                    u = new_uid()
                    kinds[u] = 'hold'
                    plan.set(u, 'hold')
                    rec.execute_async(session, u, timeout=30.0)
                    world.settle(advance=False)
                    old_conns = [c for c in pw.live_pool_conns() if c.orphaned_threshold_reached]
                    pw.hold_handshake[0] = False
                    order = rng.choice([0, 1, 2, 2])
                    if order == 1:
                        pw.release_handshakes()
                    for c in old_conns[:1]:
                        how = rng.random() < 0.5
                        steps_log.append(('fail-while-replacement-completes', c.sim_id, 'reset' if how else 'eof', order))
                        if order == 2:
                            pw.fail_when_ready[0] = (c, how)      # the node drops it when it answers the replacement's STARTUP
                        else:
                            net.server_close(c, reset=how)
                    if order != 1:
                        pw.release_handshakes()
                    pw.ch.p_preempt = 0.5
                    world.settle(advance=False)
                elif ps and rng.random() < 0.5:
                    # the replacement's handshake is kept back until the pool waits for it, then released while this thread keeps borrowing
                    # (non-blocking borrows): borrows overlap every stage of the completion of _replace
                    pw.hold_handshake[0] = True
                    u = new_uid()
                    kinds[u] = 'rows'
                    plan.set(u, 'rows')
                    rec.execute_async(session, u, timeout=30.0)
                    world.settle(advance=False)
                    pw.hold_handshake[0] = False
                    pw.release_handshakes()
                    for _ in range(rng.randint(6, 16)):
                        u = new_uid()
                        kinds[u] = 'direct-rows'
                        pw.direct_request(ps[0], u, 'rows', timeout=0.0)
                    steps_log.append(('borrow-loop-over-replacement',))
                for _ in range(burst):
                    u = new_uid()
                    kinds[u] = 'rows'
                    plan.set(u, 'rows')
                    rec.execute_async(session, u, timeout=30.0)
                    if rng.random() < 0.3:
                        world.settle(advance=False)
                steps_log.append(('burst', burst))
                if rng.random() < 0.5:
                    world.settle(advance=False)
                pw.ch.p_preempt = saved_preempt
                if rng.random() < 0.6:
                    # the replacement is in service, the old connection (if something is still pending on it) waits in the trash: now the live
                    # connection fails while its own replacement cannot complete at once, and the pool is shut down in one of the next steps
                    world.settle(advance=False)
                    live = [c for c in pw.live_pool_conns() if not c.orphaned_threshold_reached]
                    if rng.random() < 0.35:
                        live = [c for c in pw.live_pool_conns() if c.orphaned_threshold_reached] or live      # the replaced connection waiting in the trash fails
                    if live:
                        c = rng.choice(live)
                        if rng.random() < 0.7:
                            pw.hold_handshake[0] = True
                        else:
                            for n in net.nodes.values():
                                n._refuse = rng.choice([1, 2, 3])
                        how = rng.random() < 0.5
                        steps_log.append(('fail', c.sim_id, 'reset' if how else 'eof', [n._refuse for n in net.nodes.values()], pw.hold_handshake[0]))
                        net.server_close(c, reset=how)
                        if rng.random() < 0.7:
                            world.settle(advance=False)
                        if rng.random() < 0.7:
                            forced_shutdown[0] = rng.randrange(0, 3)
                            info['forced_shutdown_step'] = forced_shutdown[0]
        for i in range(nsteps):
            step(i)
        # ---------------- drain
        pw.hold_init_of[0] = None
        pw.hold_handshake[0] = False
        pw.release_handshakes()
        cand = [h for h in pw.open_held() if kinds.get(pw.uid_of_held(h)) != 'late']
        rng.shuffle(cand)
        for h in cand:
            h.release()
            if rng.random() < 0.4:
                world.settle(advance=False)
        world.settle(advance=False)
        world.advance_to(world.now + 3 * timeout + 0.5)
        late = pw.open_held()
        rng.shuffle(late)
        for h in late:
            h.release()
        world.advance_to(world.now + 8.0)
        pw.release_handshakes()
        world.settle(advance=False)

        # ---------------- oracle 1: borrow after shutdown raises (direct)
        with world.inspect():
            shut = [p for p in all_pools() if p.is_shutdown]
        for p in shut[:2]:
            pw.direct_request(p, new_uid(), 'rows', timeout=0.05)
            info['borrows_after_shutdown'] = info.get('borrows_after_shutdown', 0) + 1
        world.settle(advance=False)

        # ---------------- what the re-prepare path did (known finding: the PREPARE connection is never returned)
        stale_x, stale_y = {}, {}
        with world.inspect():
            wl = net.wire_log
            # pair every UNPREPARED answer with the PREPARE a pool connection carried next for the same statement (PREPAREs before the answer left the
            # node - session.prepare(), Cluster._prepare_all_queries on a host that came back - are not the re-prepare)
            from sim.scen import uid_of
            unprep = []        # [conn of the EXECUTE, stream, query, node, answered?, paired?]
            wi = 0
            answered_uids = set()
            for ev in net.events:
                if ev[0] == 'node_recv':
                    rq = wl[wi]
                    wi += 1
                    if rq['op'] == 'EXECUTE':
                        q = plan.prepared.get(rq['query_id'], '')
                        u = uid_of(q)
                        if kinds.get(u) == 'unprepared' and u not in answered_uids:
                            answered_uids.add(u)          # only the first EXECUTE of a uid is answered UNPREPARED
                            unprep.append([rq['_conn'], rq['stream'], q, rq['_node'], False, False])
                    elif rq['op'] == 'PREPARE' and net.conns[rq['_conn']].sim_creator in POOL_CREATORS:
                        for e in unprep:
                            if e[4] and not e[5] and e[2] == rq['query'] and e[3] == rq['_node']:
                                e[5] = True
                                if rq['_conn'] != e[0]:
                                    stale_x[e[0]] = stale_x.get(e[0], 0) + 1
                                    stale_y[rq['_conn']] = stale_y.get(rq['_conn'], 0) + 1
                                break
                elif ev[0] == 'node_send':
                    for e in unprep:
                        if not e[4] and e[0] == ev[1] and e[1] == ev[2]:
                            e[4] = True
            # only the first EXECUTE of a uid is answered UNPREPARED; the retry EXECUTE must not be paired again
            info['reprepare_on_other_connection'] = sum(stale_x.values())

        # ---------------- oracle 2: invariants seen under conn.lock
        with world.inspect():
            for c in net.conns:
                mm = pw.minmax.get(c.sim_id)
                if not mm:
                    continue
                if mm[0] < 0:
                    if c.sim_id in stale_x and mm[0] >= -stale_x[c.sim_id]:
                        viol.append(('reprepare-returns-connection-it-did-not-borrow',
                                     'conn %d in_flight went down to %d: _execute_after_prepare returned it although the PREPARE had borrowed another connection' % (c.sim_id, mm[0])))
                    else:
                        viol.append(('in-flight-negative', 'conn %d (%s) in_flight went down to %d under its lock' % (c.sim_id, c.sim_creator, mm[0])))
                # a pool reserves a stream only while in_flight < max_request_id; only Connection.wait_for_responses (handshake / control connection) may use
                # the last id
                cap = c.max_request_id if c.sim_creator in POOL_CREATORS else c.max_request_id + 1
                if mm[1] > cap:
                    viol.append(('in-flight-above-capacity', 'conn %d (%s) in_flight went up to %d under its lock, capacity %d (max_request_id %d)' % (
                        c.sim_id, c.sim_creator, mm[1], cap, c.max_request_id)))

            # ---------------- oracle 3: conservation at quiescence on open connections whose requests were all answered
            outstanding = {}
            for e in net.events:
                if e[0] == 'node_recv':
                    outstanding[(e[1], e[2])] = e
                elif e[0] == 'node_send':
                    outstanding.pop((e[1], e[2]), None)
            conserved = 0
            for c in net.conns:
                if c.is_closed or c.is_defunct or c.sim_creator not in POOL_CREATORS:
                    continue
                p = owner_of(c)
                if p is None or p.is_shutdown or not (getattr(p, '_connection', None) is c or c in (getattr(p, '_connections', None) or []) or c in getattr(p, '_trash', ())):
                    continue        # accounting of a connection whose pool is gone (or that the pool has dropped: reported by the closure census) is moot
                if any(cid == c.sim_id for (cid, sid) in outstanding):
                    continue
                conserved += 1
                expect = stale_y.get(c.sim_id, 0) - stale_x.get(c.sim_id, 0)
                if c.in_flight != 0:
                    if (c.sim_id in stale_y or c.sim_id in stale_x) and c.in_flight == expect:
                        viol.append(('reprepare-returns-connection-it-did-not-borrow',
                                     'conn %d: every request answered but in_flight=%d: the PREPARE of a re-prepare borrowed it and the old connection was returned instead' % (
                                         c.sim_id, c.in_flight)))
                    else:
                        viol.append(('accounting-not-conserved-at-quiescence', 'conn %d (%s): every request was answered but in_flight=%d (orphans %d, handlers %d)' % (
                            c.sim_id, c.sim_creator, c.in_flight, len(c.orphaned_request_ids), len(c._requests))))
            info['conserved_conns'] = conserved
        harness = pw.harness_errors()
        sig = pw.signature()

        # ---------------- oracle 4: closure after shutdown and drain
        pw.phase[0] = 'teardown'
        cluster.shutdown()
        world.settle()
        pw.release_handshakes()
        world.settle()
        def replaced_then_reported(p, c):
            """connections of pool p older than c that were replaced because of the orphan threshold (borrow_connection asked for it) and were
            later also reported to the pool as failed (return_connection asked for a replacement again)"""
            asked = set((w, cid) for w, cid, pid in pw.replace_log if pid == id(p))
            return [x for x in net.conns if owner_of(x) is p and x.sim_id < c.sim_id and x.orphaned_threshold_reached and x.signaled_error and
                    ('borrow_connection', x.sim_id) in asked and ('return_connection', x.sim_id) in asked]

        def failed_while_being_replaced(p, c):
            """connections of pool p older than c that reached the threshold (borrow_connection asked for the replacement), then FAILED while still being the
            pool's connection (before _replace could set them aside) and were reported by return_connection, which asked for a replacement again"""
            asked = set((w, cid) for w, cid, pid in pw.replace_log if pid == id(p))
            out = []
            for x in net.conns:
                if owner_of(x) is p and x.sim_id < c.sim_id and x.orphaned_threshold_reached and x.is_defunct and x.signaled_error and \
                        ('borrow_connection', x.sim_id) in asked and ('return_connection', x.sim_id) in asked:
                    failed_at = [sn['trace_index'] for sn in pw.closes if sn['conn'] == x.sim_id]
                    if failed_at and failed_at[0] <= pw.trashed_at.get(x.sim_id, 1 << 60):
                        out.append(x)
            return out

        with world.inspect():
            census = 0
            for c in pw.pool_conns():
                census += 1
                if c.is_closed:
                    continue
                p = owner_of(c)
                pname = type(p).__name__ if p is not None else '?'
                where = 'conn %d (%s of %s, v%d) still open after cluster.shutdown() and drain' % (c.sim_id, c.sim_creator, pname, proto)
                installed = p is not None and (getattr(p, '_connection', None) is c or c in (getattr(p, '_connections', None) or []))
                late = pw.installed_after_shutdown(c)
                if pname == 'HostConnection' and p.is_shutdown and not installed and c in p._trash:
                    viol.append(('old-connection-trashed-after-shutdown-left-open', where + ': _replace finished while shutdown() ran and put the replaced connection '
                                 'into _trash after shutdown() had looked at it'))
                elif pname == 'HostConnectionPool' and p.is_shutdown and not installed and c in p._trash:
                    viol.append(('legacy-pool-shutdown-misses-connection-being-trashed', where + ': shutdown() walked _connections and _trash without the pool lock while '
                                 '_maybe_trash_connection (under the lock) had taken it out of _connections and not yet put it into _trash; its last stream was an '
                                 'orphan released by a late answer, which never goes through return_connection, so nothing closes it afterwards'))
                elif pname == 'HostConnection' and p.is_shutdown and not installed and c.sim_id in pw.trashed:
                    # it was seen in _trash and is not there any more: only shutdown()'s sweep removes an open connection from the trash
                    viol.append(('hostconnection-shutdown-never-closes-trash', where + ': it was in the pool\'s _trash and shutdown() emptied the trash without closing it'))
                elif pname == 'HostConnection' and not installed and c.sim_creator == 'pool-replace' and failed_while_being_replaced(p, c):
                    x = failed_while_being_replaced(p, c)[0]
                    viol.append(('return-connection-drops-connection-installed-meanwhile', where + ': conn %d (threshold reached, replacement under way) failed; '
                                 'return_connection found it to be the pool\'s connection, and while it signalled the failure _replace installed this connection; '
                                 'return_connection then set _connection = None without closing it and asked for one more replacement' % x.sim_id))
                elif p is not None and not p.is_shutdown and c.sim_creator == 'pool-init' and p not in session._pools.values() and pw.built_concurrently_for_same_host(p):
                    viol.append(('concurrent-pool-creation-loser-never-shut-down', where + ': two add_or_renew_pool tasks built a pool for %s at the same time; the one '
                                 'registered first was overwritten in Session._pools (`previous` was read before either finished) and never shut down' % (p.host,)))
                elif pname == 'HostConnection' and late and c.sim_id not in pw.in_service and c.sim_creator == 'pool-replace' and p.is_shutdown:
                    viol.append(('replacement-installed-after-shutdown-left-open', where + ': _replace finished connecting while / after shutdown() ran and '
                                 'installed it (%s)' % ('it is still pool._connection' if installed else 'shutdown() then set _connection = None without closing it')))
                elif pname == 'HostConnectionPool' and installed and late and c.sim_creator in ('pool-replace', 'pool-grow') and p.is_shutdown:
                    viol.append(('pool-connection-added-after-shutdown-left-open', where + ': _add_conn_if_under_max finished connecting after shutdown() and added it'))
                elif pname == 'HostConnection' and not installed and c.sim_creator == 'pool-replace' and pw.duplicate_replacements(p):
                    viol.append(('duplicate-replacement-leaks-superseded-connection', where + ': borrow_connection asked twice for a replacement of conn %s '
                                 '(stale `conn` read before the first replacement finished); the second _replace overwrote _connection without closing it' % (
                                     pw.duplicate_replacements(p),)))
                elif pname == 'HostConnection' and not installed and replaced_then_reported(p, c):
                    x = replaced_then_reported(p, c)[0]
                    viol.append(('closed-replaced-connection-returned-drops-live-connection', where + ': conn %d had reached the orphan threshold and was being / had been '
                                 'replaced when it was handed to return_connection closed (%s); return_connection took that for a failure of the pool\'s connection '
                                 'and dropped the live one without closing it' % (x.sim_id, 'stale return by _execute_after_prepare' if x.sim_id in stale_x else (
                                     'the replaced connection failed' if x.is_defunct else 'closed on purpose by _replace / the trash logic between the in_flight decrement and the is_closed test'))))
                elif p is not None and not p.is_shutdown and c.sim_creator == 'pool-init' and session.is_shutdown and pw.pool_finished_after_session_shutdown(p):
                    viol.append(('pool-installed-after-session-shutdown-never-shut-down', where + ': Session.add_or_renew_pool finished building this pool after '
                                 'Session.shutdown() had swept the pools; it is registered (or dropped) without ever being shut down'))
                elif pname == 'HostConnectionPool' and c.sim_creator == 'pool-init' and '_connections' in p.__dict__ and '_trash' not in p.__dict__ and p._keyspace:
                    viol.append(('pool-constructor-keyspace-failure-leaks-opened-connections', where + ': HostConnectionPool.__init__ had opened its core connections and '
                                 'failed while setting the keyspace on one of them; the constructor raised and the other connections are never closed'))
                elif pname == 'HostConnectionPool' and c.sim_creator == 'pool-init' and '_connections' not in p.__dict__:
                    viol.append(('pool-constructor-failure-leaks-opened-connections', where + ': HostConnectionPool.__init__ opened it and then failed on a later core '
                                 'connection; the constructor raised and nobody owns or closes the connection'))
                else:
                    viol.append(('connection-left-open-after-shutdown', where + ' (installed=%s, trashed=%s, pool shutdown=%s, installed after shutdown() was called=%s)' % (
                        installed, c.sim_id in pw.trashed, getattr(p, 'is_shutdown', None), late)))
            info['census'] = census
        harness += pw.harness_errors()[len(harness):]
    v2_trashed, v2_overlap = 0, 0
    for c in net.conns:
        p = owner_of(c)
        if type(p).__name__ == 'HostConnectionPool' and c.sim_id in pw.trashed:
            v2_trashed += 1
            if c.sim_id in pw.pool_rec(p)['installed_at_shutdown']:
                v2_overlap += 1          # it was still among _connections when shutdown() was called and was set aside afterwards
    info.update({'v2_trashed': v2_trashed, 'v2_overlap': v2_overlap})
    info.update({'conns': len(net.conns), 'online_checks': pw.checks[0], 'requests': uid[0], 'replace_requests': [(w, c) for w, c, _ in pw.replace_log][:12],
                 'replaced': sum(1 for c in net.conns if c.sim_creator == 'pool-replace'),
                 'grown': sum(1 for c in net.conns if c.sim_creator == 'pool-grow'),
                 'refused': sum(1 for e in net.events if e[0] == 'conn_refused'),
                 'trashed': len(pw.trashed), 'direct': sum(1 for e in pw.direct_events if e[0] == 'borrowed'),
                 'direct_refused': sum(1 for e in pw.direct_events if e[0] == 'borrow-raised'),
                 'late': sum(1 for v in kinds.values() if v == 'late'), 'unprepared': sum(1 for v in kinds.values() if v == 'unprepared')})
    return viol, harness, sig, info, (steps_log, rec.events, net.events, pw.closes)


def run(ctx):
    from vlib import shim
    shim.import_cluster()
    from vlib.run import Inconclusive
    from sim.world import WorldLimit, WorldHang
    import gc
    ctx.rule = ("a case is one seeded history (protocol, pool configuration, id-space size, 4-30 pool events, conviction policy, schedule); distinct "
                "by the event-order signature of the world trace; non-trivial = at least 3 requests")
    ctx.assume("a connection refused by the node during a pool's replacement is refused at most 3 times in a row (the pools retry immediately and "
               "forever; an unbounded refusal never quiesces)")
    ctx.assume("requests that go through UNPREPARED -> re-prepare do not hit their client timeout: ResponseFuture._reprepare does not update _req_id, so "
               "_on_timeout would pop / orphan the EXECUTE's stream id on the PREPARE's connection (seen once: thorough seed 4400222, in_flight stuck at 1); "
               "that is request-completion bookkeeping (C09/C14), not pool accounting")
    ctx.assume("the idle-heartbeat thread is off (its return_connection() on an already dead connection decrements in_flight without a borrow)")
    n = ctx.scale(900, 60000)
    budget = 44 if ctx.quick else 420
    base = ctx.seed * 1000003 + (ctx.worker or 0) * 100003
    n_min = 30 if ctx.quick else 150      # per worker, whatever the box is doing: the floors below must never depend on the load
    for i in range(n):
        if i >= n_min and ctx.time_left(budget) < 0:          # CPU-time budget (vlib/run.py), wall-clock capped
            ctx.note("stopped by time budget after %d histories" % i)
            break
        seed = base + i
        # garbage of earlier histories (Session.__del__ -> shutdown() ...) must not run inside this history's world at a moment chosen by
        # the collector: collect now, keep the cyclic collector off while the history runs (reproducibility from the seed)
        gc.collect()
        gc.disable()
        try:
            viol, harness, sig, info, hist = run_history(ctx, seed)
        except WorldLimit:
            ctx.count("histories_over_budget")
            continue
        except WorldHang as e:
            # every thread blocked without a deadline.  What the code under test does is an observation: if the scenario was still keeping an answer
            # back it has starved the driver itself (a scenario that must not exist: counted, bounded below); with all inputs delivered it is a hang
            # of the driver
            pw = run_history.last_world
            kept_back = bool(pw.held_handshakes or pw.hold_init_of[0] or pw.hold_handshake[0] or pw.open_held() or pw.fail_when_ready[0])
            if kept_back:
                ctx.count("histories_blocked_on_answers_the_scenario_kept_back")
                ctx.note("seed %d: %s" % (seed, str(e)[:200]))
                continue
            ctx.count("histories")
            ctx.violation('driver-blocked-forever-with-all-inputs-delivered', "every thread is blocked without a deadline although the node has answered everything it "
                          "was asked: %s [seed %d]" % (str(e)[:300], seed), {"seed": seed, "hang": str(e), "trace_tail": [repr(x) for x in pw.world.trace[-40:]],
                                                                            "node_history": [repr(x) for x in pw.net.events[-30:]]})
            continue
        except Exception as e:      # noqa
            raise Inconclusive("history seed %d failed in the harness: %s: %s" % (seed, type(e).__name__, e))
        finally:
            gc.enable()
        if harness:
            raise Inconclusive("harness error in history seed %d: %r" % (seed, harness[:2]))
        ctx.case(repr(sig), nontrivial=info['requests'] >= 3)
        ctx.count("histories")
        ctx.count("histories_v2_pool" if info['proto'] < 3 else "histories_v3plus_pool")
        ctx.count("requests", info['requests'])
        ctx.count("invariant_evaluations_under_lock", info['online_checks'])
        ctx.count("pool_connections_in_closure_census", info.get('census', 0))
        ctx.count("quiescent_connections_checked_for_conservation", info.get('conserved_conns', 0))
        ctx.count("direct_borrows", info['direct'])
        ctx.count("direct_borrows_refused", info['direct_refused'])
        ctx.count("borrows_attempted_after_shutdown", info.get('borrows_after_shutdown', 0))
        ctx.count("replacement_connections", info['replaced'])
        ctx.count("grown_connections", info['grown'])
        ctx.count("refused_connection_attempts", info['refused'])
        ctx.count("connections_seen_in_trash", info['trashed'])
        ctx.count("connections_trashed_while_idle_above_core", info['v2_trashed'])
        ctx.count("shutdowns_overlapping_a_trash_move", info['v2_overlap'])
        ctx.count("late_responses", info['late'])
        ctx.count("unprepared_round_trips", info['unprepared'])
        ctx.count("reprepare_on_other_connection", info.get('reprepare_on_other_connection', 0))
        if info['shutdown_at'] is not None:
            ctx.count("histories_with_mid_history_shutdown")
        seen = set()
        for mech, what in viol:
            if mech in seen:
                continue
            seen.add(mech)
            ctx.violation(mech, "%s [seed %d, v%d, %d ids, %d steps]" % (what, seed, info['proto'], info['id_space'], info['steps']),
                          {"seed": seed, "info": info, "steps": [repr(e) for e in hist[0]], "client_history": [repr(e)[:120] for e in hist[1][-30:]],
                           "node_history": [repr(e) for e in hist[2][-40:]], "closes": hist[3][-8:]})
        if not viol and len(ctx.samples) < 4 and info['replaced'] and info['requests'] < 12:
            ctx.sample({"info": info, "steps": [repr(e) for e in hist[0]], "closes": hist[3][-6:]})
    if ctx.counters.get("histories_blocked_on_answers_the_scenario_kept_back", 0) > max(2, ctx.counters.get("histories", 0) // 200):
        raise Inconclusive("the scenario starved the driver in %d histories (answers kept back while the main thread blocked without a deadline)" %
                           ctx.counters["histories_blocked_on_answers_the_scenario_kept_back"])
    ctx.floor_distinct = 60 if ctx.quick else 1200
    ctx.floor_counters = {"histories": 60, "histories_v2_pool": 10, "invariant_evaluations_under_lock": 3000, "pool_connections_in_closure_census": 80,
                          "quiescent_connections_checked_for_conservation": 20, "direct_borrows": 30, "borrows_attempted_after_shutdown": 10,
                          "replacement_connections": 5, "connections_trashed_while_idle_above_core": 20, "shutdowns_overlapping_a_trash_move": 3}
