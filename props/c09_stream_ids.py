"""C09 - multiplexed requests never receive another request's response.

Monitor: the real Cluster/Session/pool/Connection stack runs in the deterministic world over a
scripted wire-level node.  Every request carries a unique id the node echoes, so a delivered
response identifies the request it answers.  Histories mix sends, in-order / out-of-order /
late (after client timeout) / never-arriving responses and connection resets, on connections
whose stream-id space is made small so that ids recycle constantly and the orphan threshold
(connection replacement) is reached.  Checked online under conn.lock and offline on the history.
"""
import random

PROPERTY = "C09"
LEVEL = "exploration"
ENGINE = "sim"
TECHNIQUE = "runtime monitor in a deterministic world: unique-id echo histories checked offline + invariants hooked under conn.lock"
LEVEL_TEXT = ("Hundreds (quick) to tens of thousands (thorough) of seeded schedules of 2-40 requests per connection with a 6-16 id stream "
              "space (protocol v2 pools and v3+ single-connection pools): no (connection, stream id) reuse while the node has not answered, "
              "ids within the protocol maximum, every delivered row echoes the id of the request whose callback got it, and conservation of "
              "in_flight / free ids / orphans at quiescence. Held-on-observed schedules.")
LEVEL_NOTE = ("Trusted base: sim/world.py (one thread runs at a time; switches only at synchronisation points - finer preemption is the "
              "stress engine's job), sim/node.py, spec/frames.py. max_in_flight is lowered on the harness connection class to make id "
              "recycling and the orphan threshold reachable; nothing else in the driver is altered.")
QUICK_WORKERS = 4
WORKERS = 14


PROTOCOL_MAX_STREAM = {1: 127, 2: 127}          # one signed byte in v1/v2 frames, a signed short (32767) from v3 on


def run_history(ctx, seed, growth=False, stock12=False):
    """growth=True: the stock id space (32768 ids, 300 pre-allocated) with more than 300 requests outstanding at once, so that
    the connection has to grow its id set (the get_request_id slow path) - the small-id-space histories never reach it."""
    from sim.env import SimEnv
    from sim import world as W
    from sim.scen import Plan, Recorder, echoed_uid
    rng = random.Random(seed)
    random.seed(seed)          # the driver draws from the global generator (policy offsets, jitter): pin it per history
    proto = rng.choice([2, 3, 4, 4])
    K = rng.choice([6, 8, 12, 16])
    nreq = rng.randint(2, 40)
    if growth:
        proto = rng.choice([3, 4])
        K = 2 ** 15
        nreq = rng.choice([301, 302, 303, 310, 330, 420])
    if stock12:
        # protocol v1/v2 with the stock settings: 128 stream ids (0..127); more than 128 requests so that every id of the
        # free list comes round, mostly answered promptly (sequential traffic walks the FIFO of free ids)
        proto = rng.choice([1, 2, 2])
        K = 2 ** 15
        nreq = rng.choice([129, 130, 131, 140, 200, 260])
    ch = W.RandomChooser(random.Random(seed * 7 + 1), p_time=0.0, p_preempt=rng.choice([0.0, 0.1, 0.3]))
    env = SimEnv(ch, addresses=['127.0.0.1'])
    env.conn_class.max_in_flight = K
    env.conn_class.orphaned_threshold = 3 * K // 4
    plan = Plan()
    node = env.net.nodes['127.0.0.1']
    node.behaviour = plan.behaviour
    env.net.chunking = rng.random() < 0.5
    viol = []
    online = {'checks': 0}
    with env:
        cluster = env.cluster(protocol_version=proto)
        if proto < 3:
            from cassandra.policies import HostDistance
            cluster.set_core_connections_per_host(HostDistance.LOCAL, rng.choice([1, 2]))
            cluster.set_max_connections_per_host(HostDistance.LOCAL, 2)
        # keyspace switches also take stream ids (one USE per connection, or none at all when the connection is already there): some
        # histories start on a keyspace and switch - often to the keyspace they are already on - between requests
        uses = (not growth and not stock12) and rng.random() < 0.4
        session = cluster.connect('ks1') if (uses and rng.random() < 0.5) else cluster.connect()
        use_stats = {'switches': 0, 'noop': 0, 'failed': 0}
        rec = Recorder(env.world)

        def hook_conn(conn):
            def inv(conn=conn):
                online['checks'] += 1
                if conn.in_flight < 0:
                    viol.append(('in-flight-negative', 'conn %d in_flight=%d' % (conn.sim_id, conn.in_flight)))
                if conn.in_flight > conn.max_request_id + 1:
                    viol.append(('in-flight-above-capacity', 'conn %d in_flight=%d max_request_id=%d' % (conn.sim_id, conn.in_flight, conn.max_request_id)))
                if conn.highest_request_id > conn.max_request_id:
                    viol.append(('stream-id-beyond-maximum', 'conn %d highest_request_id=%d max=%d' % (conn.sim_id, conn.highest_request_id, conn.max_request_id)))
                ids = list(conn.request_ids)
                if len(ids) != len(set(ids)):
                    viol.append(('free-id-duplicated', 'conn %d free ids %r' % (conn.sim_id, ids)))
            if getattr(conn.lock, 'hooks', None) is None:
                conn.lock.hooks = [inv]
        for c in env.net.conns:
            hook_conn(c)
        ch.p_time = 0.0 if (growth or stock12) else rng.choice([0.0, 0.05, 0.15])
        kinds = {}
        timeout = 1.0
        to_send = list(range(nreq))
        fail_at = rng.randrange(nreq) if (rng.random() < 0.2 and not growth and not stock12) else None
        if growth:
            timeout = 600.0
        while to_send:
            if uses and rng.random() < 0.12:
                ks = rng.choice(['ks1', 'ks1', 'ks2'])
                if session.keyspace == ks:
                    use_stats['noop'] += 1
                try:
                    session.set_keyspace(ks)
                    use_stats['switches'] += 1
                except Exception:
                    use_stats['failed'] += 1         # e.g. no usable host after an injected connection loss: nothing to judge here
                for c in env.net.conns:
                    hook_conn(c)
                continue
            r = 0.0 if growth else rng.random()
            if r < 0.55:
                uid = to_send.pop(0)
                k = rng.choices(['rows', 'hold', 'late', 'silent'], [5, 4, 3, 1 if rng.random() < 0.5 else 0])[0]
                if growth:
                    k = 'hold' if (uid < 300 or rng.random() < 0.8) else 'rows'     # keep > 300 ids busy at once
                if stock12:
                    k = rng.choices(['rows', 'hold'], [9, 1])[0]
                kinds[uid] = k
                plan.set(uid, {'rows': 'rows', 'hold': 'hold', 'late': 'hold', 'silent': 'silent'}[k])
                rec.execute_async(session, uid, timeout=timeout)
                for c in env.net.conns:
                    hook_conn(c)
                if fail_at == uid:
                    live = [c for c in env.net.conns if not c.is_closed]
                    if live:
                        env.net.server_close(rng.choice(live), reset=rng.random() < 0.5)
            elif r < 0.75:
                cand = [h for h in env.net.held if not h.done and kinds.get(_uid_of_held(h)) == 'hold']
                if cand:
                    rng.choice(cand).release()
            elif r < 0.9:
                env.world.settle(advance=False)
            else:
                env.world.advance_to(env.world.now + rng.choice([0.2, 0.6, 1.1]))
            for c in env.net.conns:
                hook_conn(c)
        # drain: release the ordinary held answers in random order, then let the timeouts fire, then the late answers
        cand = [h for h in env.net.held if not h.done and kinds.get(_uid_of_held(h)) == 'hold']
        rng.shuffle(cand)
        for h in cand:
            h.release()
            if rng.random() < 0.5:
                env.world.settle(advance=False)
        env.world.settle(advance=False)
        env.world.advance_to(env.world.now + timeout + 0.5)
        late = [h for h in env.net.held if not h.done]
        rng.shuffle(late)
        for h in late:
            h.release()
        for c in env.net.conns:
            hook_conn(c)
        env.world.advance_to(env.world.now + 8.0)
        env.world.settle(advance=False)

        # ---------------- offline oracle over the history (main keeps the baton: no preemption while reading state)
        saved_preempt, env.world.preempt = env.world.preempt, False
        events = env.net.events
        outstanding = {}
        recv_count = 0
        for e in events:
            if e[0] == 'node_recv':
                key = (e[1], e[2])
                conn = env.net.conns[e[1]]
                if e[2] < 0 or e[2] > conn.max_request_id:
                    viol.append(('stream-id-beyond-maximum', 'request on conn %d used stream %d (max %d)' % (e[1], e[2], conn.max_request_id)))
                if e[2] > PROTOCOL_MAX_STREAM.get(proto, 32767):
                    viol.append(('stream-id-beyond-protocol-maximum', 'request on conn %d used stream %d, protocol v%d frames carry at most %d' % (
                        e[1], e[2], proto, PROTOCOL_MAX_STREAM.get(proto, 32767))))
                if key in outstanding:
                    viol.append(('stream-id-reused-while-outstanding', 'conn %d stream %d reused for %s before the node answered the previous request' % (e[1], e[2], e[3])))
                outstanding[key] = e
                recv_count += 1
            elif e[0] == 'node_send':
                outstanding.pop((e[1], e[2]), None)
        delivered = 0
        for e in rec.events:
            if e[0] == 'cb':
                got = echoed_uid(e[3])
                delivered += 1
                if got != e[1]:
                    viol.append(('response-delivered-to-wrong-request', 'request uid=%d received the row of uid=%r' % (e[1], got)))
        for uid in range(nreq):
            oc = rec.outcomes(uid)
            if uid in rec.futures and len(oc) > 1 and all(o[0] == 'cb' for o in oc) and len(set(echoed_uid(o[3]) for o in oc)) > 1:
                viol.append(('response-delivered-to-wrong-request', 'request uid=%d got several different rows' % uid))
        # conservation at quiescence, per connection that is still open
        never = [(e[1], e[2]) for e in outstanding.values()]
        checked_conns = [0]
        for c in env.net.conns:
            if c.is_closed or c.is_defunct:
                continue
            unanswered = sum(1 for (cid, sid) in never if cid == c.sim_id)
            if unanswered:
                continue        # the statement is about connections on which every sent request has been answered
            checked_conns[0] += 1
            with c.lock:
                inflight, orphans, reqs = c.in_flight, set(c.orphaned_request_ids), dict(c._requests)
                free = list(c.request_ids)
                highest = c.highest_request_id
            # the property speaks about answered requests: ids of unanswered ones stay in use (in_flight counts them),
            # whether the driver tracks them as orphans or still as pending handlers is its own business
            if inflight != unanswered or (unanswered == 0 and (orphans or reqs)):
                viol.append(('accounting-not-conserved-at-quiescence',
                             'conn %d: in_flight=%d orphans=%d pending handlers=%d but %d requests are unanswered by the node' % (
                                 c.sim_id, inflight, len(orphans), len(reqs), unanswered)))
            expect_free = set(range(highest + 1)) - set(sid for (cid, sid) in never if cid == c.sim_id)
            if sorted(free) != sorted(expect_free):
                viol.append(('free-ids-not-restored', 'conn %d: free ids %r, expected %r' % (c.sim_id, sorted(free)[:20], sorted(expect_free)[:20])))
        harness = list(env.world.errors) + [('parse', p) for p in env.net.parse_failures]
        sig = tuple(x[:2] if x[0] != 'deliver' else x[:2] for x in env.world.trace)
        info = {'seed': seed, 'proto': proto, 'id_space': K, 'requests': nreq, 'kinds': dict((k, sum(1 for v in kinds.values() if v == k)) for k in set(kinds.values())),
                'conns': len(env.net.conns), 'recv': recv_count, 'delivered': delivered, 'online_checks': online['checks'],
                'late': sum(1 for v in kinds.values() if v == 'late'), 'failed_conn': fail_at is not None, 'conserved_conns': checked_conns[0],
                'replaced': sum(1 for c in env.net.conns if c.sim_creator == 'pool-replace'), 'use': use_stats}
        env.world.preempt = saved_preempt
        cluster.shutdown()
        env.world.settle()
    return viol, harness, sig, info, (rec.events, events)


def run_paging_sessions(ctx, rng, n):
    """A continuous paging session owns its stream id until its last page: while it lives, the id must not be handed to another
    request, and every other request's response must reach that request's own handler.  Driven directly on a socket-less real
    Connection (sim/conn.py) with the first page turning the handler into a paging session the way ResponseFuture does it
    (props/c10_connection_failure.DirectRun)."""
    from cassandra import protocol as P
    from cassandra import connection as C
    from sim.conn import make_classes
    from spec import frames as F
    from props import c10_connection_failure as X
    mods = (P, C, F, make_classes())
    for trial in range(n):
        v = rng.choice([0x41, 0x42, 0x42])
        run = X.DirectRun(mods, v)
        conn = run.conn
        warm = rng.choice([0, 0, 3, 50])
        tag = 1000
        for _ in range(warm):
            run.send(tag, False)
            conn.feed(run.frame_for(('resp', tag)))
            tag += 1
        run.send(0, True)
        cp = run.h[0]
        conn.feed(run.frame_for(('resp', 0)))            # first page: the callback registers the paging session
        if cp['session'] is None:
            raise Inconclusive("the first page did not create a paging session (harness)")
        nreq = rng.choice([298, 301, 320, 340])
        mid_page_at = rng.randrange(nreq)
        pages_seen = len(X.consumer_view(cp))
        bad = None
        for i in range(nreq):
            run.send(tag, False)
            h = run.h[tag]
            ctx.count("requests_sent_while_a_paging_session_owns_a_stream")
            if h['rid'] == cp['rid']:
                bad = ('stream-id-of-live-paging-session-handed-out', 'request #%d after the paging query was given stream id %d, which the '
                       'continuous paging session still owns' % (i + 1, h['rid']))
                break
            conn.feed(run.frame_for(('resp', tag)))
            if len(h['calls']) != 1 or not isinstance(h['calls'][0][1], P.ResultMessage):
                bad = ('response-not-delivered-to-its-request', 'request #%d (stream %d) got %r for the response sent on its stream' % (
                    i + 1, h['rid'], [type(a).__name__ for _, a in h['calls']]))
                break
            if i == mid_page_at:
                conn.feed(run.frame_for(('page', 0)))
                pages_seen += 1
            if len(X.consumer_view(cp)) != pages_seen:
                bad = ('paging-session-received-a-frame-of-another-request', 'the paging session on stream %d holds %d items, %d pages were '
                       'sent to it' % (cp['rid'], len(X.consumer_view(cp)), pages_seen))
                break
            tag += 1
        if bad is None:
            conn.feed(run.frame_for(('last', 0)))
            if not cp['session'].released:
                bad = ('paging-session-not-released-by-its-last-page', 'session on stream %d not released after its last page' % cp['rid'])
            elif conn._requests:
                # (in_flight is the pool's to decrement, there is no pool here)
                bad = ('handler-left-registered-at-quiescence', '%d handlers still registered after everything was answered' % len(conn._requests))
        ctx.case(repr(('paging', v, warm, nreq, mid_page_at)), nontrivial=True)
        ctx.count("paging_session_histories")
        if bad:
            ctx.violation(bad[0], "%s [continuous paging, v0x%x, %d warm-up requests, %d requests during the session]" % (bad[1], v, warm, nreq),
                          {"version": v, "warm_up": warm, "requests": nreq})


def _uid_of_held(h):
    from sim.scen import uid_of
    from sim.scen import UID_RE
    q = h.req.get('query') or ''
    return uid_of(q)


def run(ctx):
    from vlib import shim
    shim.import_cluster()
    from vlib.run import Inconclusive
    ctx.rule = ("a case is one seeded history (protocol, id-space size, 2-40 requests with per-request node behaviour rows/hold/late/silent, "
                "optional connection reset, schedule); distinct by event-order signature of the world trace; non-trivial = at least 3 requests")
    n = ctx.scale(700, 60000)
    if ctx.worker in (None, 0):
        run_paging_sessions(ctx, random.Random(ctx.seed * 31 + 7), 6 if ctx.quick else 60)
    budget = 45 if ctx.quick else 420
    base = ctx.seed * 1000003 + (ctx.worker or 0) * 100003
    for i in range(n):
        if ctx.time_left(budget) < 0:
            ctx.note("stopped by time budget after %d histories" % i)
            break
        seed = base + i
        try:
            growth = (i % 12 == 5)
            stock12 = (i % 12 == 9)
            viol, harness, sig, info, hist = run_history(ctx, seed, growth=growth, stock12=stock12)
            if growth:
                ctx.count("histories_growing_the_id_set_beyond_300")
            if stock12:
                ctx.count("histories_v1_v2_stock_id_space_all_ids_used")
        except Exception as e:
            from sim.world import WorldHang, WorldLimit
            if isinstance(e, WorldLimit):
                ctx.count("histories_over_budget")
                continue
            raise Inconclusive("history seed %d failed in the harness: %s: %s" % (seed, type(e).__name__, e))
        ctx.case(repr(sig), nontrivial=info['requests'] >= 3)
        ctx.count("histories")
        ctx.count("requests_sent", info['requests'])
        ctx.count("node_recv_events", info['recv'])
        ctx.count("responses_delivered_and_matched", info['delivered'])
        ctx.count("late_responses", info['late'])
        ctx.count("invariant_evaluations_under_lock", info['online_checks'])
        ctx.count("connections_replaced_after_orphan_threshold", info['replaced'])
        ctx.count("keyspace_switches_between_requests", info.get('use', {}).get('switches', 0))
        ctx.count("keyspace_switches_to_the_current_keyspace", info.get('use', {}).get('noop', 0))
        ctx.count("keyspace_switches_that_failed_not_judged", info.get('use', {}).get('failed', 0))
        ctx.count("quiescent_connections_checked_for_conservation", info['conserved_conns'])
        if info['failed_conn']:
            ctx.count("histories_with_connection_failure")
        if harness:
            raise Inconclusive("harness error in history seed %d: %r" % (seed, harness[:2]))
        seen = set()
        for mech, what in viol:
            if mech in seen:
                continue
            seen.add(mech)
            ctx.violation(mech, "%s [seed %d, v%d, %d ids, %d requests]" % (what, seed, info['proto'], info['id_space'], info['requests']),
                          {"seed": seed, "info": info, "client_history": [repr(e)[:120] for e in hist[0][-30:]],
                           "node_history": [repr(e) for e in hist[1][-40:]]})
        if not viol and len(ctx.samples) < 4 and info['late'] and info['requests'] < 10:
            ctx.sample({"info": info, "client_history": [repr(e)[:100] for e in hist[0]][:30], "node_history": [repr(e) for e in hist[1]][:40]})
    ctx.floor_distinct = 150 if ctx.quick else 5000
    ctx.floor_counters = {"keyspace_switches_between_requests": 60, "keyspace_switches_to_the_current_keyspace": 20, "histories": 150, "responses_delivered_and_matched": 1000, "late_responses": 100, "invariant_evaluations_under_lock": 5000,
                          "quiescent_connections_checked_for_conservation": 100,
                          "histories_growing_the_id_set_beyond_300": 5, "histories_v1_v2_stock_id_space_all_ids_used": 5,
                          "paging_session_histories": 3, "requests_sent_while_a_paging_session_owns_a_stream": 800}
