"""C15 - requests with a timeout finish in bounded (virtual) time, first page and every later page.

Monitor: the real Cluster/Session/pools/ResponseFuture run in the deterministic world against 1-3 scripted
wire-level nodes that stay silent, answer late (after the client timeout), fail, or close the connection.
For a request timeout T the future must be complete by virtual time t_start + T + eps (eps covers the driver's
own 3 x 0.01 s re-arm) once all due timers have fired - t_start is the moment execute_async was called, and for
a later page the moment start_fetching_next_page was called (also when the application repeats a page fetch that failed).  Two observation modes: the scenario advances the
virtual clock to the deadline and looks, or it blocks in future.result() and reads the clock when it returns
(a world in which result() can never return raises WorldHang: a witness as well).
"""
import random

PROPERTY = "C15"
LEVEL = "exploration"
ENGINE = "sim"
TECHNIQUE = "runtime monitor in a deterministic world: completion instant on the virtual clock against t_start + timeout + eps, per page fetch; world hang detection while blocked in result()"
LEVEL_TEXT = ("Hundreds (quick) to tens of thousands (thorough) of seeded schedules: 1-2 requests (simple / bound / paged with up to 4 page fetches / USE / DDL whose first answer only starts follow-up work) "
              "against nodes that are silent, late, failing or closing, speculative executions on and off, retry decisions hopping hosts, "
              "page fetches started after delays shorter and longer than the timeout. Every page fetch must show an outcome by "
              "t_start + T + 0.05 s of virtual time. Held-on-observed schedules. (The missing timeout of later page fetches this monitor found "
              "was repaired in the repository, commit 2ddfbd4; its narrow classifier - later page, not complete at its deadline, a message "
              "unanswered - is kept as an ordinary violation slug.)")
LEVEL_NOTE = ("Trusted base: sim/world.py (virtual clock, timers fired by the reactor thread), sim/node.py, sim/s1_req.py. Wall-clock behaviour "
              "of the real reactors' timers is out of scope. Query plans are finite (round robin over 1-3 hosts, at most 3 retries).")
QUICK_WORKERS = 4
WORKERS = 14


def _short(ev):
    v = ev[3]
    return "%s@%.3f:%s" % (ev[0], ev[2], (type(v).__name__ + ':' + str(v)[:50]) if isinstance(v, BaseException) else repr(v)[:50])


def run_history(seed):
    from sim.env import SimEnv
    from sim import world as W
    from sim import s1_req as R
    from cassandra import OperationTimedOut
    from cassandra.cluster import ExecutionProfile, EXEC_PROFILE_DEFAULT
    from cassandra.policies import RoundRobinPolicy, ConstantSpeculativeExecutionPolicy
    from cassandra.query import SimpleStatement

    rng = random.Random(seed)
    random.seed(seed)
    nnodes = rng.choice([1, 2, 2, 3])
    addrs = ['127.0.0.%d' % (i + 1) for i in range(nnodes)]
    spec_extra = rng.choice([0, 0, 1, 2])
    spec_delay = rng.choice([0.05, 0.2, 0.45])
    T = rng.choice([0.3, 0.6, 1.0])
    p_preempt = rng.choice([0.0, 0.1, 0.3])
    p_time = 0.0      # virtual time passes only when nothing can run: the bound is stated relative to a scheduler that does not starve runnable threads
    ch = W.RandomChooser(random.Random(seed * 7 + 3), p_time=0.0, p_preempt=p_preempt)
    env = SimEnv(ch, addresses=addrs, max_steps=60000)
    plan = R.ReqPlan(env.world)
    for n in env.net.nodes.values():
        n.behaviour = plan.behaviour
    viol = []
    cnt = {}

    def count(k, n=1):
        cnt[k] = cnt.get(k, 0) + n

    with env:
        world = env.world
        retry = R.scripted_retry(seed * 13 + 7, weights=rng.choice([(1, 4, 1, 1), (3, 3, 1, 1), (1, 1, 3, 1)]))
        prof = ExecutionProfile(load_balancing_policy=RoundRobinPolicy(), retry_policy=retry, request_timeout=T,
                                speculative_execution_policy=ConstantSpeculativeExecutionPolicy(spec_delay, spec_extra) if spec_extra else None)
        cluster = env.cluster(protocol_version=rng.choice([3, 4, 4]), execution_profiles={EXEC_PROFILE_DEFAULT: prof})
        session = cluster.connect()
        world.settle(advance=False)
        starter = R.Starter(session, world, env.net)

        def actions(hostile, kind):
            if hostile:
                menu = [('silent', 6), ('late', 3), ('hold', 2), ('rows', 3), ('err', 4), ('held-err', 1), ('close', 1), ('reset', 1)]
            else:
                menu = [('rows', 6), ('hold', 2), ('err', 3)]
            if kind == 'bound':
                menu.append(('unprepared', 1))
            out = []
            for _ in range(rng.randint(1, 4)):
                a = rng.choices([m[0] for m in menu], [m[1] for m in menu])[0]
                if a == 'err':
                    a = R.err(rng.choice(R.RETRYABLE))
                elif a == 'held-err':
                    a = R.held_err(rng.choice(R.RETRYABLE))
                out.append(a)
            out.append(rng.choice(['rows', 'silent', 'silent', 'late']) if hostile else 'rows')
            return out

        nreq = rng.choice([1, 1, 2])
        specs = []
        for uid in range(1, nreq + 1):
            kind = rng.choices(['simple', 'bound', 'paged', 'use', 'ddl'], [3, 1, 4, 2 if nnodes > 1 else 0.5, 1])[0]
            if kind in ('use', 'ddl'):
                # statements whose first answer is not final: the coordinator answers normally (perhaps after a retried error), the follow-up
                # (a USE on every pool's connection / the schema agreement wait) meets silent, late or disagreeing nodes
                pre = [R.err(rng.choice(R.RETRYABLE))] if rng.random() < 0.25 else []
                plan.set_page(uid, 0, pre + [kind, kind])
                if kind == 'use':
                    # one internal USE per pool; whatever comes later (pools rebuilt with the new keyspace) is answered
                    plan.use_followup[uid] = [rng.choice(['rows', 'rows', 'silent', 'silent', 'late', 'hold']) for _ in range(nnodes)] + ['rows']
                else:
                    count('ddl_statements')
                    if nnodes > 1 and rng.random() < 0.7:
                        import uuid
                        env.net.nodes[addrs[-1]].info.schema_version = uuid.UUID(int=1000 + uid)        # the nodes do not agree on the schema
                        count('ddl_statements_with_disagreeing_nodes')
            elif kind == 'paged':
                npages = rng.randint(2, 4)
                plan.pages[uid] = [list(range(10 * k, 10 * k + rng.randint(0, 2))) for k in range(npages)]
                first_hostile = rng.random() < 0.25
                for k in range(npages):
                    plan.set_page(uid, k, actions(first_hostile if k == 0 else rng.random() < 0.7, kind))
            else:
                plan.set_page(uid, 0, actions(True, kind))
            # 'callback': the documented callback-driven paging - a registered callback (errback) of the future itself starts the next page
            # fetch (repeats the failed one) from inside the dispatch, on whatever thread completes the future
            specs.append({'uid': uid, 'kind': kind, 'idem': rng.random() < 0.8, 'mode': 'callback' if kind == 'paged' and rng.random() < 0.45 else 'advance'})
        if nreq == 1 and specs[0]['mode'] == 'advance' and rng.random() < 0.4:
            specs[0]['mode'] = 'block'
        prepared = {}
        for s in specs:
            if s['kind'] == 'bound':
                ps = session.prepare(R.uid_query(s['uid']))
                ps.is_idempotent = s['idem']
                prepared[s['uid']] = ps
        world.settle(advance=False)
        # the connect phase's schedule depends on heap addresses (Session.__init__ walks a set of Future objects): pin the generators again
        ch.rng = random.Random(seed * 7 + 4)
        random.seed(seed + 1)
        ch.p_time = p_time

        def held(kinds, uid=None):
            out = []
            for h in env.net.held:
                if h.done:
                    continue
                a = h.req.get('_s1_action')
                k = a[0] if isinstance(a, tuple) else a
                if k in kinds and (uid is None or h.req.get('_s1_uid') == uid):
                    out.append(h)
            return out

        mons = {}

        def start(s):
            uid = s['uid']
            mon = R.Mon(world, uid, T, env.net)
            mon.info = s
            mons[uid] = mon
            plan.started.add(uid)
            plan.epoch_of[uid] = 0
            if s['kind'] == 'bound':
                st = prepared[uid]
            elif s['kind'] == 'use':
                st = SimpleStatement(R.use_statement(uid))
                count('use_statements')
            elif s['kind'] == 'ddl':
                st = SimpleStatement(R.ddl_statement(uid))
            else:
                st = SimpleStatement(R.uid_query(uid), is_idempotent=s['idem'], fetch_size=2 if s['kind'] == 'paged' else None)
            if s['mode'] == 'callback':
                # the paging callbacks are attached before any response can be processed (the application thread keeps the baton): the monitor
                # attributes an outcome to the page fetch current when its first registration runs, so no fetch may start in between
                saved, world.preempt = world.preempt, False
            starter.start(mon, st)
            mon.deadline = mon.epoch_start[0] + T + R.EPS
            mon.done = False
            mon.judging = 0           # callback mode: the oldest page fetch whose deadline has not been looked at yet
            count('requests_started')
            if s['mode'] == 'callback' and mon.future is not None:
                def fetch_on(mon=mon, uid=uid, repeated=False):
                    mon.next_epoch(env.net)
                    plan.epoch_of[uid] = mon.epoch
                    count('later_page_fetches')
                    count('page_fetches_started_inside_a_callback' if not repeated else 'page_fetches_repeated_inside_an_errback')
                    mon.future.start_fetching_next_page()

                def pager_cb(rows, mon=mon, fetch_on=fetch_on):
                    if not mon.frozen and mon.future.has_more_pages and mon.epoch < 4:
                        fetch_on()

                def pager_eb(exc, mon=mon, fetch_on=fetch_on):
                    if not mon.frozen and mon.epoch >= 1 and mon.future.has_more_pages and getattr(mon, 'refetches', 0) < 2 and mon.epoch < 5:
                        mon.refetches = getattr(mon, 'refetches', 0) + 1
                        fetch_on(repeated=True)
                mon.future.add_callbacks(pager_cb, pager_eb)
            if s['mode'] == 'callback':
                world.preempt = saved

        def judge(mon, hang=False):
            """at (or after) the deadline of the current page fetch, everything runnable has run"""
            e = mon.judging if mon.info['mode'] == 'callback' else mon.epoch
            outs = mon.primary.in_epoch(e)
            plan.resolve(env.net.events)
            arr = [a for a in plan.arrivals if a['uid'] == mon.uid and a['epoch'] == e]
            unanswered = [a for a in arr if a['answered'] is None or (a['answered'][0] == 'sent' and a['answered'][1] > mon.deadline)]
            count('first_page_deadline_checks' if e == 0 else 'later_page_deadline_checks')
            if unanswered:
                count('deadline_checks_with_unanswered_messages')
            if any(a['action'].startswith('followup-use') for a in unanswered):
                count('followup_use_messages_unanswered_at_deadline')
            ok = bool(outs) and outs[0][2] <= mon.deadline + 1e-3
            if ok:
                count('completed_within_bound')
                if isinstance(outs[0][3], OperationTimedOut):
                    count('completed_by_client_timeout')
                return True
            when = ('completed only at t_start+%.3f' % (outs[0][2] - mon.epoch_start[e])) if outs else ('result() can never return (world hang)' if hang else 'not complete')
            what = 'uid %d page fetch %d (timeout %.1f s, started at %.3f): %s at t_start+%.3f; %d messages sent, %d unanswered at the deadline' % (
                mon.uid, e + 1, T, mon.epoch_start[e], when, world.now - mon.epoch_start[e], len(arr), len(unanswered))
            if e == 0:
                viol.append(('first-page-not-complete-within-timeout', what, mon))
            elif unanswered or not arr:
                viol.append(('next-page-fetch-has-no-timeout', what, mon))
            else:
                viol.append(('later-page-not-complete-although-answered', what, mon))
            return False

        def schedule_next_page(mon):
            """after a successful page: decide when the next page fetch starts (never advance the clock here: other futures have deadlines)"""
            outs = mon.outcomes()
            if not outs or mon.epoch >= 4:
                return False
            if outs[-1][0] != 'cb':
                # a LATER page fetch failed (timeout, error, no host): the application may ask for that page again - the paging state of the
                # previous page is still there.  (A failed first page leaves nothing to resume.)
                if mon.epoch == 0 or getattr(mon, 'refetches', 0) >= 2 or rng.random() < 0.2:
                    return False
                mon.refetches = getattr(mon, 'refetches', 0) + 1
                mon.refetch_pending = True
            if rng.random() < 0.7:
                for h in held(('hold', 'late', 'hold-error'), mon.uid):
                    h.release()
            mon.delay_before = rng.choice([0.0, 0.05, T / 2, T + 0.2])
            mon.state = 'waiting'
            mon.key_time = world.now + mon.delay_before
            return True

        def begin_next_page(mon):
            world.settle(advance=False)
            with world.inspect():
                more = mon.future.has_more_pages
            if not more:
                return False
            mon.next_epoch(env.net)
            plan.epoch_of[mon.uid] = mon.epoch
            mon.future.start_fetching_next_page()
            if getattr(mon, 'refetch_pending', False):
                mon.refetch_pending = False
                count('page_fetches_repeated_after_a_failed_fetch')
            mon.deadline = mon.epoch_start[-1] + T + R.EPS
            mon.state = 'running'
            mon.key_time = mon.deadline
            count('later_page_fetches')
            if mon.delay_before > T:
                count('later_page_fetches_started_after_more_than_the_timeout')
            return True

        for s in specs:
            start(s)
            mons[s['uid']].state = 'running'
            mons[s['uid']].key_time = mons[s['uid']].deadline
            if rng.random() < 0.5:
                world.advance_to(world.now + rng.choice([0.01, 0.1]))
        for rounds in range(24):
            active = [m for m in mons.values() if m.future is not None and not m.done]
            if not active:
                break
            # the next thing on the agenda in virtual time: a deadline to judge or a page fetch to start; the clock never passes it unobserved
            mon = min(active, key=lambda m: m.key_time)
            if mon.state == 'waiting':
                if world.now < mon.key_time:
                    world.advance_to(mon.key_time)
                if not begin_next_page(mon):
                    mon.done = True
                continue
            if mon.info['mode'] == 'block':
                hang = False
                count('blocking_result_calls')
                try:
                    mon.future.result()
                except W.WorldHang:
                    hang = True
                    count('world_hangs_in_result')
                except W.WorldLimit:
                    raise
                except Exception:       # noqa  the outcome is an error: fine, it is an outcome
                    pass
                world.settle(advance=False)
                good = judge(mon, hang)
            else:
                # some activity before the deadline
                for _ in range(rng.randint(0, 3)):
                    r = rng.random()
                    if r < 0.4:
                        c = held(('hold', 'hold-error'))
                        if c:
                            rng.choice(c).release()
                    elif r < 0.7:
                        world.settle(advance=False)
                    else:
                        t = world.now + rng.choice([0.02, spec_delay, 0.2])
                        if t < mon.deadline:
                            world.advance_to(t)
                if world.now < mon.deadline:
                    world.advance_to(mon.deadline)
                world.settle(advance=False)
                good = judge(mon)
            if mon.info['mode'] == 'callback':
                # the page fetches are started by the future's own callbacks; look at each of them at its own deadline
                if good and mon.epoch > mon.judging:
                    mon.judging += 1
                    mon.deadline = mon.epoch_start[mon.judging] + T + R.EPS
                    mon.key_time = mon.deadline
                else:
                    mon.done = True
                continue
            if not good or not schedule_next_page(mon):
                mon.done = True
        for h in held(('hold', 'late', 'hold-error')):
            h.release()
        world.settle(advance=False)
        world.preempt = False
        for mon in mons.values():
            mon.frozen = True
        harness = list(world.errors) + [('parse', p) for p in env.net.parse_failures] + [('plan', u) for u in plan.unexpected]
        for mon in mons.values():
            if mon.raised is not None:
                harness.append(('execute_async raised', mon.raised))
        sig = tuple(x[:2] for x in world.trace)
        plan.resolve(env.net.events)
        info = {'seed': seed, 'nodes': nnodes, 'spec_extra': spec_extra, 'spec_delay': spec_delay, 'timeout': T, 'p_time': p_time, 'p_preempt': p_preempt,
                'requests': [dict(s) for s in specs], 'retry_decisions': len(retry.calls), 'messages': len(plan.arrivals),
                'unanswered': sum(1 for a in plan.arrivals if a['answered'] is None)}
        hist = {}
        for mon in mons.values():
            hist[mon.uid] = {'kind': mon.info['kind'], 'mode': mon.info['mode'], 'page_fetches': mon.epoch + 1,
                             'fetch_started_at': [round(t, 4) for t in mon.epoch_start],
                             'outcomes': [_short(x) + '/page%d' % (x[1] + 1) for x in mon.primary.events] if mon.watches else [],
                             'messages': [(a['epoch'] + 1, a['op'], a['node'], round(a['t'], 4), a['action'], a['answered']) for a in plan.arrivals if a['uid'] == mon.uid]}
        try:
            cluster.shutdown()
            world.settle()
        except W.WorldHang:
            # teardown only, after the verdict: a pool that was being (re)built while the scripted silence was in force switches its keyspace
            # with Connection.set_keyspace_blocking(), which waits without any timeout and keeps its executor thread forever
            count('teardowns_blocked_by_a_pool_waiting_for_its_keyspace')
    return viol, harness, sig, info, hist, cnt


def run(ctx):
    from vlib import shim
    shim.import_cluster()
    from vlib.run import Inconclusive
    from sim.world import WorldLimit
    ctx.rule = ("a case is one seeded history (1-3 nodes, 1-2 requests simple/bound/paged with up to 4 page fetches, timeout 0.3-1.0 s, 0-2 speculative "
                "executions, seeded retry decisions, per-message node behaviour silent/late/hold/rows/error/close/reset, delay before each later page "
                "fetch, observation mode, schedule); distinct by event-order signature of the world trace; non-trivial = at least one message reached a node")
    ctx.assume("query plans are finite: round robin over at most 3 hosts, the scripted retry policy rethrows at the third retry")
    ctx.assume("runnable threads are never delayed in virtual time (the chooser never lets time jump while something can run); which runnable "
               "thread goes next, and the order of simultaneous timers / deliveries, are still chosen at random")
    ctx.assume("eps = 0.05 s of virtual time: the driver re-arms the timeout up to 3 x 0.01 s when the request has not been sent yet")
    n = ctx.scale(3000, 150000)
    budget = 14 if ctx.quick else 130      # CPU seconds of this worker (ctx.time_left), wall is capped at 4x
    base = ctx.seed * 1000003 + (ctx.worker or 0) * 100003
    # budget by time, but never fewer histories than the floors need (a loaded machine must not turn the verdict inconclusive)
    at_least = 80 if ctx.quick else 400
    for i in range(n):
        if ctx.time_left(budget) < 0 and i >= at_least:
            ctx.note("stopped by time budget after %d histories" % i)
            break
        seed = base + i
        try:
            viol, harness, sig, info, hist, cnt = run_history(seed)
        except WorldLimit:
            ctx.count("histories_over_budget")
            continue
        except Exception as e:
            import traceback
            raise Inconclusive("history seed %d failed in the harness: %s: %s\n%s" % (seed, type(e).__name__, e, traceback.format_exc()[-1200:]))
        if harness:
            raise Inconclusive("harness error in history seed %d: %r" % (seed, harness[:2]))
        ctx.case(repr(sig), nontrivial=info['messages'] >= 1)
        ctx.count("histories")
        ctx.count("messages_sent_for_requests", info['messages'])
        ctx.count("messages_never_answered", info['unanswered'])
        ctx.count("retry_decisions", info['retry_decisions'])
        for k, v in cnt.items():
            ctx.count(k, v)
        seen = set()
        for mech, what, mon in viol:
            if mech in seen:
                continue
            seen.add(mech)
            ctx.violation(mech, "%s [seed %d]" % (what, seed), {"seed": seed, "info": info, "future": hist.get(mon.uid)})
        if not viol and len(ctx.samples) < 4 and info['unanswered'] and info['messages'] >= 2:
            ctx.sample({"info": info, "futures": hist})
    ctx.floor_distinct = 100 if ctx.quick else 1200
    ctx.floor_counters = {"histories": 150, "first_page_deadline_checks": 150, "later_page_deadline_checks": 60, "completed_by_client_timeout": 50,
                          "deadline_checks_with_unanswered_messages": 80, "blocking_result_calls": 20, "later_page_fetches": 60,
                          "page_fetches_repeated_after_a_failed_fetch": 25, "page_fetches_started_inside_a_callback": 60,
                          "page_fetches_repeated_inside_an_errback": 10, "use_statements": 40,
                          "followup_use_messages_unanswered_at_deadline": 15, "ddl_statements_with_disagreeing_nodes": 10}
