"""C31 - client-side timestamps strictly increase across all threads.

Monitor: ``time`` inside ``cassandra.timestamps`` is replaced by a scripted clock (stalls, backward
and forward jumps) that attributes every reading to the calling thread.  Every call of the real
``MonotonicTimestampGenerator`` is logged as (logical start stamp, logical end stamp, readings taken,
value returned) and the history is judged offline:

  * all values distinct, strictly increasing per thread,
  * if call A returned before call B started (logical stamps) then value(A) < value(B),
  * value >= floor(reading * 1e6) for the reading taken in that call (exact rational arithmetic).

(a) single thread: every clock sequence up to length 6 over several 4-value domains (exhaustive);
(b) 8 real threads, with and without ``sys.monitoring`` LINE-event yield injection restricted to the
    code objects of ``__call__`` and ``_next_timestamp``.
"""
import itertools
import logging
import math
import random
import sys
import threading
import time as _real_time
from fractions import Fraction

PROPERTY = "C31"
LEVEL = "exploration"
ENGINE = "spec+stress"
TECHNIQUE = ("scripted clock + recorded call/return history judged offline (distinct, per-thread order, real-time order, not behind "
             "the reading); exhaustive single-thread clock sequences; real threads with LINE-event yield injection")
LEVEL_TEXT = ("single-thread part exhaustive over clock sequences of length <= 6 on 4-value domains; thread part samples "
              "interleavings of 8 real threads (seeded yield injection at every line of the two methods)")
LEVEL_NOTE = ("thread interleavings are sampled, not enumerated, and are not reproducible from the seed alone (OS scheduler); "
              "trusted base: the history checker in this module, itertools.count as a logical clock under the GIL")
QUICK_WORKERS = 1
WORKERS = 12

NTHREADS = 8
YIELD_P = 0.3

DOMAINS = [
    # (name, readings in seconds)
    ("us-steps", (10.0, 10.000001, 10.000002, 10.5)),
    ("big-jumps", (0.0, 1.0, 1000000.5, 1.7e9)),
    ("sub-us", (1.7e9, 1.7e9 + 2e-7, 1.7e9 + 1e-6, 1.7e9 - 30.0)),
    ("realistic", (1789000000.123456, 1789000000.123457, 1789000000.123999, 1788999990.0)),
]


def floor_us(reading):
    """floor(reading * 10**6) in exact arithmetic (never above what any float evaluation of the product can give)."""
    return math.floor(Fraction(reading) * 1000000)


class ScriptedClock(object):
    """Stand-in for the ``time`` module inside cassandra.timestamps."""

    def __init__(self, script=None, rng=None, start_us=1789000000000000):
        self._lock = threading.Lock()
        self._script = list(script) if script is not None else None
        self._i = 0
        self._rng = rng
        self._us = start_us
        self._phase = None
        self._left = 0
        self.tl = threading.local()
        self.stalls = 0
        self.backward = 0
        self.forward = 0
        self.readings = 0

    def _next_us(self):
        rng = self._rng
        if self._left <= 0:
            x = rng.random()
            if x < 0.40:
                self._phase, self._left = "run", rng.randint(1, 40)
            elif x < 0.75:
                self._phase, self._left = "stall", rng.randint(2, 60)
                self.stalls += 1
            elif x < 0.92:
                self._phase, self._left = "run", rng.randint(1, 10)
                self._us -= rng.choice([1, 2, 5, 5, 50, 50, 1000, 1000, 10 ** 6, 3 * 10 ** 6, 10 ** 9])
                self.backward += 1
            else:
                self._phase, self._left = "run", rng.randint(1, 10)
                self._us += rng.choice([5, 100, 10 ** 4, 4 * 10 ** 6, 2 * 10 ** 9])
                self.forward += 1
        self._left -= 1
        if self._phase == "run":
            self._us += rng.choice((0, 1, 1, 2, 3, 5, 20))
        return self._us

    def time(self):
        with self._lock:
            self.readings += 1
            if self._script is not None:
                r = self._script[self._i]
                self._i += 1
            else:
                us = self._next_us()
                r = us / 1e6
        lst = getattr(self.tl, "readings", None)
        if lst is not None:
            lst.append(r)
        return r

    # anything else the module might want from ``time``
    def sleep(self, s):
        _real_time.sleep(s)

    def monotonic(self):
        return _real_time.monotonic()


class YieldInjector(object):
    """time.sleep(0) with seeded probability at every LINE event of the given code objects."""

    def __init__(self, codes, seed, p):
        self.codes = codes
        self.p = p
        self.seed = seed
        self.tool = None
        self.tl = threading.local()
        self.events = 0
        self.yields = 0

    def _cb(self, code, line):
        rnd = getattr(self.tl, "rnd", None)
        if rnd is None:
            rnd = self.tl.rnd = random.Random((self.seed << 20) ^ threading.get_ident()).random
        self.events += 1          # unsynchronised statistics; only used as a floor
        if rnd() < self.p:
            self.yields += 1
            _real_time.sleep(0)

    def __enter__(self):
        mon = sys.monitoring
        for tid in (3, 4, 2):
            try:
                mon.use_tool_id(tid, "verif-c31-yield")
                self.tool = tid
                break
            except ValueError:
                continue
        if self.tool is None:
            from vlib.run import Inconclusive
            raise Inconclusive("no free sys.monitoring tool id")
        mon.register_callback(self.tool, mon.events.LINE, self._cb)
        for c in self.codes:
            mon.set_local_events(self.tool, c, mon.events.LINE)
        return self

    def __exit__(self, *a):
        mon = sys.monitoring
        for c in self.codes:
            mon.set_local_events(self.tool, c, 0)
        mon.register_callback(self.tool, mon.events.LINE, None)
        mon.free_tool_id(self.tool)
        return False


def judge_history(ctx, records, label):
    """records: list of (thread, start_stamp, end_stamp, readings(list), value)."""
    n = len(records)
    ctx.count("calls_observed", n)
    # 1. distinct
    seen = {}
    for rec in records:
        v = rec[4]
        if v in seen:
            a = seen[v]
            ctx.violation("duplicate-timestamp", "%s: value %r returned twice (threads %s and %s)" % (label, v, a[0], rec[0]),
                          {"label": label, "first": a, "second": rec})
            break
        seen[v] = rec
    ctx.count("distinct_checks", n)
    # 2. per thread strictly increasing (calls of one thread are sequential)
    per = {}
    for rec in sorted(records, key=lambda r: r[1]):
        prev = per.get(rec[0])
        if prev is not None:
            ctx.count("thread_order_checks")
            if not rec[4] > prev[4]:
                mech = "duplicate-timestamp" if rec[4] == prev[4] else "thread-local-order"
                ctx.violation(mech, "%s: thread %s got %r after %r" % (label, rec[0], rec[4], prev[4]),
                              {"label": label, "earlier": prev, "later": rec})
                break
        per[rec[0]] = rec
    # 3. real-time order: sweep over the logical stamps
    events = []
    for rec in records:
        events.append((rec[1], 0, rec))
        events.append((rec[2], 1, rec))
    events.sort(key=lambda e: e[0])
    best = None            # completed call with the largest value so far
    open_calls = 0
    reported = False
    for stamp, kind, rec in events:
        if kind == 0:
            if open_calls:
                ctx.count("calls_started_while_another_in_flight")
            open_calls += 1
            if best is not None:
                ctx.count("realtime_order_checks")
                if not rec[4] > best[4] and not reported:
                    reported = True
                    mech = "duplicate-timestamp" if rec[4] == best[4] else "realtime-order"
                    ctx.violation(mech, "%s: call that started after another had returned %r got %r" % (label, best[4], rec[4]),
                                  {"label": label, "returned_before": best, "started_after": rec})
        else:
            open_calls -= 1
            if best is None or rec[4] > best[4]:
                best = rec
    # 4. not behind the clock reading of the call
    for rec in records:
        rd = rec[3]
        if not rd:
            ctx.count("calls_without_clock_reading")
            continue
        if len(rd) > 1:
            ctx.count("calls_with_several_clock_readings")
        need = min(floor_us(r) for r in rd)
        ctx.count("reading_checks")
        if not isinstance(rec[4], int) or isinstance(rec[4], bool):
            ctx.violation("non-integer-timestamp", "%s: returned %r" % (label, rec[4]), {"label": label, "call": rec})
            break
        if rec[4] < need:
            ctx.violation("behind-clock-reading", "%s: returned %r for a clock reading of %r (= %d us)" % (label, rec[4], rd, need),
                          {"label": label, "call": rec})
            break
        if rec[4] > need:
            ctx.count("calls_that_drifted_ahead_of_clock")
        else:
            ctx.count("calls_that_returned_the_clock_value")


def single_thread_sequences(ctx, ts_mod):
    for dname, dom in DOMAINS:
        for length in range(1, 7):
            for seq in itertools.product(dom, repeat=length):
                clock = ScriptedClock(script=seq)
                clock.tl.readings = None
                ts_mod.time = clock
                gen = ts_mod.MonotonicTimestampGenerator()
                recs = []
                stamp = 0
                for _ in range(length):
                    clock.tl.readings = rd = []
                    v = gen()
                    recs.append((0, stamp, stamp + 1, rd, v))
                    stamp += 2
                ctx.case(("seq", dname, seq))
                ctx.count("single_thread_sequences")
                judge_history(ctx, recs, "single-thread %s %r" % (dname, seq))
                if ctx.n_violations > 20:
                    return


def thread_round(ctx, ts_mod, label, calls_per_thread, inject, round_seed, deadline):
    rng = random.Random(round_seed)
    clock = ScriptedClock(rng=rng, start_us=rng.choice([1789000000000000, 5 * 10 ** 6, 10 ** 15 + 7]))
    ts_mod.time = clock
    gen = ts_mod.MonotonicTimestampGenerator()
    stamps = itertools.count()           # next() is atomic under the GIL: a logical clock
    out = [[] for _ in range(NTHREADS)]
    errors = []
    barrier = threading.Barrier(NTHREADS)

    def worker(ix):
        try:
            mine = out[ix]
            tl = clock.tl
            nxt = stamps.__next__
            barrier.wait()
            for k in range(calls_per_thread):
                tl.readings = rd = []
                s = nxt()
                v = gen()
                e = nxt()
                mine.append((ix, s, e, rd, v))
                if (k & 255) == 0 and _real_time.time() > deadline:
                    break
        except BaseException as ex:      # reported as harness problem, never as a verdict
            errors.append(repr(ex))
            try:
                barrier.abort()
            except Exception:
                pass

    threads = [threading.Thread(target=worker, args=(i,), daemon=True) for i in range(NTHREADS)]
    codes = [ts_mod.MonotonicTimestampGenerator.__call__.__code__, ts_mod.MonotonicTimestampGenerator._next_timestamp.__code__]
    old_si = sys.getswitchinterval()
    inj = None
    try:
        if inject:
            inj = YieldInjector(codes, round_seed, YIELD_P)
            inj.__enter__()
        else:
            sys.setswitchinterval(1e-5)   # frequent involuntary switches instead
        for t in threads:
            t.start()
        for t in threads:
            t.join()
    finally:
        sys.setswitchinterval(old_si)
        if inj is not None:
            inj.__exit__()
    if errors:
        from vlib.run import Inconclusive
        raise Inconclusive("generator call raised in a worker thread: %s" % errors[0])
    records = [r for lst in out for r in lst]
    ctx.case(("threads", label, round_seed, inject), n=len(records))
    ctx.count("thread_rounds")
    if inj is not None:
        ctx.count("line_events_seen", inj.events)
        ctx.count("yields_injected", inj.yields)
        ctx.count("calls_with_yield_injection", len(records))
    else:
        ctx.count("calls_without_injection", len(records))
    ctx.count("clock_stall_phases", clock.stalls)
    ctx.count("clock_backward_jumps", clock.backward)
    ctx.count("clock_forward_jumps", clock.forward)
    judge_history(ctx, records, label)
    return records


def run(ctx):
    import cassandra.timestamps as ts_mod
    logging.getLogger("cassandra.timestamps").addHandler(logging.NullHandler())
    logging.getLogger("cassandra.timestamps").propagate = False   # drift warnings are expected by construction
    ctx.rule = ("(a) every clock sequence of length 1..6 over %d four-value domains, fresh default generator each, distinct = (domain, "
                "sequence); (b) rounds of %d threads calling one generator under a seeded scripted clock (stall / backward / forward "
                "phases); every call is one evaluation, distinct = round (label, seed, injection) - interleavings within a round are "
                "chosen by the scheduler and the seeded yield injector" % (len(DOMAINS), NTHREADS))
    ctx.assume("'returned before started' is decided with a shared itertools.count() read immediately before the call and immediately "
               "after the return (a sound under-approximation of real-time order)")
    ctx.assume("'the clock reading taken for that call' = readings of the substituted cassandra.timestamps.time.time() made by the calling "
               "thread during the call; the bound is floor(reading*10^6) in exact arithmetic (<= any float evaluation)")
    real_time_attr = ts_mod.time
    t_budget = 50 if ctx.quick else 420
    deadline = _real_time.time() + t_budget
    try:
        if ctx.worker in (None, 0):
            single_thread_sequences(ctx, ts_mod)
            ctx.exhaustive = None      # only part (a) is exhaustive; the verdict as a whole is sampled
        rounds_inj = ctx.scale(3, 180)
        calls_inj = 2500
        rounds_plain = ctx.scale(1, 24)
        calls_plain = 20000
        first = None
        for r in range(rounds_inj):
            if _real_time.time() > deadline:
                ctx.note("time budget reached after %d injected rounds" % r)
                break
            recs = thread_round(ctx, ts_mod, "inject", calls_inj, True, ctx.rng.getrandbits(40), deadline)
            first = first or recs
            if ctx.n_violations:
                break
        for r in range(rounds_plain):
            if _real_time.time() > deadline or ctx.n_violations:
                break
            thread_round(ctx, ts_mod, "plain", calls_plain, False, ctx.rng.getrandbits(40), deadline)
        if first:
            ctx.sample({"history_excerpt (thread, start, end, readings, value)": sorted(first, key=lambda r: r[1])[1000:1012]})
    finally:
        ts_mod.time = real_time_attr
    ctx.floor_distinct = 2
    ctx.floor_counters = {"calls_observed": 50000 if ctx.quick else 100000, "realtime_order_checks": 20000, "reading_checks": 20000,
                          "yields_injected": 10000, "calls_started_while_another_in_flight": 1000,
                          "calls_that_drifted_ahead_of_clock": 1000, "calls_that_returned_the_clock_value": 1000,
                          "clock_backward_jumps": 10, "clock_stall_phases": 10}
    if ctx.worker in (None, 0):
        ctx.floor_counters["single_thread_sequences"] = len(DOMAINS) * sum(4 ** k for k in range(1, 7))
