"""C02 - value encodings are byte-exact with Cassandra's serializers.

Monitor: for generated (type, value, version) the bytes written by the real
``T.serialize`` are compared with the bytes of the independent reference encoder
(spec/cqlcodec.py); Cassandra-image byte strings produced by the reference encoder are fed
to the real ``T.deserialize`` and the value is compared; values outside a type's range must
raise or encode to bytes the reference decoder reads back as the same value.
"""
import datetime
import decimal

PROPERTY = "C02"
LEVEL = "exploration"
ENGINE = "spec"
TECHNIQUE = "runtime monitor: differential against an independent reference codec (encode, decode, out-of-range)"
LEVEL_TEXT = ("Every generated value is serialized by the real codec and by an independently written reference codec of Cassandra's "
              "serializers; bytes must be identical, reference-encoded images must decode to the same value, out-of-range inputs must "
              "raise. Tens of thousands (quick) to ~1M (thorough) cases over nested types and all protocol versions.")
LEVEL_NOTE = ("Trusted base: spec/cqlcodec.py (self-checked against hand-verified vectors on every run). Excluded (stated assumptions): "
              "vectors whose element type's fixed-length classification in Cassandra could not be established offline (tinyint, smallint, "
              "date, time, inet, duration), mixed-sign durations, top-level nulls in v1/v2 collections, vectors below protocol v3.")
WORKERS = 14

PVS = [1, 2, 3, 4, 5, 6, 0x41, 0x42]


def out_of_range_pool(rng):
    """(type, driver input, description) that are outside the type's range."""
    from cassandra import util
    big = rng.choice([1, 2, 1000, 2 ** 40])
    cases = [
        (('int',), 2 ** 31 - 1 + big), (('int',), -2 ** 31 - big),
        (('smallint',), 2 ** 15 - 1 + big), (('smallint',), -2 ** 15 - big),
        (('tinyint',), 2 ** 7 - 1 + big), (('tinyint',), -2 ** 7 - big),
        (('bigint',), 2 ** 63 - 1 + big), (('bigint',), -2 ** 63 - big),
        (('counter',), 2 ** 63 - 1 + big),
        (('float',), 3.5e38 * big), (('float',), -1e39),
        (('date',), util.Date(2 ** 31 - 1 + big)), (('date',), util.Date(-2 ** 31 - big)),
        (('timestamp',), 2 ** 63 - 1 + big), (('timestamp',), -2 ** 63 - big),
        (('decimal',), decimal.Decimal('NaN')), (('decimal',), decimal.Decimal('Infinity')),
        (('ascii',), 'caf\xe9'), (('ascii',), '€'),
        (('list', ('int',)), [1, 2 ** 31]), (('set', ('smallint',)), [2 ** 15]),
        (('map', ('int',), ('tinyint',)), {1: 128}), (('map', ('tinyint',), ('int',)), {-129: 1}),
        (('tuple', ('int',), ('bigint',)), (1, 2 ** 63)),
        (('vector', ('int',), 2), [1, 2 ** 31]),
        (('tuple', ('int',)), (1, 2)),
        (('vector', ('int',), 3), [1, 2]),
    ]
    return cases


def run(ctx):
    from props import _cqlgen as G
    from spec import cqlcodec as S

    rng = ctx.rng
    G.ORDERED_SETS = True
    ctx.rule = ("C01 generator restricted to types the reference defines with certainty; case = (type, value, version); three monitors per "
                "case: driver bytes == reference bytes, driver decode of reference bytes == value; plus out-of-range pool must raise. "
                "distinct by canonical repr; non-trivial = nested type or boundary scalar (varint/decimal/duration/date/time/timestamp)")
    n_self = S.selfcheck()
    ctx.count("spec_selfcheck_cases", n_self)
    n = ctx.scale(60000, 1200000)
    budget = 45 if ctx.quick else 420
    interesting_scalars = ('varint', 'decimal', 'duration', 'date', 'time', 'timestamp', 'inet', 'float', 'double')
    for i in range(n):
        if i % 256 == 0 and ctx.time_left(budget) < 0:
            ctx.note("stopped by time budget after %d cases" % i)
            break
        pv = rng.choice(PVS)
        t = G.gen_type(rng, rng.choice([0, 0, 1, 1, 2, 2, 3, 4]), pv)
        if S.contains_uncertain_vector(t):
            ctx.count("skipped_uncertain_vector")
            continue
        v = G.gen_value(rng, t, pv)
        try:
            ref = S.enc(t, v, pv)
        except S.Undefined:
            ctx.count("skipped_undefined")
            continue
        nested = G.is_nested(t)
        ctx.case(repr((S.cql_name(t), G.canon_key(t, v), pv)), nontrivial=nested or t[0] in interesting_scalars)
        ctx.count("nested_cases" if nested else "scalar_cases")
        back0 = S.dec(t, ref, pv)
        if G.canon_key(t, back0) != G.canon_key(t, v):
            from vlib.run import Inconclusive
            raise Inconclusive("reference codec does not round-trip %s %r" % (S.cql_name(t), v))
        dt = G.driver_type(t, via_descriptor=rng.random() < 0.3)
        dv = G.to_driver(rng, t, v)
        wit = {"type": S.cql_name(t), "pv": pv, "value": repr(v)[:400], "input": repr(dv)[:300], "reference_bytes": ref}
        # (1) encode: byte equality
        try:
            got = dt.serialize(dv, pv)
        except Exception as e:
            ctx.violation("serialize-raises", "serialize of %s v%d raised %s: %s" % (S.cql_name(t), pv, type(e).__name__, str(e)[:200]), wit)
            continue
        ctx.count("bytes_compared", len(ref))
        if bytes(got) != ref:
            wit["driver_bytes"] = bytes(got)
            ctx.violation("encoding-differs-from-reference", "%s v%d: driver wrote %s, Cassandra's serializer writes %s" % (
                S.cql_name(t), pv, bytes(got).hex()[:120], ref.hex()[:120]), wit)
            continue
        ctx.count("encodings_equal")
        # (2) decode of the Cassandra image
        try:
            res = dt.deserialize(ref, pv)
            back = G.from_driver(t, res)
        except G.MapItemsKeyError as e:
            if e.reencoding_differs and G.contains_kind(e.key_type, ('set', 'tuple', 'udt')):
                ctx.count("map_key_reencoding_keyerror_seen(C01 known finding)")
                continue
            ctx.violation("deserialize-raises", "deserialize of reference bytes for %s v%d raised %s" % (S.cql_name(t), pv, e), wit)
            continue
        except Exception as e:
            ctx.violation("deserialize-raises", "deserialize of reference bytes for %s v%d raised %s: %s" % (
                S.cql_name(t), pv, type(e).__name__, str(e)[:200]), wit)
            continue
        if G.canon_key(t, back) != G.canon_key(t, v):
            wit["decoded"] = repr(back)[:400]
            ctx.violation("decoding-differs-from-reference", "%s v%d: bytes %s decode to %r, Cassandra means %r" % (
                S.cql_name(t), pv, ref.hex()[:100], back, v), wit)
            continue
        ctx.count("decodings_equal")
        if nested and len(ctx.samples) < 6 and rng.random() < 0.01:
            ctx.sample({"type": S.cql_name(t), "pv": pv, "value": repr(v)[:200], "bytes": ref})

    # (3) out of range
    for rep in range(ctx.scale(40, 400)):
        for t, dv in out_of_range_pool(rng):
            pv = rng.choice([3, 4, 5])
            dt = G.driver_type(t)
            ctx.case(repr(("oor", S.cql_name(t), repr(dv))), nontrivial=True)
            try:
                got = dt.serialize(dv, pv)
            except Exception:
                ctx.count("out_of_range_rejected")
                continue
            # accepted: the bytes must denote the same value
            try:
                back = G.from_driver(t, dt.deserialize(got, pv))
                spec_back = S.dec(t, bytes(got), pv)
                same = (repr(back) == repr(G.from_driver(t, dv)) and G.canon_key(t, spec_back) == G.canon_key(t, back))
            except Exception:
                same = False
            if not same:
                ctx.violation("out-of-range-value-encoded", "%s: out-of-range %r was encoded as %s instead of raising" % (
                    S.cql_name(t), dv, bytes(got).hex()[:80]), {"type": S.cql_name(t), "input": repr(dv), "bytes": bytes(got)})
            else:
                ctx.count("out_of_range_encoded_same_value")
    # v2 width limits
    from cassandra import cqltypes as C
    for pv in (1, 2):
        for t, dv in [(('list', ('int',)), list(range(65536))), (('list', ('blob',)), [b'x' * 65536]),
                      (('map', ('int',), ('blob',)), {1: b'y' * 70000})]:
            ctx.case(repr(("oor-v2", S.cql_name(t), pv)), nontrivial=True)
            try:
                got = G.driver_type(t).serialize(dv, pv)
            except Exception:
                ctx.count("out_of_range_rejected")
                continue
            ctx.violation("v2-collection-width-overflow-encoded", "%s at v%d with an element/count beyond 65535 was encoded" % (S.cql_name(t), pv),
                          {"type": S.cql_name(t), "pv": pv})
    ctx.floor_distinct = 5000 if ctx.quick else 100000
    ctx.floor_counters = {"encodings_equal": 5000, "decodings_equal": 5000, "out_of_range_rejected": 100, "nested_cases": 3000}
