"""C02 - value encodings are byte-exact with Cassandra's serializers.

Monitor: for generated (type, value, version) the bytes written by the real
``T.serialize`` are compared with the bytes of the independent reference encoder
(spec/cqlcodec.py); Cassandra-image byte strings produced by the reference encoder are fed
to the real ``T.deserialize`` and the value is compared; values outside a type's range must
raise or encode to bytes the reference decoder reads back as the same value.
"""
import datetime
import decimal

PROPERTY = "C02"
LEVEL = "exploration"
ENGINE = "spec"
TECHNIQUE = "runtime monitor: differential against an independent reference codec (encode, decode, out-of-range)"
LEVEL_TEXT = ("Every generated value is serialized by the real codec and by an independently written reference codec of Cassandra's "
              "serializers; bytes must be identical, reference-encoded images must decode to the same value, out-of-range inputs must "
              "raise (a pool of every ranged type's out-of-range classes and last in-range values, bare and inside every container kind). "
              "Tens of thousands (quick) to ~1M (thorough) cases over nested types and all protocol versions, plus collections / fields / "
              "vector elements whose count or byte size sits on a length-field boundary.")
LEVEL_NOTE = ("Trusted base: spec/cqlcodec.py (self-checked against hand-verified vectors on every run). Excluded (stated assumptions): "
              "vectors whose element type's fixed-length classification in Cassandra could not be established offline (tinyint, smallint, "
              "date, time, inet, duration), mixed-sign durations, top-level nulls in v1/v2 collections, vectors below protocol v3. "
              "Two generated input classes are observed but not judged, with the reason recorded (NOT_JUDGED in this module).")
WORKERS = 14

PVS = [1, 2, 3, 4, 5, 6, 0x41, 0x42]


class _Unrepresentable(object):
    """Canonical stand-in for an input that denotes no value of the type at all (no byte string decodes to it)."""
    def __init__(self, what):
        self.what = what

    def __repr__(self):
        return "<no %s value: %s>" % self.what


# Inputs the out-of-range monitor generates and observes but does not judge, with the reason (each is counted as
# "not_judged[<slug>]" and recorded with ctx.assume).  Everything else that is encoded as something other than the intended value is a
# violation (two of them are listed as known findings in known_findings.d/C02.json).
NOT_JUDGED = {
    "duration-months-days-beyond-int32-encoded":
        "Duration months/days outside int32 (but inside int64) are written as vints that denote exactly the number given - not 'a different "
        "value', which is what the property's range clause forbids; Cassandra rejects such bytes with an error of its own "
        "('The duration months must be a 32 bits integer'), so nothing is stored wrongly",
    "uuid-duck-typed-bytes-wrong-length-encoded":
        "an object that merely has a .bytes attribute of the wrong length is not a value of any CQL type (no uuid.UUID can be built with it), so "
        "there is no intended value to compare with",
}
UNDECIDED = NOT_JUDGED


def out_of_range_pool(rng):
    """[(class, type, driver input or thunk building it, intended canonical value, mechanism override or None)].

    Every entry denotes a value OUTSIDE the type's range (no byte string of the type decodes to the intended value), except the
    class 'extreme-in-range' controls, which sit exactly on the last representable value and must be encoded as that value."""
    from cassandra import util
    D = util.Duration
    U = _Unrepresentable
    big = rng.choice([1, 2, 3, 255, 1000, 2 ** 31, 2 ** 40, 2 ** 62])
    cases = []

    def add(cls, t, dv, v=None, mech=None):
        cases.append((cls, t, dv, dv if v is None else v, mech))

    # fixed-width integers: just outside, far outside, and exact multiples of 2**bits (what a wrap-around maps to 0 / small values)
    for k, bits in (('tinyint', 8), ('smallint', 16), ('int', 32), ('bigint', 64), ('counter', 64)):
        lo, hi = -(1 << (bits - 1)), (1 << (bits - 1)) - 1
        for x in (hi + 1, lo - 1, hi + big, lo - big, 1 << bits, (1 << bits) + rng.randint(0, 100), -(1 << bits), (1 << 64) + rng.randint(0, 100),
                  -(1 << 64) - rng.randint(0, 100), (1 << bits) - 1, rng.choice([1, -1]) * (1 << rng.randint(bits, 130))):
            add('int-width', (k,), x)
        add('extreme-in-range', (k,), hi)
        add('extreme-in-range', (k,), lo)
    # floating point: finite values beyond the largest float32 / float64
    for x in (3.5e38 * rng.choice([1, 2, 1000]), -3.5e38, 1e39, -1e39, 1.7e308, 10 ** 40, -10 ** 39, 10 ** 400):
        add('float-overflow', ('float',), x, U(('float', repr(x)[:30])))
    for x in (10 ** 400, -10 ** 309, 1 << 1024):
        add('float-overflow', ('double',), x, U(('double', repr(x)[:30])))
    for k in ('float', 'double'):
        for x in (decimal.Decimal('1E+400'), decimal.Decimal('-1E+309')):
            add('float-overflow', (k,), x, U((k, repr(x))), "decimal-input-beyond-double-range-encoded-as-infinity")
    add('extreme-in-range', ('float',), 3.4028234663852886e38)
    add('extreme-in-range', ('double',), -1.7976931348623157e308)
    # date: day count outside [-2**31, 2**31); a bare int is documented to be the wire (2**31-offset) form
    for d in (2 ** 31, -2 ** 31 - 1, 2 ** 31 - 1 + big, -2 ** 31 - big, 2 ** 32, 2 ** 32 + rng.randint(0, 99), -2 ** 32, 2 ** 64 + 5):
        add('date-range', ('date',), (lambda d=d: util.Date(d)), d)
    for raw in (-1, -big, 2 ** 32, 2 ** 32 + big, 2 ** 64):
        add('date-range', ('date',), raw, raw - 2 ** 31)
    add('extreme-in-range', ('date',), (lambda: util.Date(2 ** 31 - 1)), 2 ** 31 - 1)
    add('extreme-in-range', ('date',), (lambda: util.Date(-2 ** 31)), -2 ** 31)
    add('extreme-in-range', ('date',), 0, -2 ** 31)
    add('extreme-in-range', ('date',), 2 ** 32 - 1, 2 ** 31 - 1)
    # time: nanoseconds outside [0, 86400e9)
    day = 86400 * 10 ** 9
    for n in (-1, -big, day, day + big, 2 ** 63, 2 ** 63 - 1, 2 ** 64 + rng.randint(0, 99), -2 ** 63 - 1):
        add('time-range', ('time',), n)
        add('time-range', ('time',), (lambda n=n: util.Time(n)), n)
    add('extreme-in-range', ('time',), day - 1)
    add('extreme-in-range', ('time',), 0)
    # timestamp: milliseconds outside int64 (numbers are accepted as timestamps)
    for ms in (2 ** 63, -2 ** 63 - 1, 2 ** 63 - 1 + big, -2 ** 63 - big, 2 ** 64, 2 ** 64 + rng.randint(0, 99), -2 ** 64):
        add('timestamp-range', ('timestamp',), ms)
    for x in (1e19, -1e19, 1e300, float('inf'), float('-inf'), float('nan')):
        add('timestamp-range', ('timestamp',), x, U(('timestamp', repr(x))))
    add('extreme-in-range', ('timestamp',), 2 ** 63 - 1)
    add('extreme-in-range', ('timestamp',), -2 ** 63)
    # duration: months/days are int32, nanoseconds int64
    beyond64 = [2 ** 63, -2 ** 63 - 1, 2 ** 63 + big, -2 ** 63 - big, 2 ** 64, 2 ** 64 + rng.randint(0, 99), -2 ** 64, -2 ** 64 - rng.randint(1, 99),
                rng.choice([1, -1]) * (1 << rng.randint(64, 130))]
    for x in beyond64:
        s = 1 if x > 0 else -1
        for pos in range(3):
            comp = [s * rng.choice([0, 0, 1, 12]), s * rng.choice([0, 0, 1, 30]), s * rng.choice([0, 0, 1, 10 ** 9])]
            comp[pos] = x
            add('duration-beyond-int64', ('duration',), D(*comp), tuple(comp))
    for x in (2 ** 31, -2 ** 31 - 1, 2 ** 31 - 1 + big, -2 ** 31 - big, 2 ** 32, -2 ** 32, 2 ** 63 - 1, -2 ** 63):
        s = 1 if x > 0 else -1
        for pos in range(2):
            comp = [0, 0, s * rng.choice([0, 1, 10 ** 9])]
            comp[pos] = x
            add('duration-beyond-int32', ('duration',), D(*comp), tuple(comp), "duration-months-days-beyond-int32-encoded")
    add('extreme-in-range', ('duration',), D(2 ** 31 - 1, 2 ** 31 - 1, 2 ** 63 - 1), (2 ** 31 - 1, 2 ** 31 - 1, 2 ** 63 - 1))
    add('extreme-in-range', ('duration',), D(-2 ** 31, -2 ** 31, -2 ** 63), (-2 ** 31, -2 ** 31, -2 ** 63))
    # decimal: non-finite, scale outside int32
    for x in ('NaN', 'sNaN', '-NaN', 'Infinity', '-Infinity'):
        add('decimal-range', ('decimal',), decimal.Decimal(x), U(('decimal', x)))
    for e in (-2 ** 31 - 1, 2 ** 31 + 1, -2 ** 31 - min(big, 2 ** 40), 2 ** 31 + min(big, 2 ** 40), 2 ** 32, -2 ** 32, -2 ** 32 - 3):
        add('decimal-range', ('decimal',), decimal.Decimal((rng.randint(0, 1), (1, 2, 5), e)))
    add('extreme-in-range', ('decimal',), decimal.Decimal((0, (1, 2), 2 ** 31)))          # scale -2**31
    add('extreme-in-range', ('decimal',), decimal.Decimal((1, (7,), -2 ** 31 + 1)))       # scale 2**31-1
    # text kinds
    for x in ('caf\xe9', '\u20ac', '\x80', 'a\xffb', '\U0001F600'):
        add('ascii-range', ('ascii',), x, U(('ascii', ascii(x))))
    for x in ('\ud800', 'a\udfffb', '\udc80'):
        add('text-surrogate', (rng.choice(['text', 'varchar']),), x, U(('text', ascii(x))))
    # inet: not an address / wrong length
    for x in ('256.1.1.1', '1.2.3.4.5', '1.2.3.-4', '1::2::3', '12345::1', '1:2:3:4:5:6:7:8:9', 'g::1', '', '1.2.3.4/24', b'\x01\x02\x03',
              b'\x01\x02\x03\x04\x05', bytes(15), bytes(17)):
        add('inet-invalid', ('inet',), x, U(('inet', repr(x)[:40])))
    # uuid / timeuuid: not 16 bytes
    for k in ('uuid', 'timeuuid'):
        for x in ('12345678123456781234567812345678', '12345678-1234-5678-1234-56781234567', b'\x00' * 15, b'\x00' * 17, 1 << 128):
            add('uuid-invalid', (k,), x, U((k, repr(x)[:40])))
        for nb in (15, 17, 3, 0):
            add('uuid-invalid', (k,), G_AttrObj(bytes=b'\x07' * nb), U((k, 'object with %d-byte .bytes' % nb)), "uuid-duck-typed-bytes-wrong-length-encoded")
    # shapes: tuple / UDT with too many items, vector dimension mismatch, null vector element
    I, T = ('int',), ('text',)
    udt = ('udt', 'ks1', 'oor_u', (('a', I), ('b', T)))
    add('shape', ('tuple', I), (1, 2), U(('tuple<int>', '2 items')))
    add('shape', ('tuple', I, T), (1, 'a', 3), U(('tuple<int, text>', '3 items')))
    add('shape', udt, (1, 'a', 3), U(('oor_u', '3 items')), "udt-extra-fields-silently-dropped")
    for et, vals in ((I, [1, 2, 3, 4]), (T, ['a', 'b', 'c', 'd']), (('bigint',), [1, 2, 3, 4]), (('varint',), [1, 2, 3, 4])):
        dim = rng.randint(1, 3)
        for n in sorted({0, dim - 1, dim + 1, 4} - {dim}):
            add('vector-dimension', ('vector', et, dim), vals[:n], U(('vector<%s, %d>' % (et[0], dim), '%d elements' % n)))
        add('vector-dimension', ('vector', et, 2), [vals[0], None], U(('vector<%s, 2>' % et[0], 'null element')))
    return cases


def wrap_oor(rng, t, dv, v, pv):
    """The same out-of-range leaf inside a container (list / set / map key / map value / tuple / UDT / vector)."""
    from cassandra import util
    w = rng.choice(['list', 'set', 'mapkey', 'mapval', 'tuple', 'udt'] + (['vector'] if pv >= 3 else []))
    ft = ('frozen', t) if t[0] in ('list', 'set', 'map') else t
    if w == 'list':
        return ('list', ft), [dv], [v]
    if w == 'set':
        return ('set', ft), [dv], [v]
    if w == 'mapkey':
        try:
            m = {dv: 1}
        except TypeError:
            m = util.OrderedMap([(dv, 1)])
        return ('map', ft, ('int',)), m, [(v, 1)]
    if w == 'mapval':
        return ('map', ('int',), ft), {1: dv}, [(1, v)]
    if w == 'tuple':
        return ('tuple', ('int',), t), (1, dv), (1, v)
    if w == 'udt':
        return ('udt', 'ks1', 'oor_wrap', (('a', t), ('b', ('int',)))), (dv, 2), (v, 2)
    return ('vector', t, 2), [dv, dv], [v, v]


# classes of out_of_range_pool -> least number of evaluations per run (bare and nested each)
OOR_CLASS_FLOORS = {'int-width': 500, 'float-overflow': 100, 'date-range': 100, 'time-range': 80, 'timestamp-range': 100,
                    'duration-beyond-int64': 200, 'duration-beyond-int32': 100, 'decimal-range': 100, 'ascii-range': 50,
                    'text-surrogate': 30, 'inet-invalid': 100, 'uuid-invalid': 100, 'shape': 30, 'vector-dimension': 100}


def _short(x):
    r = repr(x)
    return r if len(r) <= 160 else r[:120] + "...(%d chars)" % len(r)


def _len(x):
    try:
        return len(x)
    except TypeError:
        return None


def G_AttrObj(**kw):
    from props import _cqlgen as G
    return G.AttrObj(**kw)


def run(ctx):
    from props import _cqlgen as G
    from spec import cqlcodec as S

    rng = ctx.rng
    G.ORDERED_SETS = True
    ctx.rule = ("C01 generator restricted to types the reference defines with certainty; case = (type, value, version); three monitors per "
                "case: driver bytes == reference bytes, driver decode of reference bytes == value; the same two monitors on length-field "
                "boundary collections (count / element size 127..65536) per protocol version; plus an out-of-range pool (per ranged type: "
                "just outside, far outside, wrap-around multiples, invalid lengths/shapes; bare and nested in list/set/map/tuple/UDT/vector; "
                "all versions) that must raise or encode the intended value, and last-in-range controls that must encode exactly. "
                "distinct by canonical repr; non-trivial = nested type or boundary scalar (varint/decimal/duration/date/time/timestamp)")
    n_self = S.selfcheck()
    ctx.count("spec_selfcheck_cases", n_self)
    def differential(t, v, pv, via_desc, nested, sample_p=0.01, flat=False, ref=None):
        """Monitors (1) and (2) for one (type, canonical value, version); True when both held."""
        try:
            ref = S.enc(t, v, pv) if ref is None else ref
        except S.Undefined:
            ctx.count("skipped_undefined")
            return None
        if flat:
            # tens of thousands of int/bool elements: same two monitors, compared without the per-element normaliser; anything but
            # an exact match falls through to the general path below, which classifies it and builds the witness
            try:
                dt = G.driver_type(t, via_descriptor=via_desc)
                if bytes(dt.serialize(G.flat_input(rng, t, v, ordered=True), pv)) == ref and G.flat_equal(t, v, dt.deserialize(ref, pv)):
                    ctx.count("bytes_compared", len(ref))
                    ctx.count("encodings_equal")
                    ctx.count("decodings_equal")
                    return True
            except Exception:
                pass
        back0 = S.dec(t, ref, pv)
        if G.canon_key(t, back0) != G.canon_key(t, v):
            from vlib.run import Inconclusive
            raise Inconclusive("reference codec does not round-trip %s %r" % (S.cql_name(t), repr(v)[:200]))
        dt = G.driver_type(t, via_descriptor=via_desc)
        dv = G.to_driver(rng, t, v)
        wit = {"type": S.cql_name(t), "pv": pv, "value": repr(v)[:400], "input": repr(dv)[:300], "reference_bytes": ref}
        # (1) encode: byte equality
        try:
            got = dt.serialize(dv, pv)
        except Exception as e:
            ctx.violation("serialize-raises", "serialize of %s v%d raised %s: %s" % (S.cql_name(t), pv, type(e).__name__, str(e)[:200]), wit)
            return False
        ctx.count("bytes_compared", len(ref))
        if bytes(got) != ref:
            wit["driver_bytes"] = bytes(got)
            ctx.violation("encoding-differs-from-reference", "%s v%d: driver wrote %s, Cassandra's serializer writes %s" % (
                S.cql_name(t), pv, bytes(got).hex()[:120], ref.hex()[:120]), wit)
            return False
        ctx.count("encodings_equal")
        # (2) decode of the Cassandra image
        try:
            res = dt.deserialize(ref, pv)
            back = G.from_driver(t, res)
        except G.MapItemsKeyError as e:
            if e.reencoding_differs and G.contains_kind(e.key_type, ('set', 'tuple', 'udt')):
                ctx.count("map_key_reencoding_keyerror_seen(C01 known finding)")
                return None
            ctx.violation("deserialize-raises", "deserialize of reference bytes for %s v%d raised %s" % (S.cql_name(t), pv, e), wit)
            return False
        except Exception as e:
            ctx.violation("deserialize-raises", "deserialize of reference bytes for %s v%d raised %s: %s" % (
                S.cql_name(t), pv, type(e).__name__, str(e)[:200]), wit)
            return False
        if G.canon_key(t, back) != G.canon_key(t, v):
            wit["decoded"] = repr(back)[:400]
            wit["len_value"], wit["len_decoded"] = _len(v), _len(back)
            ctx.violation("decoding-differs-from-reference", "%s v%d: bytes %s decode to %s, Cassandra means %s%s" % (
                S.cql_name(t), pv, ref.hex()[:100], _short(back), _short(v),
                "" if _len(v) == _len(back) else " [%s elements in the image, %s decoded]" % (_len(v), _len(back))), wit)
            return False
        ctx.count("decodings_equal")
        if nested and len(ctx.samples) < 6 and rng.random() < sample_p:
            ctx.sample({"type": S.cql_name(t), "pv": pv, "value": repr(v)[:200], "bytes": ref})
        return True

    # (0) length-field boundaries on every protocol version: collections / tuple+UDT fields / vectors whose element count or element
    # byte size is 127/128, 255/256, 32767/32768, 65535 (65536 for v3+).  Run first so a time-budget stop cannot skip them.
    def boundary(cls, label, bound, t, v, pv, flat=False):
        if S.contains_uncertain_vector(t):
            return
        ctx.case(repr(("boundary", label, pv)), nontrivial=True)
        ctx.count("boundary_%s_cases" % cls)
        if pv < 3 and bound >= 32768 and cls in ('count', 'elemsize'):
            ctx.count("boundary_v1v2_%s_ge_32768" % cls)
        if differential(t, v, pv, rng.random() < 0.3, True, sample_p=0.0, flat=flat):
            ctx.count("boundary_cases_equal")

    for pv in PVS:
        for cls, label, bound, t, v in G.boundary_cases(rng, pv, big_counts=0):
            boundary(cls, label, bound, t, v, pv)
    # counts on the [short] / beyond: per run one case >= 32768 on v1 and on v2, one on a v3+ version (the element-wise reference
    # codec makes these the expensive cases; C01 runs every kind on every run)
    for pv, counts in ((1, (32768, 65535)), (2, (32768, 65535)), (rng.choice(PVS[2:]), (32767, 32768, 65535, 65536))):
        kind, n = rng.choice(['list', 'set', 'map']), rng.choice(counts)
        t, v = G.count_case(rng, kind, n)
        boundary('count', '%s count=%d' % (S.cql_name(t), n), n, t, v, pv, flat=True)

    n = ctx.scale(60000, 1200000)
    budget = 45 if ctx.quick else 420
    interesting_scalars = ('varint', 'decimal', 'duration', 'date', 'time', 'timestamp', 'inet', 'float', 'double')
    for i in range(n):
        if i % 256 == 0 and ctx.time_left(budget) < 0:
            ctx.note("stopped by time budget after %d cases" % i)
            break
        pv = rng.choice(PVS)
        t = G.gen_type(rng, rng.choice([0, 0, 1, 1, 2, 2, 3, 4]), pv)
        if S.contains_uncertain_vector(t):
            ctx.count("skipped_uncertain_vector")
            continue
        v = G.gen_value(rng, t, pv)
        try:
            ref = S.enc(t, v, pv)
        except S.Undefined:
            ctx.count("skipped_undefined")
            continue
        nested = G.is_nested(t)
        ctx.case(repr((S.cql_name(t), G.canon_key(t, v), pv)), nontrivial=nested or t[0] in interesting_scalars)
        ctx.count("nested_cases" if nested else "scalar_cases")
        differential(t, v, pv, rng.random() < 0.3, nested, ref=ref)

    # (3) out of range: every class of the pool bare and inside a container, on every protocol version.  Oracle: the driver raises,
    # or the bytes it wrote are read by the reference decoder (strict: every byte consumed, every component inside its wire range)
    # as exactly the intended value.
    def judge(cls, t, dv, v, pv, mech_override):
        ctx.case(repr(("oor", cls, S.cql_name(t), repr(v)[:200], pv)), nontrivial=True)
        ctx.count("oor[%s]" % cls)
        control = cls == 'extreme-in-range'
        try:
            if callable(dv):
                dv = dv()
            got = bytes(G.driver_type(t).serialize(dv, pv))
        except Exception as e:
            if control:
                ctx.violation("in-range-extreme-rejected", "%s v%d: %r is the last value inside the range but serialize raised %s: %s" % (
                    S.cql_name(t), pv, v, type(e).__name__, str(e)[:120]), {"type": S.cql_name(t), "pv": pv, "value": repr(v)})
            else:
                ctx.count("out_of_range_rejected")
            return
        same = False
        try:
            spec_back = S.dec(t, got, pv)
            denotes = repr(spec_back)[:160]
        except Exception as e:
            denotes = "no value of the type (%s: %s)" % (type(e).__name__, str(e)[:80])
        else:
            try:
                same = G.canon_key(t, spec_back) == G.canon_key(t, v)
            except Exception:
                same = False        # the intended value is not a value of the type at all
            if same:
                # ... and it must be a value Cassandra's serializer can produce (the decoder reads any 8 bytes as a time)
                try:
                    S.enc(t, spec_back, pv)
                except S.SpecError as e:
                    same = False
                    denotes += " (outside the serializer's range: %s)" % e
                except S.Undefined:
                    pass
        if same:
            ctx.count("extreme_in_range_encoded_exactly" if control else "out_of_range_encoded_same_value")
            return
        mech = mech_override or ("in-range-extreme-encoded-as-other-value" if control else "out-of-range-value-encoded")
        what = "%s v%d: %s %r was encoded as %s, which denotes %s, instead of raising" % (
            S.cql_name(t), pv, "in-range" if control else "out-of-range", v, got.hex()[:80], denotes)
        if mech in UNDECIDED:
            ctx.count("not_judged[%s]" % mech)
            if mech not in undecided_seen:
                undecided_seen.add(mech)
                ctx.assume("not judged: %s - %s" % (mech, UNDECIDED[mech]))
            return
        ctx.violation(mech, what, {"class": cls, "type": S.cql_name(t), "pv": pv, "input": repr(dv)[:300], "intended": repr(v)[:300],
                                   "bytes": got, "bytes_denote": denotes})

    undecided_seen = set()
    for rep in range(ctx.scale(12, 168)):
        for cls, t, dv, v, mech in out_of_range_pool(rng):
            pv = rng.choice(PVS)
            judge(cls, t, dv, v, pv, mech)
            pv = rng.choice(PVS)
            if callable(dv):
                try:
                    dv = dv()
                except Exception:
                    continue          # the driver's own value class refuses the number (counted above as rejected)
            for _ in range(4):
                wt, wdv, wv = wrap_oor(rng, t, dv, v, pv)
                if rng.random() < 0.25:
                    wt, wdv, wv = wrap_oor(rng, wt, wdv, wv, pv)
                if not (cls == 'extreme-in-range' and S.contains_uncertain_vector(wt)):
                    break
            else:
                continue
            judge(cls if cls == 'extreme-in-range' else cls + ' nested', wt, wdv, wv, pv, mech)
    # v1/v2 width limits: a count or an element beyond the [short]
    for pv in (1, 2):
        big_blob = b'x' * rng.choice([65536, 65537, 70000, 131072])
        nbig = rng.choice([65536, 65537, 70000])
        for t, dv in [(('list', ('int',)), list(range(nbig))), (('set', ('int',)), list(range(nbig))),
                      (('map', ('int',), ('tinyint',)), dict.fromkeys(range(nbig), 1)),
                      (('list', ('blob',)), [b'a', big_blob]), (('set', ('text',)), ['a', 'y' * len(big_blob)]),
                      (('map', ('blob',), ('int',)), {b'k': 1, big_blob: 2}), (('map', ('int',), ('blob',)), {1: b'v', 2: big_blob})]:
            ctx.case(repr(("oor-v2", S.cql_name(t), pv)), nontrivial=True)
            ctx.count("oor[v1v2-short-overflow]")
            try:
                got = G.driver_type(t).serialize(dv, pv)
            except Exception:
                ctx.count("out_of_range_rejected")
                continue
            ctx.violation("v2-collection-width-overflow-encoded", "%s at v%d with an element/count beyond 65535 was encoded" % (S.cql_name(t), pv),
                          {"type": S.cql_name(t), "pv": pv, "bytes": bytes(got)[:64]})
    ctx.floor_distinct = 5000 if ctx.quick else 100000
    ctx.floor_counters = {"encodings_equal": 5000, "decodings_equal": 5000, "out_of_range_rejected": 2000, "nested_cases": 3000,
                          # every out-of-range class, bare and nested (12 pool passes per quick process)
                          "extreme_in_range_encoded_exactly": 300, "oor[v1v2-short-overflow]": 14,
                          # length-field boundaries
                          "boundary_count_cases": 90, "boundary_elemsize_cases": 220, "boundary_field_cases": 60,
                          "boundary_vector_cases": 60, "boundary_v1v2_count_ge_32768": 2, "boundary_v1v2_elemsize_ge_32768": 16,
                          "boundary_cases_equal": 420}
    for cls, lo in OOR_CLASS_FLOORS.items():
        ctx.floor_counters["oor[%s]" % cls] = lo
        ctx.floor_counters["oor[%s nested]" % cls] = lo
