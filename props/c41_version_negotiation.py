"""C41 - protocol version negotiation only steps down and terminates.

Monitor: the real Cluster.connect() (ControlConnection._try_connect loop, Cluster.protocol_downgrade,
ProtocolVersion.get_lower_supported, Connection.factory) runs in the deterministic world against
scripted wire-level nodes that support an arbitrary subset of {1..6, DSE_V1, DSE_V2} and reject
every other version the way Cassandra does (ERROR 0x000A "unsupported protocol version" framed
in the server's own highest version; the beta-flag error for a version of the server's own beta set - {6}
for Cassandra 4.x, {5} for Cassandra 3.10/3.11 - used without USE_BETA).  The sequence
of versions of the connection attempts is read off the frames arriving at the node and compared
with an independent reference walk.
"""
import random

PROPERTY = "C41"
LEVEL = "exploration"
ENGINE = "sim"
TECHNIQUE = "runtime monitor in a deterministic world: versions of the frames seen by scripted nodes vs an independent reference walk, exhaustive over server version sets"
LEVEL_TEXT = ("Every (server version set in 2^{1,2,3,4,5,6,0x41,0x42}) x (server-side beta set in 2^{5,6}) x (start version) x (explicit | implicit "
              "configuration) = 16384 single-node histories is run on the thorough tier (and the same space again with allow_beta_protocol_version "
              "as the budget permits); the quick tier runs a seeded sample of that space, "
              "plus seeded two-node histories with independent version sets: attempt versions strictly decrease, skip beta versions, equal "
              "the reference walk, an explicit version is never changed, the number of attempts is bounded by the number of versions, and "
              "the outcome (session at the reference version / NoHostAvailable) matches. Exhaustive over the stated finite space.")
LEVEL_NOTE = ("Two thirds of the histories run with seeded preemption (p 0.2 / 0.5) at the world's yield points, Event.set included, so that the "
              "thread blocked in Connection.factory can run between the reactor's connected_event.set() and whatever the reactor does next. "
              "Trusted base: sim/world.py, sim/node.py + sim/s5_handshake.py (version rejection, beta error, v5 segment framing via "
              "spec/segments.py), spec/frames.py. The server dialect is Cassandra's (error text contains 'unsupported protocol version', "
              "answer framed in the server's highest version); other dialects are not modelled. 'Implicit with start X' is a Cluster built "
              "without protocol_version whose public attribute protocol_version is then set to X (X = DSE_V2 is the untouched default).")
QUICK_WORKERS = 4
WORKERS = 14

ALL = (0x42, 0x41, 6, 5, 4, 3, 2, 1)      # the versions this driver release speaks, high to low (cross-checked against the driver at start)
BETA = (6,)
ATTEMPT_CAP = 3 * len(ALL)


def next_lower(v):
    c = [x for x in ALL if x < v and x not in BETA]
    return max(c) if c else None


def reference(start, explicit, allow_beta, hosts, betas):
    """hosts / betas: per host, in the order the driver tries them, the versions the server speaks and the subset of them it only
    speaks with the USE_BETA flag.  Returns (attempts [(host index, version)], final version | None).
    A version is refused either as unsupported or - supported but beta and the client does not set USE_BETA - with the beta error;
    an implicitly configured client answers both by trying the next lower version that is not beta *for the client*."""
    seq = []
    v = start
    for hi, S in enumerate(hosts):
        while True:
            seq.append((hi, v))
            if v in S and (v not in betas[hi] or allow_beta):
                return seq, v
            if explicit:
                break
            lo = next_lower(v)
            if lo is None:
                break
            v = lo
    return seq, None


def run_history(case, seed):
    from sim.env import SimEnv
    from sim import world as W
    from sim import s5_handshake as H
    import cassandra
    import cassandra.cluster as CC
    from cassandra.connection import ConnectionException
    from cassandra.protocol import ErrorMessage
    sets, start, explicit, allow_beta, p_preempt, betas = case
    random.seed(seed)
    ch = W.RandomChooser(random.Random(seed), p_time=0.0, p_preempt=p_preempt)
    addrs = ['127.0.0.%d' % (i + 1) for i in range(len(sets))]
    env = SimEnv(ch, addresses=addrs, max_steps=120000)
    H.upgrade(env)
    attempts = []          # (address, conn id, version) of every OPTIONS arriving anywhere
    counters = {'beta_errors': 0, 'rejections': 0}

    def observer(node, cstate, req):
        if req['op'] == 'OPTIONS':
            attempts.append((node.address, cstate.conn.sim_id, req['version']))
            if len(attempts) > ATTEMPT_CAP * len(sets):
                for n in env.net.nodes.values():
                    n.up = False           # stop a runaway negotiation: further connection attempts are refused
        if req['version'] not in node.supported_versions:
            counters['rejections'] += 1
        elif req['version'] in node.beta_versions and not req['beta']:
            counters['beta_errors'] += 1
    for a, S, Bs in zip(addrs, sets, betas):
        n = env.net.nodes[a]
        n.supported_versions = set(S)
        n.beta_versions = set(Bs)
        n.observer = observer
    viol = []
    with env:
        kw = {'allow_beta_protocol_version': True} if allow_beta else {}
        cluster = env.cluster(contact_points=addrs, protocol_version=start if explicit else CC._NOT_SET, **kw)
        if not explicit and start != ALL[0]:
            cluster.protocol_version = start
        if cluster._protocol_version_explicit != explicit or cluster.protocol_version != start:
            raise RuntimeError("harness: cluster not configured as intended")
        try:
            session = cluster.connect()
            outcome = ('connected', cluster.protocol_version)
        except (W.WorldLimit, W.WorldHang):
            raise
        except Exception as e:            # noqa
            session = None
            outcome = ('error', e)
        env.world.settle(advance=True, until=env.world.now + 0.5)
        env.world.preempt = False
        conns = env.net.conns
        control = [c for c in conns if c.sim_creator == 'control']
        first_version = {}
        for r in env.net.wire_log:
            first_version.setdefault(r['_conn'], r['version'])
        order = []
        for c in control:
            a = str(c.endpoint.address)
            if a not in order:
                order.append(a)
        seq_obs = [(order.index(str(c.endpoint.address)), first_version.get(c.sim_id)) for c in control if c.sim_id in first_version]
        hosts = [set(sets[addrs.index(a)]) for a in order]
        seq_ref, final_ref = reference(start, explicit, allow_beta, hosts, [set(betas[addrs.index(a)]) for a in order])
        # if the reference connects at host k the hosts after k are never tried: the driver's order beyond what was observed is irrelevant
        vs = [v for _, v in seq_obs]
        info = {'sets': [sorted(s) for s in sets], 'server_beta': [sorted(b) for b in betas], 'start': start, 'explicit': explicit, 'allow_beta': allow_beta, 'seed': seed,
                'observed': seq_obs, 'reference': seq_ref, 'outcome': (outcome[0], repr(outcome[1])[:200]), 'host_order': order}
        if len(attempts) > ATTEMPT_CAP * len(sets) or len(vs) > len(ALL) * len(sets):
            viol.append(('negotiation-does-not-terminate', '%d connection attempts for %d known versions (versions %r ...)' % (len(attempts), len(ALL), vs[:12])))
        else:
            if any(b > a for a, b in zip(vs, vs[1:])):
                viol.append(('version-stepped-up', 'attempt versions %r' % (vs,)))
            per_host = {}
            for h, v in seq_obs:
                per_host.setdefault(h, []).append(v)
            if any(any(b >= a for a, b in zip(l, l[1:])) for l in per_host.values()) and not any(b > a for a, b in zip(vs, vs[1:])):
                viol.append(('version-not-strictly-decreasing', 'attempt versions per host %r' % (per_host,)))
            if any(v in BETA for v in vs[1:] if v != start):
                viol.append(('beta-version-tried-on-downgrade', 'attempt versions %r' % (vs,)))
            if explicit and any(v != start for v in vs):
                viol.append(('explicit-version-downgraded', 'configured %d, attempts %r' % (start, vs)))
            if not viol and seq_obs != seq_ref:
                viol.append(('version-walk-differs-from-reference', 'observed %r, reference %r' % (seq_obs, seq_ref)))
        # outcome
        if outcome[0] == 'connected':
            if final_ref is None:
                viol.append(('connected-although-every-version-was-rejected', 'session at version %r' % (outcome[1],)))
            elif outcome[1] != final_ref and not viol:
                viol.append(('negotiated-version-differs', 'cluster.protocol_version %r, reference %r' % (outcome[1], final_ref)))
            bad = [(r['_conn'], r['op'], r['version']) for r in env.net.wire_log
                   if conns[r['_conn']].sim_creator != 'control' and r['version'] != outcome[1]]
            if bad:
                viol.append(('later-connection-uses-another-version', 'negotiated %r but %r' % (outcome[1], bad[:4])))
            if explicit and outcome[1] != start:
                viol.append(('explicit-version-downgraded', 'configured %d, session at %r' % (start, outcome[1])))
        else:
            e = outcome[1]
            if final_ref is not None and not viol:
                viol.append(('connect-fails-although-a-version-is-acceptable', 'reference connects at %d but connect raised %r' % (final_ref, e)))
            ok = isinstance(e, (CC.NoHostAvailable, cassandra.DriverException, ConnectionException))
            inner = list(getattr(e, 'errors', {}).values()) if isinstance(getattr(e, 'errors', None), dict) else []
            ok_inner = all(isinstance(x, (cassandra.DriverException, ConnectionException, ErrorMessage, OSError)) for x in inner)
            if not (ok and ok_inner) and not viol:
                viol.append(('unexpected-exception-class', 'connect raised %r (inner %r)' % (e, inner)))
            if not cluster.is_shutdown:
                viol.append(('failed-connect-leaves-cluster-running', 'connect raised %r but the cluster is not shut down' % (e,)))
        st = [r['version'] for r in env.net.wire_log if r['op'] == 'STARTUP']
        if any(v != (outcome[1] if outcome[0] == 'connected' else None) for v in st) and not viol:
            viol.append(('startup-sent-at-rejected-version', 'STARTUP versions %r, outcome %r' % (st, info['outcome'])))
        harness = list(env.world.errors) + [('parse', p) for p in env.net.parse_failures] + [('framing', p) for p in env.net.framing_errors]
        info['attempts'] = len(attempts)
        info['rejections'] = counters['rejections']
        info['beta_errors'] = counters['beta_errors']
        info['segments'] = sum(cs.segments_seen for cs in env.net.cstates.values())
        try:
            cluster.shutdown()
            env.world.settle(advance=True, until=env.world.now + 0.5)
        except (W.WorldLimit, W.WorldHang):
            pass
    return viol, harness, info


def run(ctx):
    from vlib import shim
    shim.import_cluster()
    from vlib.run import Inconclusive
    from sim.world import WorldLimit, WorldHang
    from cassandra import ProtocolVersion
    import cassandra.cluster as CC
    import sim.env, sim.scen          # noqa
    from sim import s5_handshake as H
    run_history(((frozenset([4]),), 4, True, False, 0.0, (frozenset([6]),)), 1)      # warm-up: everything imported lazily is loaded now
    if tuple(sorted(ProtocolVersion.SUPPORTED_VERSIONS, reverse=True)) != ALL or tuple(ProtocolVersion.BETA_VERSIONS) != BETA:
        raise Inconclusive("the driver's version tables changed (%r beta %r): the reference walk of this monitor must be revisited" % (
            ProtocolVersion.SUPPORTED_VERSIONS, ProtocolVersion.BETA_VERSIONS))
    if CC.Cluster.protocol_version != ALL[0]:
        raise Inconclusive("default Cluster.protocol_version is %r, expected %r" % (CC.Cluster.protocol_version, ALL[0]))
    ctx.rule = ("a case = (version set and beta set per node, start version, explicit|implicit, allow_beta); single-node cases are enumerated completely (thorough) / sampled by a seeded shuffle (quick), "
                "two-node cases are seeded samples; distinct by that tuple; every case is non-trivial (at least one connection attempt is observed)")
    ctx.assume("a server rejects a version with ERROR 0x000A whose text contains 'unsupported protocol version', framed in the highest version it supports "
               "(Cassandra's dialect); v6 without USE_BETA is answered with Cassandra's 'USE_BETA flag is unset' error")
    ctx.assume("implicit configuration with a start version other than the default is a Cluster built without protocol_version whose public "
               "attribute protocol_version is assigned afterwards (the state an interrupted negotiation leaves behind)")
    nw = max(1, ctx.nworkers)
    w = ctx.worker or 0

    SERVER_BETA = (frozenset(), frozenset([5]), frozenset([6]), frozenset([5, 6]))     # {6}: Cassandra 4.x, {5}: Cassandra 3.10/3.11

    def single(i, beta):
        S = frozenset(v for k, v in enumerate(ALL) if (i >> k) & 1)
        return ((S,), ALL[(i >> 8) & 7], bool((i >> 11) & 1), beta, 0.0, (SERVER_BETA[(i >> 12) & 3],))
    primary = [single(i, False) for i in range(16384)]
    secondary = [single(i, True) for i in range(16384)]
    order_rng = random.Random(ctx.seed)
    order_rng.shuffle(primary)
    order_rng.shuffle(secondary)
    H.settle_heap()           # after the case lists exist: SimEnv's per-world gc.collect() must not rescan them every time
    # the amount of work is fixed by counts (deterministic); the wall-clock cap only guards against a badly overloaded machine
    import time
    wall0 = time.time()
    wall_cap = 75.0 if ctx.quick else 840.0
    n_primary = 650 if ctx.quick else len(primary)        # per worker on quick (4 workers: 2600 of the 16384 cases, ~18 ms CPU each)
    n_secondary = 60 if ctx.quick else len(secondary)

    def left(share):
        return wall_cap * share - (time.time() - wall0)
    done_primary = done_secondary = True

    def one(case, seed):
        try:
            viol, harness, info = run_history(case, seed)
        except WorldLimit:
            ctx.count("histories_over_budget")
            return False
        except WorldHang as e:
            ctx.violation("connect-hangs", "Cluster.connect() blocked forever: %s" % e, {"case": repr(case), "seed": seed})
            return True
        except Exception as e:        # noqa
            raise Inconclusive("history %r seed %d failed in the harness: %s: %s" % (case, seed, type(e).__name__, e))
        ctx.case(repr(([sorted(s) for s in case[0]], [sorted(b) for b in case[5]], case[1], case[2], case[3])))
        ctx.count("histories")
        ctx.count("connection_attempts_observed", info['attempts'])
        ctx.count("versions_rejected_by_node", info['rejections'])
        ctx.count("beta_flag_errors_sent", info['beta_errors'])
        ctx.count("downgrade_steps", max(0, len(info['observed']) - 1))
        ctx.count("connects_succeeded" if info['outcome'][0] == 'connected' else "connects_failed")
        if info['explicit'] and info['outcome'][0] == 'error':
            ctx.count("explicit_version_rejected_and_kept")
        if info['segments']:
            ctx.count("histories_connected_with_v5_segment_framing")
        if len(case[0]) > 1:
            ctx.count("two_node_histories")
        if harness and not viol:
            raise Inconclusive("harness error in history %r seed %d: %r" % (case, seed, harness[:2]))
        seen = set()
        for mech, what in viol:
            if mech in seen:
                continue
            seen.add(mech)
            ctx.violation(mech, "%s [sets %r server-beta %r start %d %s%s]" % (what, info['sets'], info['server_beta'], info['start'],
                                                                                'explicit' if info['explicit'] else 'implicit',
                                                                                ' allow_beta' if info['allow_beta'] else ''), info)
        if not viol and len(ctx.samples) < 5 and len(info['observed']) >= 3 and random.Random(seed).random() < 0.05:
            ctx.sample(info)
        return True

    mine = primary[w::nw][:n_primary]
    quick = ctx.quick
    for k, case in enumerate(mine):
        if left(0.8 if quick else 1.0) < 0 and k >= 50:
            done_primary = False
            if not quick:
                ctx.note("primary space stopped by the budget after %d of %d cases of this worker" % (k, len(mine)))
            break
        # two thirds of the histories run with preemption at the world's yield points (lock acquisitions, Event.set, pushes, submits):
        # the thread waiting in Connection.factory may be scheduled right after the reactor thread set connected_event
        pp = (0.0, 0.2, 0.5)[k % 3]
        one(case[:4] + (pp,) + case[5:], ctx.seed * 7919 + k)
        if pp:
            ctx.count("histories_with_preemption_during_the_handshake")
        if case[5][0] and 5 in case[5][0]:
            ctx.count("histories_with_server_side_beta_v5")
    # two-node histories and the allow_beta copy of the space
    rng = ctx.rng
    n2 = ctx.scale(15, 6000)
    for k in range(n2):
        if left(0.9 if quick else 1.0) < 0:
            break
        sets = tuple(frozenset(v for v in ALL if rng.random() < rng.choice([0.15, 0.4, 0.7])) for _ in range(2))
        case = (sets, rng.choice(ALL), rng.random() < 0.35, rng.random() < 0.3, rng.choice([0.0, 0.0, 0.1]),
                tuple(rng.choice(SERVER_BETA) for _ in range(2)))
        one(case, ctx.seed * 104729 + w * 1000003 + k)
    mine2 = secondary[w::nw][:n_secondary]
    for k, case in enumerate(mine2):
        if left(1.0) < 0:
            done_secondary = False
            break
        one(case, ctx.seed * 7919 + 50000 + k)
    if not quick and done_primary and done_secondary:
        # part of the primary space once more under preemptive interleavings of main / reactor / executor threads (same cases, other schedules)
        for k, case in enumerate(mine[:400]):
            if left(1.0) < 0:
                break
            one(case[:4] + (0.2,) + case[5:], ctx.seed * 7919 + 90000 + k)
            ctx.count("histories_rerun_with_preemption")
    if quick:
        ctx.exhaustive = False          # quick samples the 16384-case space (seeded shuffle); the thorough tier enumerates it
    else:
        ctx.exhaustive = bool(done_primary and ctx.counters.get("histories_over_budget", 0) == 0)
    if done_primary and done_secondary:
        ctx.note("allow_beta copy of the space completed by this worker")
    # floors: well below the fixed amount of work (quick 725 histories per worker); thorough = the whole primary space
    ctx.floor_distinct = 500 if quick else 16384
    k = 1 if quick else 16
    ctx.floor_counters = {"histories": 500 * k, "downgrade_steps": 200 * k, "connects_succeeded": 150 * k, "connects_failed": 100 * k,
                          "explicit_version_rejected_and_kept": 50 * k, "beta_flag_errors_sent": 20 * k,
                          "histories_connected_with_v5_segment_framing": 10 * k, "histories_with_server_side_beta_v5": 100 * k,
                          "histories_with_preemption_during_the_handshake": 250 * k}
