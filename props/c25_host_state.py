"""C25 - host state changes keep a single reconnector and notify listeners once.

Monitor: the real Cluster / Session / ControlConnection stack runs in the deterministic world over
<= 3 scripted nodes with 0-2 sessions, a recording HostStateListener and a recording load-balancing
policy.  A history is a random sequence of: a pool connection reset with a request in flight, a node
crashing / coming back, STATUS_CHANGE and TOPOLOGY_CHANGE events pushed by the control node (true or
spurious), peers hidden from / shown in system.peers followed by a refresh, a pool connection that
fails while on_up builds the pool, and virtual time passing (ConstantReconnectionPolicy(1.0)).

Observed without source hooks: reconnection handlers are the `__self__` of callables scheduled on
cluster.scheduler (SimScheduler: .scheduled log, .pending timers) and connections whose creating
stack contains try_reconnect; notifications come from the recording listener / policy; pools from
session._pools.

Oracle at every quiescent point: a host that is down and still a member has exactly one live
(uncancelled, scheduled) handler - none once its schedule is exhausted in the max_attempts=2
variant - and never two; a removed host has none and is not reconnected; no listener / policy is told
on_up twice without an on_down in between.  At the final quiescence (all nodes healthy, ample time):
every member host is up, what each listener was last told agrees with host.is_up, and every up host
has a pool that is not shut down in every session.
"""
import random

PROPERTY = "C25"
LEVEL = "exploration"
ENGINE = "sim"
TECHNIQUE = "runtime monitor in a deterministic world: random host-state histories, scheduler/listener/pool observation at quiescent points"
LEVEL_TEXT = ("Hundreds (quick) to tens of thousands (thorough) of seeded histories of 4-14 events over 2-3 nodes, 0-2 sessions, protocol v4/v2, "
              "two reconnection-schedule variants and seeded schedules: single live reconnector per down host, none for removed hosts, no repeated "
              "on_up, and at the final quiescence agreement between host.is_up, the listeners' last notification and the sessions' pools. "
              "Held-on-observed histories.")
LEVEL_NOTE = ("Trusted base: sim/world.py, sim/node.py, spec/frames.py. A 'live' handler is one whose run() is pending on the SimScheduler and whose "
              "_cancelled flag is unset, read at quiescent points only (nothing runnable without advancing time). Whether a down event should have "
              "been discounted is not judged. Hosts are at distance IGNORED only through the liveness-dependent DCAware variant (a remote-datacenter host that is down); no reconnection series and no pool is demanded for them.")
QUICK_WORKERS = 4
WORKERS = 14

K_ITEM31 = "on-up-without-pool-futures-marks-host-up-without-notifying-listeners"
K_DISCOUNT = "pool-shut-down-by-own-failure-stays-after-discounted-down-event"
K_STALE_COUNT = "hostconnectionpool-open-count-still-counts-defunct-connection-down-event-discounted"
K_ONUP_RACE = "on-up-completion-callback-races-with-futures-set-duplicate-on-up"
K_REMOVED_RESTART = "on-up-or-on-down-for-a-removed-host-starts-a-reconnector"
K_STRAY = "on-down-overtaken-by-on-up-leaves-reconnector-next-down-is-silent"
K_ADD_PARTIAL = "partial-pool-failure-in-on-add-discounted-host-left-down-without-reconnector"
K_UNKNOWN_DOWN = "host-of-unknown-state-marked-down-without-reconnector"
K_ORPHAN = "reconnection-handler-completion-clears-the-slot-of-a-newer-handler-two-series"
K_STALE_CLEANUP = "failed-on-up-of-a-removed-host-object-tears-down-the-readded-host-of-the-same-address"
K_ONUP_OVERLAP = "on-up-past-its-membership-test-continues-after-a-concurrent-removal"
K_READD_FAIL = "on-add-repeated-by-host-addition-reconnector-fails-host-left-down-without-reconnector"
K_ONUP_STUCK = "on-up-completion-callback-races-with-futures-set-host-never-marked-up"


class PriorityChooser(object):
    """Seeded priority scheduling: among the runnable threads the one with the highest (random) priority continues; time never advances
    while something can run; priorities are re-drawn by reshuffle()."""
    def __init__(self, rng, p_preempt=0.5):
        self.rng = rng
        self.p_preempt = p_preempt
        self.prio = {}
        self.log = []

    def reshuffle(self):
        for k in list(self.prio):
            self.prio[k] = self.rng.random()

    def choose(self, kind, options):
        if len(options) == 1:
            i = 0
        elif kind == 'run':
            cands = [o for o in options if o != '<time>']
            for o in cands:
                if o not in self.prio:
                    self.prio[o] = self.rng.random()
            i = options.index(max(cands, key=lambda o: self.prio[o]))
        else:
            i = self.rng.randrange(len(options))
        self.log.append(i)
        return i

    def flip(self, kind, p=None):
        r = self.rng.random() < (self.p_preempt if p is None else p)
        self.log.append(1 if r else 0)
        return r


def run_history(seed):
    from sim.env import SimEnv
    from sim import world as W
    from sim.scen import uid_query, uid_of, ECHO_COLS
    from sim.node import ip_bytes
    from spec import frames as F
    from cassandra.cluster import (ExecutionProfile, EXEC_PROFILE_DEFAULT, GraphExecutionProfile, GraphAnalyticsExecutionProfile,
                                   EXEC_PROFILE_GRAPH_DEFAULT, EXEC_PROFILE_GRAPH_SYSTEM_DEFAULT, EXEC_PROFILE_GRAPH_ANALYTICS_DEFAULT)
    from cassandra.policies import (RoundRobinPolicy, DCAwareRoundRobinPolicy, ConstantReconnectionPolicy, HostStateListener, HostDistance,
                                    FallthroughRetryPolicy)
    from cassandra.pool import _HostReconnectionHandler

    rng = random.Random(seed)
    random.seed(seed)
    n_nodes = rng.choice([2, 3, 3])
    family = rng.choices(['random', 'midconnect', 'updown', 'readd', 'newhost'], [40, 16, 20, 12, 12])[0]
    n_sessions = rng.choice([0, 1, 1, 2, 2, 3])
    if family == 'updown':
        n_sessions = rng.choice([2, 2, 3])
    if family == 'readd':
        n_sessions = rng.choice([1, 1, 2])
    if family == 'newhost':
        n_sessions = rng.choice([1, 1, 2, 3])
    proto = rng.choice([4, 4, 3, 2])
    max_attempts = rng.choice([None, None, None, 2])
    n_events = rng.randint(4, 14)
    addrs = ['127.0.0.%d' % (i + 1) for i in range(n_nodes)]
    if family == 'updown' or rng.random() < 0.25:
        # priority schedules (PCT style): the runnable thread of highest priority runs, priorities are re-drawn at every event of the
        # history - one thread is regularly starved while another runs a whole task to its end
        ch = PriorityChooser(random.Random(seed * 17 + 1), p_preempt=rng.choice([0.3, 0.6, 1.0]))
    else:
        ch = W.RandomChooser(random.Random(seed * 17 + 1), p_time=0.0, p_preempt=rng.choice([0.0, 0.1, 0.3]))
    # a liveness-dependent policy in ~30 % of the histories: the last node sits in a second datacenter and DCAwareRoundRobinPolicy with a remote
    # quota of one reports it as REMOTE while the policy believes it is up and as IGNORED while it is down (no reconnector then: such a host
    # comes back through STATUS_CHANGE UP)
    dcaware = rng.random() < 0.3
    env = SimEnv(ch, addresses=addrs, dcs=(['dc1'] * (n_nodes - 1) + ['dc2']) if dcaware else None, max_virtual_time=3000.0)
    w = env.world
    plan = {}
    hold_pool = {}                   # address -> number of pool-init connections whose SUPPORTED is still to be kept back
    hold_reconn = {}                 # address -> number of reconnector connections whose SUPPORTED is still to be kept back
    fail_pool = {}                   # address -> number of pool-init connections still to be reset at STARTUP
    notes = []                       # (t, who, what, address)   who = 'listener' | 'policy'
    viol = []
    info = {'seed': seed, 'family': family, 'nodes': n_nodes, 'sessions': n_sessions, 'proto': proto, 'max_attempts': max_attempts, 'events': [], 'policy': 'dcaware' if dcaware else 'roundrobin'}

    def behaviour(node, cstate, req):
        a = node.address
        if req['op'] == 'OPTIONS' and hold_pool.get(a, 0) > 0 and cstate.conn.sim_creator == 'pool-init':
            # a pool that on_up / on_add is building: connected at the node, handshake answer kept back (the scenario later resets the connection)
            hold_pool[a] -= 1
            counters['pool_connections_held_mid_connect'] += 1
            r = node.default_reaction(cstate, req)
            return ('hold', r[1])
        if req['op'] == 'OPTIONS' and hold_reconn.get(a, 0) > 0 and cstate.conn.sim_creator == 'reconnector':
            # the reconnection attempt is connected at the node, its handshake answer is kept back until the scenario releases it
            hold_reconn[a] -= 1
            counters['reconnection_attempts_held_mid_connect'] += 1
            r = node.default_reaction(cstate, req)
            return ('hold', r[1])
        if req['op'] == 'STARTUP' and fail_pool.get(a, 0) > 0 and cstate.conn.sim_creator == 'pool-init':
            fail_pool[a] -= 1
            return ('reset',)
        if req['op'] != 'QUERY':
            return None
        uid = uid_of(req['query'])
        if uid is None:
            return None
        act = plan.get(uid, 'rows')
        if act == 'hold':
            r = node.rows(cstate, req, ECHO_COLS, [[uid, a]], 'ks', 't')
            return ('hold', r[1])
        if act == 'reset':
            return ('reset',)
        return node.rows(cstate, req, ECHO_COLS, [[uid, a]], 'ks', 't')

    for nd in env.net.nodes.values():
        nd.behaviour = behaviour

    class Listener(HostStateListener):
        def on_up(self, host):
            notes.append((w.now, 'listener', 'up', host.endpoint.address, id(host)))

        def on_down(self, host):
            notes.append((w.now, 'listener', 'down', host.endpoint.address, id(host)))

        def on_add(self, host):
            notes.append((w.now, 'listener', 'add', host.endpoint.address, id(host)))

        def on_remove(self, host):
            notes.append((w.now, 'listener', 'remove', host.endpoint.address, id(host)))
            removed_at_log_index[id(host)] = len(sched_log())
            removed_conn_mark[id(host)] = len(env.net.conns)

    def recording(base):
        class RecordingPolicy(base):
            _nested = 0          # DCAwareRoundRobinPolicy.on_add / on_remove call self.on_up / self.on_down: one notification from the cluster, one note

            def on_up(self, host):
                if not self._nested:
                    notes.append((w.now, 'policy', 'up', host.endpoint.address, id(host)))
                return base.on_up(self, host)

            def on_down(self, host):
                if not self._nested:
                    notes.append((w.now, 'policy', 'down', host.endpoint.address, id(host)))
                return base.on_down(self, host)

            def on_add(self, host):
                notes.append((w.now, 'policy', 'add', host.endpoint.address, id(host)))
                added_conn_mark.setdefault(id(host), len(env.net.conns))      # connections created from here on belong to this host object
                added_order.append((host.endpoint.address, id(host), len(env.net.conns)))
                self._nested += 1
                try:
                    return base.on_add(self, host)
                finally:
                    self._nested -= 1

            def on_remove(self, host):
                notes.append((w.now, 'policy', 'remove', host.endpoint.address, id(host)))
                self._nested += 1
                try:
                    return base.on_remove(self, host)
                finally:
                    self._nested -= 1
        return RecordingPolicy

    removed_at_log_index = {}        # id(host) -> length of cluster.scheduler.scheduled when listeners were told on_remove
    removed_conn_mark = {}           # id(host) -> number of connections that existed when listeners were told on_remove(host)
    added_order = []                 # (address, id(host), connections that existed) per policy on_add, in order
    added_conn_mark = {}             # id(host) -> number of connections that existed when the policy was told on_add(host)
    seen_unknown = set()             # ids of host objects last seen with is_up None at a quiescent point (never marked up since)
    stray_seen = {}                  # id(host) -> first time a live handler was seen although the host was marked up
    cluster_box = []

    def sched_log():
        return cluster_box[0].scheduler.scheduled if cluster_box else []

    def handler_started_after_removal(hid):
        """Was a reconnection handler for this (removed) host object first scheduled after its on_remove?"""
        idx = removed_at_log_index.get(hid)
        if idx is None:
            return None
        first = {}
        for i, x in enumerate(sched_log()):
            h = getattr(x[1], '__self__', None)
            if isinstance(h, _HostReconnectionHandler) and id(h.host) == hid and id(h) not in first:
                first[id(h)] = i
        return any(i >= idx for i in first.values())

    def last_handler_addition(hid):
        last = None
        for x in sched_log():
            h = getattr(x[1], '__self__', None)
            if isinstance(h, _HostReconnectionHandler) and id(h.host) == hid:
                last = h
        return None if last is None else bool(last.is_host_addition)

    uids = iter(range(1, 100000))
    counters = {'quiescent_checks': 0, 'down_host_checks': 0, 'handlers_seen': 0, 'reconnector_conns': 0, 'removals_observed': 0, 'down_hosts_at_distance_ignored': 0, 'ignored_hosts_brought_back_by_status_up': 0, 'final_pools_of_remote_dc_hosts': 0, 'reconnection_attempts_held_mid_connect': 0, 'pool_connections_held_mid_connect': 0, 'same_address_added_again_as_new_host_object': 0, 'removals_while_an_attempt_was_mid_connect': 0, 'on_up_with_2plus_sessions': 0,
                'final_hosts': 0, 'final_hosts_of_unknown_state': 0, 'final_pools': 0, 'notifications': 0}

    # observe Host.get_and_set_reconnection_handler from outside: which handler loses the host's slot to the completion callback of another one
    import sys as _sys
    import cassandra.pool as _pool
    orphaned = set()
    keep_alive = []
    orig_gas = _pool.Host.get_and_set_reconnection_handler
    if getattr(orig_gas, '_c25_watch', False):
        orig_gas = orig_gas._c25_orig

    def watched_gas(self, new_handler):
        old = orig_gas(self, new_handler)
        if new_handler is None and old is not None:
            f = _sys._getframe(1)
            caller = f.f_locals.get('self') if f.f_code.co_name == 'run' else None
            if isinstance(caller, _HostReconnectionHandler) and old is not caller and not old._cancelled:
                orphaned.add(id(old))
                keep_alive.append(old)
        return old
    watched_gas._c25_watch = True
    watched_gas._c25_orig = orig_gas
    _pool.Host.get_and_set_reconnection_handler = watched_gas
    # ... and Host.set_down / set_up: from which state a host object was last marked down (None = its state was still unknown)
    down_from = {}
    orig_sd, orig_su = _pool.Host.set_down, _pool.Host.set_up
    if getattr(orig_sd, '_c25_watch', False):
        orig_sd, orig_su = orig_sd._c25_orig, orig_su._c25_orig

    def watched_set_down(self):
        if self.is_up is not False:
            down_from[id(self)] = self.is_up
        return orig_sd(self)

    def watched_set_up(self):
        down_from.pop(id(self), None)
        return orig_su(self)
    watched_set_down._c25_watch = watched_set_up._c25_watch = True
    watched_set_down._c25_orig, watched_set_up._c25_orig = orig_sd, orig_su
    _pool.Host.set_down, _pool.Host.set_up = watched_set_down, watched_set_up

    with env:
        def plain_policy():
            # the three graph profiles get their own (not recording) instances of the same kind of policy: the cluster-wide distance of a
            # host is the closest one over all profiles
            return DCAwareRoundRobinPolicy(local_dc='dc1', used_hosts_per_remote_dc=1) if dcaware else RoundRobinPolicy()
        lbp = recording(DCAwareRoundRobinPolicy)(local_dc='dc1', used_hosts_per_remote_dc=1) if dcaware else recording(RoundRobinPolicy)()
        prof = ExecutionProfile(load_balancing_policy=lbp, request_timeout=5.0, retry_policy=FallthroughRetryPolicy())
        cluster = env.cluster(contact_points=[addrs[0]], executor_threads=max(3, n_sessions + 2), protocol_version=proto,
                              # the recording policy instance sits in exactly one profile (by default the cluster wires the default
                              # profile's policy object into the three graph profiles as well and notifies it once per profile)
                              execution_profiles={EXEC_PROFILE_DEFAULT: prof,
                                                  EXEC_PROFILE_GRAPH_DEFAULT: GraphExecutionProfile(load_balancing_policy=plain_policy()),
                                                  EXEC_PROFILE_GRAPH_SYSTEM_DEFAULT: GraphExecutionProfile(load_balancing_policy=plain_policy()),
                                                  EXEC_PROFILE_GRAPH_ANALYTICS_DEFAULT: GraphAnalyticsExecutionProfile(load_balancing_policy=plain_policy())},
                              reconnection_policy=ConstantReconnectionPolicy(1.0, max_attempts=max_attempts), connect_timeout=3.0,
                              status_event_refresh_window=0, topology_event_refresh_window=0)
        if proto < 3:
            cluster.set_core_connections_per_host(HostDistance.LOCAL, 1)
            cluster.set_max_connections_per_host(HostDistance.LOCAL, 2)
        cluster_box.append(cluster)
        # observe the entry / exit order of Cluster.on_up and Cluster.on_remove per host object (instance attributes: the control connection,
        # the scheduler and the reconnection handlers all reach them through the cluster object)
        state_calls = []
        removal_during_on_up_handling = set()
        for name_ in ('on_up', 'on_remove'):
            def make(orig_, name_=name_):
                def watched(host, *a_, **kw_):
                    if name_ == 'on_remove' and getattr(host, '_currently_handling_node_up', False):
                        # an on_up for this host has queued its pool creations and waits for them: its handling is still under way
                        removal_during_on_up_handling.add(id(host))
                    state_calls.append((name_, 'enter', id(host)))
                    try:
                        return orig_(host, *a_, **kw_)
                    finally:
                        state_calls.append((name_, 'exit', id(host)))
                watched.__name__ = name_
                return watched
            setattr(cluster, name_, make(getattr(cluster, name_)))

        def on_up_overlapped_removal(hid):
            # was an on_up(host) call under way while on_remove(host) ran (either one entered while the other had not returned yet)?
            if hid in removal_during_on_up_handling:
                return True
            # no on_up call for the object entered after its on_remove had returned and still reached the policy (that is what the membership
            # test of on_up prevents): then the pool creation was decided before / while the removal ran (on_up, on_add, update_created_pools
            # iterate a snapshot of the hosts and run_add_or_renew_pool does not look at the membership)
            rm_done = [i_ for i_, c_ in enumerate(state_calls) if c_ == ('on_remove', 'exit', hid)]
            if rm_done:
                late_enter = any(c_ == ('on_up', 'enter', hid) for c_ in state_calls[rm_done[0]:])
                told = [i_ for i_, n_ in enumerate(notes) if n_[1] == 'policy' and n_[4] == hid]
                rm_note = [i_ for i_ in told if notes[i_][2] == 'remove']
                up_after = bool(rm_note) and any(notes[i_][2] == 'up' for i_ in told if i_ > rm_note[0])
                if not (late_enter and up_after):
                    return True
            open_up = open_rm = 0
            for name_, what_, h_ in state_calls:
                if h_ != hid:
                    continue
                if name_ == 'on_up':
                    if what_ == 'enter':
                        if open_rm:
                            return True
                        open_up += 1
                    else:
                        open_up -= 1
                else:
                    if what_ == 'enter':
                        if open_up:
                            return True
                        open_rm += 1
                    else:
                        open_rm -= 1
            return False
        listener = Listener()
        cluster.register_listener(listener)
        sessions = []
        if n_sessions == 0:
            # Cluster.connect() is the only public way to start the control connection; the session is shut down again, which leaves
            # "no session that needs a pool" (add_or_renew_pool of a shut-down session returns no future): a cluster used for metadata / events only
            s0 = cluster.connect(wait_for_all_pools=True)
            w.settle(advance=False)
            s0.shutdown()
        else:
            for i in range(n_sessions):
                sessions.append(cluster.connect(wait_for_all_pools=True))
        w.settle(advance=False)
        removed = {}                   # id(host) -> (address, t_removed)
        removed_addr_t = {}

        def members():
            return list(cluster.metadata.all_hosts())

        def live_handlers():
            out = {}
            for tm in list(cluster.scheduler.pending):
                if tm.cancelled or tm.fired:
                    continue
                h = getattr(tm.task[0], '__self__', None)
                if isinstance(h, _HostReconnectionHandler) and not h._cancelled:
                    out.setdefault(id(h.host), []).append(h)
            # a handler whose attempt is inside its connection factory call right now (handshake answer outstanding) has no pending timer:
            # it is live as long as it holds the host's slot and is not cancelled
            for h_ in members():
                rh = h_._reconnection_handler
                if rh is not None and not rh._cancelled and not any(rh is x for x in out.get(id(h_), ())) and held_by_address(h_.endpoint.address):
                    out.setdefault(id(h_), []).append(rh)
            return out

        def stale_down_after_add(h_):
            # the cluster ran down-handling for a previous Host object of the same address after this object had become the member
            idx = [i_ for i_, n_ in enumerate(notes) if n_[1] == 'policy' and n_[2] == 'add' and n_[4] == id(h_)]
            if not idx:
                return False
            return any(n_[1] == 'policy' and n_[2] == 'down' and n_[3] == h_.endpoint.address and n_[4] != id(h_) for n_ in notes[idx[0] + 1:])

        def had_a_pool_connection(h_):
            # did any pool connection to this host object complete its handshake at the node since the object became a member?
            # (also true when no pool connection was ever attempted for it - no live session: then there is no first pool connect that could fail)
            mark_ = added_conn_mark.get(id(h_), 0)
            mine_ = [c for c in env.net.conns if c.sim_creator == 'pool-init' and str(c.endpoint.address) == h_.endpoint.address and c.sim_id >= mark_]
            return not mine_ or any(getattr(c, 'peer', None) is not None and c.peer.ready for c in mine_)

        def readd_attempt_failed(h_):
            # the policy was told on_add for this host object a second time (the host-addition reconnector connected and called Cluster.on_add again)
            # and has heard nothing about it since: that second on_add did not complete
            mine_ = [n_[2] for n_ in notes if n_[1] == 'policy' and n_[4] == id(h_)]
            return mine_.count('add') >= 2 and mine_[-1] == 'add'

        def held_by_address(a_):
            return any((not hh.done) and hh.req['op'] == 'OPTIONS' and hh.node.address == a_ and not hh.conn.is_closed and hh.conn.sim_creator == 'reconnector'
                       for hh in env.net.held)

        def ignored(h_):
            return cluster.profile_manager.distance(h_) == HostDistance.IGNORED

        def check(label):
            """Invariants at a quiescent point."""
            with w.inspect():
                counters['quiescent_checks'] += 1
                live = live_handlers()
                mem = members()
                mem_ids = set(id(h) for h in mem)
                for h in mem:
                    a = h.endpoint.address
                    if h.is_up is None:
                        seen_unknown.add(id(h))
                    elif h.is_up is True:
                        seen_unknown.discard(id(h))
                    n_live = len(live.get(id(h), ()))
                    if n_live > 1:
                        viol.append(('two-live-reconnectors-for-one-host', "%d live reconnection handlers for host %s at t=%.2f (%s)" % (n_live, a, w.now, label),
                                     {'a_live_handler_lost_its_slot_to_another_handlers_completion': any(id(x) in orphaned for x in live[id(h)]),
                                      'slot_points_to_a_live_handler': any(x is h._reconnection_handler for x in live[id(h)])}))
                    if h.is_up is False and ignored(h):
                        counters['down_hosts_at_distance_ignored'] += 1         # no reconnection series is owed to a host the policy ignores
                    elif h.is_up is False:
                        counters['down_host_checks'] += 1
                        busy = h._currently_handling_node_up
                        if n_live == 0 and not busy and max_attempts is None:
                            viol.append(('down-host-without-reconnector', "host %s is down (is_up False, still a member) but no reconnection handler is scheduled at t=%.2f (%s)" % (
                                a, w.now, label), {'host_reconnection_handler_set': h._reconnection_handler is not None,
                                                   'handler_cancelled': getattr(h._reconnection_handler, '_cancelled', None), 'sessions': n_sessions,
                                                   'a_session_has_an_open_pool': any(s_._pools.get(h) is not None and not s_._pools.get(h).is_shutdown for s_ in sessions),
                                                   'last_handler_was_for_host_addition': last_handler_addition(id(h)), 'state_was_unknown_before_and_never_up_since': id(h) in seen_unknown,
                                                   'listeners_ever_told_add_or_up': any(n[1] == 'listener' and n[4] == id(h) and n[2] in ('add', 'up') for n in notes),
                                                   'state_was_unknown_before_and_never_up_since': id(h) in seen_unknown,
                                                   'host_object_had_a_connected_pool': had_a_pool_connection(h), 'marked_down_from_unknown_state': down_from.get(id(h), 'n/a') is None,
                                                   'on_add_repeated_by_the_reconnector_did_not_complete': readd_attempt_failed(h)}))
                    elif h.is_up and n_live and label != 'final':
                        stray_seen.setdefault(id(h), w.now)
                    elif h.is_up and n_live and label == 'final':
                        # (in between, an on_down overtaken by an on_up may leave a handler that ends itself with its next successful attempt: not judged)
                        viol.append(('up-host-with-live-reconnector', "host %s is up but a reconnection handler is still scheduled at t=%.2f (%s)" % (a, w.now, label), {}))
                for hid, hs in live.items():
                    if hid not in mem_ids:
                        viol.append(('removed-host-still-has-reconnector', "a reconnection handler for removed host %s is still scheduled at t=%.2f (%s)" % (
                            hs[0].host.endpoint.address, w.now, label), {'handler_started_after_removal': handler_started_after_removal(hid),
                                                                         'every_such_handler_had_lost_the_hosts_slot_before': all(id(x) in orphaned for x in hs)}))

        def request(session, host, act='rows'):
            uid = next(uids)
            plan[uid] = act
            try:
                session.execute_async(uid_query(uid), host=host, timeout=5.0)
            except Exception:
                pass

        def host_of(a):
            for h in members():
                if h.endpoint.address == a:
                    return h
            return None

        def push(body):
            for nd in env.net.nodes.values():
                nd.push_event(body)

        check('after connect')
        # ---------------- the history
        def release_handshakes():
            for hh in list(env.net.held):
                if not hh.done and hh.req['op'] == 'OPTIONS' and hh.conn.sim_creator != 'pool-init':
                    hh.release()

        def fail_held_pool_connections(a_=None):
            # the node resets the pool connections whose handshake it has kept back: the pool creation fails now
            for hh in list(env.net.held):
                if not hh.done and hh.req['op'] == 'OPTIONS' and hh.conn.sim_creator == 'pool-init' and (a_ is None or hh.node.address == a_):
                    hh.drop()
                    if not hh.conn.is_closed:
                        env.net.server_close(hh.conn, reset=True)

        def held_attempts(a_):
            return [hh for hh in env.net.held if not hh.done and hh.req['op'] == 'OPTIONS' and hh.node.address == a_ and not hh.conn.is_closed]

        script = None
        others = addrs[1:]
        if family == 'midconnect':
            # a host is removed while a reconnection attempt for it is inside its connection factory call (handshake answer kept back),
            # and the attempt then succeeds; plain reconnector (host was up before) and host-addition reconnector
            x = rng.choice(others)
            script = []
            if n_sessions >= 1 and rng.random() < 0.5:
                script += [('fail_pool', x, n_sessions), ('hide_refresh', x, None), ('settle', x, None), ('show_refresh', x, None), ('settle', x, None)]
            else:
                script += [('kill_all', x, None) if n_sessions else ('status_down', x, None), ('settle', x, None)]
            script += [('hold_reconnect', x, 1), ('advance', x, 1.1), ('settle', x, None),
                       (rng.choice(['remove', 'hide_refresh']), x, None), ('settle', x, None)]
            if rng.random() < 0.7:
                script += [('advance', x, rng.choice([0.2, 0.5]))]
            script += [('release', x, None), ('settle', x, None), ('advance', x, 0.5)]
            script += [(None, None, None)] * rng.randint(0, 3)
        elif family == 'newhost':
            # a host is announced (NEW_NODE, or it appears in system.peers at a refresh) while it refuses connections or resets the pool's handshake;
            # later it accepts: the host-addition path has to keep trying until the host is up with pools
            x = rng.choice(others)
            script = [('hide_refresh', x, None), ('settle', x, None)]
            if rng.random() < 0.5:
                script += [('node_off', x, None)]
            else:
                script += [('fail_pool', x, n_sessions * rng.choice([1, 2]))]
            script += [(rng.choice(['show_refresh', 'new_node']), x, None), ('settle', x, None), ('advance', x, 1.1), ('settle', x, None),
                       ('node_on', x, None), ('advance', x, 1.1), ('settle', x, None), ('advance', x, 1.1), ('settle', x, None)]
            script += [(None, None, None)] * rng.randint(0, 3)
        elif family == 'readd':
            # a host goes down and is reconnected; while on_up's pool connections sit in their handshake the host is removed and the same address is
            # added again (a new Host object); then the old object's pool connections fail
            x = rng.choice(others)
            script = [('kill_all', x, None), ('settle', x, None), ('hold_pool', x, n_sessions), ('advance', x, 1.1), ('settle', x, None),
                      (rng.choice(['remove', 'hide_refresh']), x, None), ('settle', x, None)]
            if rng.random() < 0.5:
                script += [('advance', x, 0.2)]
            script += [(rng.choice(['show_refresh', 'new_node']), x, None), ('settle', x, None)]
            if rng.random() < 0.5:
                script += [('advance', x, 0.3)]
            script += [('fail_held', x, None), ('settle', x, None), ('advance', x, 1.1), ('settle', x, None), ('advance', x, 1.1), ('settle', x, None)]
            script += [(None, None, None)] * rng.randint(0, 3)
        elif family == 'updown':
            # several sessions: hosts go down and come back (reconnector / STATUS_CHANGE UP) again and again: on_up with one pool future per session
            script = []
            for _ in range(rng.randint(2, 4)):
                x = rng.choice(addrs)
                script += [('kill_all', x, None)]
                if rng.random() < 0.5:
                    script += [('settle', x, None)]
                script += [('status_up', x, None)] if rng.random() < 0.4 else [('advance', x, 1.1)]
                if rng.random() < 0.5:
                    script += [('settle', x, None)]
            script += [(None, None, None)] * rng.randint(0, 3)
        n_steps = len(script) if script is not None else n_events
        for step in range(n_steps):
            a = rng.choice(addrs)
            arg = None
            ev = rng.choices(['kill', 'crash', 'revive', 'status_down', 'status_up', 'remove', 'new_node', 'hide_refresh', 'show_refresh', 'fail_pool',
                              'advance', 'advance_long', 'hold_reconnect', 'release', 'remove_racing'], [3, 3, 3, 3, 3, 1, 2, 1, 2, 2, 4, 2, 1, 1, 2])[0]
            if script is not None and script[step][0] is not None:
                ev, a, arg = script[step]
            node = env.net.nodes[a]
            if hasattr(ch, 'reshuffle'):
                ch.reshuffle()
            info['events'].append((ev, a))
            if ev == 'settle':
                w.settle(advance=False)
            elif ev == 'kill_all':
                h = host_of(a)
                for s in sessions:
                    if h is not None:
                        request(s, h, 'reset')
            elif ev == 'node_off':
                node.up = False
            elif ev == 'node_on':
                node.up = True
            elif ev == 'hold_reconnect':
                hold_reconn[a] = hold_reconn.get(a, 0) + (arg or 1)
            elif ev == 'release':
                release_handshakes()
            elif ev == 'hold_pool':
                hold_pool[a] = hold_pool.get(a, 0) + (arg or 1)
            elif ev == 'fail_held':
                fail_held_pool_connections(a)
            elif ev == 'kill':
                h = host_of(a)
                for s in sessions:
                    if h is not None and rng.random() < 0.7:
                        request(s, h, 'reset')
            elif ev == 'crash':
                node.up = False
                for c in list(env.net.conns):
                    if not c.is_closed and str(c.endpoint.address) == a:
                        env.net.server_close(c, reset=True)
                w.settle(advance=False)
                h = host_of(a)
                for s in sessions:
                    if h is not None:
                        request(s, h)             # the next request notices the dead connection
                if rng.random() < 0.5:
                    push(F.body_event_status('DOWN', ip_bytes(a), 9042))
            elif ev == 'revive':
                node.up = True
                if rng.random() < 0.5:
                    push(F.body_event_status('UP', ip_bytes(a), 9042))
            elif ev == 'status_down':
                push(F.body_event_status('DOWN', ip_bytes(a), 9042))
            elif ev == 'status_up':
                push(F.body_event_status('UP', ip_bytes(a), 9042))
            elif ev == 'remove':
                if a != addrs[0]:
                    if held_attempts(a):
                        counters['removals_while_an_attempt_was_mid_connect'] += 1
                    env.net.hidden_peers.add(a)
                    h = host_of(a)
                    if h is not None:
                        removed[id(h)] = (a, w.now)
                    push(F.body_event_topology('REMOVED_NODE', ip_bytes(a), 9042))
            elif ev == 'remove_racing':
                # the server announces the removal and a status change of the same node back to back: the handlers are queued behind each other
                if a != addrs[0]:
                    env.net.hidden_peers.add(a)
                    evs = [F.body_event_topology('REMOVED_NODE', ip_bytes(a), 9042), F.body_event_status(rng.choice(['UP', 'UP', 'DOWN']), ip_bytes(a), 9042)]
                    if rng.random() < 0.5:
                        evs.reverse()
                    for b_ in evs:
                        push(b_)
            elif ev == 'new_node':
                env.net.hidden_peers.discard(a)
                push(F.body_event_topology('NEW_NODE', ip_bytes(a), 9042))
            elif ev == 'hide_refresh':
                if a != addrs[0]:
                    if held_attempts(a):
                        counters['removals_while_an_attempt_was_mid_connect'] += 1
                    env.net.hidden_peers.add(a)
                    cluster.control_connection.refresh_node_list_and_token_map()
            elif ev == 'show_refresh':
                env.net.hidden_peers.discard(a)
                cluster.control_connection.refresh_node_list_and_token_map()
            elif ev == 'fail_pool':
                fail_pool[a] = fail_pool.get(a, 0) + (arg or rng.choice([1, 1, 2]))
            elif ev == 'advance':
                w.advance_to(w.now + (arg or rng.choice([0.3, 1.1, 2.5])))
            elif ev == 'advance_long':
                w.advance_to(w.now + rng.choice([4.0, 7.0]))
            if script is None and rng.random() < 0.75 or ev == 'settle':
                w.settle(advance=False)
                check('after event %d %s %s' % (step, ev, a))
        # ---------------- final phase: everything healthy, ample time
        fail_pool.clear()
        hold_reconn.clear()
        hold_pool.clear()
        release_handshakes()
        fail_held_pool_connections()
        for nd in env.net.nodes.values():
            nd.up = True
        w.settle(advance=False)
        check('before the final phase')
        w.settle(until=w.now + 12.0)
        with w.inspect():
            back = [h_ for h_ in members() if h_.is_up is False and ignored(h_)]
        for h_ in back:
            # a down host the policy ignores has no reconnector: the cluster learns that it is back from the server's STATUS_CHANGE UP
            counters['ignored_hosts_brought_back_by_status_up'] += 1
            push(F.body_event_status('UP', ip_bytes(h_.endpoint.address), 9042))
        w.settle(until=w.now + 3.0)
        env.net.hidden_peers.clear()
        cluster.control_connection.refresh_node_list_and_token_map()
        w.settle(until=w.now + 25.0)
        w.settle(advance=False)
        check('final')
        with w.inspect():
            live = live_handlers()
            counters['notifications'] = len(notes)
            rm_addr = {}
            for n_ in notes:
                if n_[1] == 'policy' and n_[2] == 'remove':
                    rm_addr[n_[3]] = n_[4]
                elif n_[1] == 'policy' and n_[2] == 'add' and n_[3] in rm_addr and rm_addr[n_[3]] != n_[4]:
                    counters['same_address_added_again_as_new_host_object'] += 1
                    del rm_addr[n_[3]]
            counters['on_up_with_2plus_sessions'] = sum(1 for n in notes if n[1] == 'policy' and n[2] == 'up' and n[0] > 0) if n_sessions >= 2 else 0
            counters['reconnector_conns'] = sum(1 for c in env.net.conns if c.sim_creator == 'reconnector')
            counters['handlers_seen'] = len(set(id(getattr(x[1], '__self__', None)) for x in cluster.scheduler.scheduled
                                                if isinstance(getattr(x[1], '__self__', None), _HostReconnectionHandler)))
            cc_ok = cluster.control_connection._connection is not None and not cluster.control_connection._connection.is_closed
            info['control_connection_alive'] = cc_ok
            for h in members():
                a = h.endpoint.address
                counters['final_hosts'] += 1
                exhausted = max_attempts is not None
                if h.is_up is None:
                    counters['final_hosts_of_unknown_state'] += 1       # neither marked up nor down (e.g. a discounted failure while the host was being added): not judged
                if h.is_up is False and not exhausted and not ignored(h):
                    viol.append(('host-not-up-at-final-quiescence', "host %s has is_up=%r although its node has been healthy for 37 virtual seconds" % (a, h.is_up),
                                 {'live_handlers': len(live.get(id(h), ())), 'handling_node_up_flag': h._currently_handling_node_up, 'sessions': n_sessions,
                                  'never_a_handler': last_handler_addition(id(h)) is None, 'last_handler_was_for_host_addition': last_handler_addition(id(h)),
                                  'state_was_unknown_before_and_never_up_since': id(h) in seen_unknown, 'host_object_had_a_connected_pool': had_a_pool_connection(h), 'marked_down_from_unknown_state': down_from.get(id(h), 'n/a') is None,
                                  'on_add_repeated_by_the_reconnector_did_not_complete': readd_attempt_failed(h),
                                  'listeners_ever_told_add_or_up': any(n[1] == 'listener' and n[4] == id(h) and n[2] in ('add', 'up') for n in notes),
                                  'reconnection_handler_set': h._reconnection_handler is not None}))
                # what the observers were last told about this host object
                for who in ('listener', 'policy'):
                    last = [n for n in notes if n[1] == who and n[4] == id(h) and n[2] in ('up', 'down', 'add', 'remove')]
                    if not last:
                        continue
                    told_up = last[-1][2] in ('up', 'add')
                    if h.is_up is True and not told_up:
                        viol.append(('observer-not-told-up', "%s was last told %r about host %s at t=%.2f but the host is marked up at the final quiescence" % (
                            who, last[-1][2], a, last[-1][0]), {'who': who, 'sessions': n_sessions, 'last': last[-1][2],
                                                                'previous': last[-2][2] if len(last) > 1 else None,
                                                                'previous_at_same_instant': len(last) > 1 and abs(last[-2][0] - last[-1][0]) < 1e-3,
                                                                'pools_needed': sum(1 for s in sessions if not s.is_shutdown)}))
                    if h.is_up is False and told_up and not exhausted and not ignored(h):
                        viol.append(('observer-not-told-down', "%s was last told %r about host %s but the host is marked down at the final quiescence" % (who, last[-1][2], a),
                                     {'who': who, 'handling_node_up_flag': h._currently_handling_node_up, 'live_handlers': len(live.get(id(h), ())), 'sessions': n_sessions,
                                      'last': last[-1][2], 'never_a_handler': last_handler_addition(id(h)) is None,
                                      'last_handler_was_for_host_addition': last_handler_addition(id(h)), 'state_was_unknown_before_and_never_up_since': id(h) in seen_unknown, 'reconnection_handler_set': h._reconnection_handler is not None,
                                      'host_object_had_a_connected_pool': had_a_pool_connection(h), 'marked_down_from_unknown_state': down_from.get(id(h), 'n/a') is None,
                                      'on_add_repeated_by_the_reconnector_did_not_complete': readd_attempt_failed(h),
                                      'listeners_ever_told_add_or_up': any(n[1] == 'listener' and n[4] == id(h) and n[2] in ('add', 'up') for n in notes)}))
                if h.is_up and not ignored(h):
                    for si, s in enumerate(sessions):
                        pool = s._pools.get(h)
                        counters['final_pools'] += 1
                        if dcaware and h.datacenter == 'dc2':
                            counters['final_pools_of_remote_dc_hosts'] += 1
                        if pool is None or pool.is_shutdown:
                            others_open = any(s2 is not s and s2._pools.get(h) is not None and not s2._pools.get(h).is_shutdown for s2 in sessions)
                            viol.append(('up-host-without-pool', "host %s is up but session %d has %s for it at the final quiescence" % (
                                a, si, 'no pool' if pool is None else 'a shut-down pool'),
                                {'pool': None if pool is None else 'shutdown', 'another_session_has_open_pool': others_open, 'sessions': n_sessions,
                                 'policy_told_down_for_an_older_object_of_this_address_after_this_object_was_added': stale_down_after_add(h)}))
        # ---------------- offline: notification sequences
        for who in ('listener', 'policy'):
            per = {}
            for n in notes:
                if n[1] == who:
                    per.setdefault(n[4], []).append(n)
            for hid, seq in per.items():
                state = None
                prev = None
                for n in seq:
                    k = n[2]
                    if k == 'up' and state == 'up':
                        between = [m for m in notes if m[4] == hid and m[1] != who and notes.index(prev) < notes.index(m) < notes.index(n)]
                        viol.append(('duplicate-on-up', "%s got on_up for host %s at t=%.2f although it had already been told %s at t=%.2f and no on_down in between" % (
                            who, n[3], n[0], state, prev[0]), {'who': who, 'previous': state, 'sessions': n_sessions, 'same_instant': abs(n[0] - prev[0]) < 1e-3,
                                                               'other_observer_notified_in_between': bool(between),
                                                               'live_reconnector_seen_while_host_up_before': hid in stray_seen and stray_seen[hid] <= n[0],
                                                               'reconnection_attempt_while_told_up': any(
                                                                   c.sim_creator == 'reconnector' and str(c.endpoint.address) == n[3] and prev[0] < c.sim_created_at <= n[0] + 1e-3
                                                                   for c in env.net.conns)}))
                    state = k
                    prev = n
        # a removed host is not brought back: after an observer was told on_remove(host) it is not told on_up / on_add for that host object
        # at a later virtual time (an on_up that was already running when the removal came finishes in the same instant and is not judged here)
        for who in ('listener', 'policy'):
            rm = {}
            for n in notes:
                if n[1] != who:
                    continue
                if n[2] == 'remove':
                    rm.setdefault(n[4], n)
                elif n[2] in ('up', 'add') and n[4] in rm and n[0] > rm[n[4]][0] + 1e-3:
                    hid = n[4]
                    on_up_by_event = any(getattr(x[1], '__name__', '') == 'on_up' and x[2] and id(x[2][0]) == hid and x[0] >= rm[hid][0] - 1e-3 for x in sched_log())
                    viol.append(('notified-up-after-remove', "%s got on_%s for host %s at t=%.2f although it had been told on_remove for that host object at t=%.2f" % (
                        who, n[2], n[3], n[0], rm[hid][0]), {'who': who, 'handler_started_after_removal': handler_started_after_removal(hid),
                                                               'on_up_scheduled_by_a_status_event_around_the_removal': on_up_by_event}))
                    del rm[hid]
        # ... and no session starts building a pool for it: no pool connection to its address is opened after the removal was announced and before
        # the address becomes a member again (as a new host object)
        for n in [x for x in notes if x[1] == 'listener' and x[2] == 'remove']:
            lo = removed_conn_mark.get(n[4])
            if lo is None:
                continue
            later_adds = [m_ for (a_, hid_, m_) in added_order if a_ == n[3] and hid_ != n[4] and m_ >= lo]
            hi = min(later_adds) if later_adds else len(env.net.conns)
            late = [c for c in env.net.conns[lo:hi] if c.sim_creator == 'pool-init' and str(c.endpoint.address) == n[3]]
            if late:
                viol.append(('pool-connection-to-removed-host', "a pool connection to removed host %s (connection %d) was opened at t=%.2f, after listeners had been told on_remove at t=%.2f" % (
                    n[3], late[0].sim_id, late[0].sim_created_at, n[0]), {'connections': len(late), 'pool_creation_was_decided_before_the_removal_finished': on_up_overlapped_removal(n[4])}))
        # removed hosts are never reconnected: after listeners were told on_remove(host), no attempt is scheduled any more by a handler of that host object
        # (by object, not by address: the address may be added again as a new Host while the removal is still being announced)
        for n in [x for x in notes if x[1] == 'listener' and x[2] == 'remove']:
            counters['removals_observed'] += 1
            idx = removed_at_log_index.get(n[4])
            if idx is None:
                continue
            later = [x for x in sched_log()[idx:] if isinstance(getattr(x[1], '__self__', None), _HostReconnectionHandler) and id(x[1].__self__.host) == n[4]]
            # (a run scheduled by an old handler in the instant between the announcement and on_remove's cancel() is a no-op: the handler is cancelled)
            started_after = handler_started_after_removal(n[4])
            later = [x for x in later if not x[1].__self__._cancelled] if not started_after else later
            if later:
                viol.append(('removed-host-reconnected', "a reconnection attempt for removed host %s was scheduled for t=%.2f after listeners had been told on_remove at t=%.2f" % (
                    n[3], later[0][0], n[0]), {'handler_started_after_removal': handler_started_after_removal(n[4])}))
        info['notes'] = [(round(n[0], 2),) + n[1:4] for n in notes][-40:]
        trace = tuple(x[:2] for x in w.trace)
        cluster.shutdown()
        w.settle(until=w.now + 30.0)
    _pool.Host.get_and_set_reconnection_handler = orig_gas
    _pool.Host.set_down, _pool.Host.set_up = orig_sd, orig_su
    return viol, counters, info, trace, env


def classify(v, info):
    mech, what, d = v
    if mech == 'observer-not-told-up' and d.get('last') == 'down' and d.get('previous') == 'up' and d.get('previous_at_same_instant'):
        return K_STRAY           # an on_down overtaken by an on_up that finished completely before on_down told its observers (any number of sessions)
    if mech == 'observer-not-told-up' and d.get('who') == 'listener' and d.get('pools_needed') == 0 and d.get('last') == 'down':
        return K_ITEM31
    if mech == 'up-host-without-pool' and d.get('pool') is None and d.get('policy_told_down_for_an_older_object_of_this_address_after_this_object_was_added'):
        return K_STALE_CLEANUP
    if mech == 'up-host-without-pool' and d.get('pool') == 'shutdown' and d.get('another_session_has_open_pool') and d.get('sessions', 0) >= 2:
        return K_DISCOUNT
    if mech == 'up-host-without-pool' and d.get('pool') == 'shutdown' and not d.get('another_session_has_open_pool') and info['proto'] < 3:
        return K_STALE_COUNT
    if mech == 'duplicate-on-up' and d.get('who') == 'listener' and d.get('previous') == 'up' and d.get('sessions', 0) >= 2 and d.get('same_instant') \
            and not d.get('other_observer_notified_in_between'):
        return K_ONUP_RACE
    if mech == 'down-host-without-reconnector' and d.get('sessions', 0) >= 2 and d.get('a_session_has_an_open_pool') and d.get('last_handler_was_for_host_addition') \
            and not d.get('host_reconnection_handler_set'):
        return K_ADD_PARTIAL
    if mech in ('down-host-without-reconnector', 'host-not-up-at-final-quiescence', 'observer-not-told-down') and d.get('last_handler_was_for_host_addition') \
            and d.get('on_add_repeated_by_the_reconnector_did_not_complete') and not d.get('host_reconnection_handler_set', d.get('reconnection_handler_set')) \
            and d.get('live_handlers', 0) == 0 and d.get('last', 'add') == 'add' and d.get('who', 'policy') == 'policy':
        return K_READD_FAIL
    if mech == 'down-host-without-reconnector' and d.get('last_handler_was_for_host_addition') is None and d.get('host_object_had_a_connected_pool') \
            and (not d.get('listeners_ever_told_add_or_up') or d.get('state_was_unknown_before_and_never_up_since') or d.get('marked_down_from_unknown_state')) \
            and not d.get('host_reconnection_handler_set'):
        # (the known mechanism is a host of unknown state whose ESTABLISHED pool fails later; a host whose very first pool connect fails must get
        # its host-addition reconnector and is not covered by this slug)
        return K_UNKNOWN_DOWN
    if mech == 'observer-not-told-up' and d.get('last') == 'down' and d.get('previous') == 'up' and d.get('previous_at_same_instant') and d.get('pools_needed', 0) >= 1:
        return K_STRAY           # same interleaving, the on_up finished completely before on_down told its observers
    if mech == 'two-live-reconnectors-for-one-host' and d.get('a_live_handler_lost_its_slot_to_another_handlers_completion'):
        return K_ORPHAN
    if mech == 'removed-host-still-has-reconnector' and d.get('every_such_handler_had_lost_the_hosts_slot_before') and not d.get('handler_started_after_removal'):
        return K_ORPHAN          # the series that lost the host's slot is invisible to on_remove as well: it survives the removal
    if mech in ('host-not-up-at-final-quiescence', 'observer-not-told-down') and d.get('never_a_handler') and not d.get('reconnection_handler_set') \
            and d.get('host_object_had_a_connected_pool') and d.get('last', 'add') == 'add' and ((not d.get('listeners_ever_told_add_or_up') and d.get('who', 'policy') == 'policy')
                                                   or d.get('state_was_unknown_before_and_never_up_since') or d.get('marked_down_from_unknown_state')):
        return K_UNKNOWN_DOWN
    if mech in ('host-not-up-at-final-quiescence', 'observer-not-told-down') and d.get('last_handler_was_for_host_addition') and d.get('sessions', 0) >= 2 \
            and not d.get('listeners_ever_told_add_or_up') and not d.get('reconnection_handler_set') and d.get('live_handlers') == 0 \
            and d.get('who', 'policy') == 'policy' and d.get('last', 'add') == 'add':
        return K_ADD_PARTIAL
    if mech == 'pool-connection-to-removed-host' and d.get('pool_creation_was_decided_before_the_removal_finished'):
        return K_ONUP_OVERLAP
    if mech == 'notified-up-after-remove' and (d.get('handler_started_after_removal') or d.get('on_up_scheduled_by_a_status_event_around_the_removal')):
        return K_REMOVED_RESTART
    if mech in ('removed-host-still-has-reconnector', 'removed-host-reconnected') and d.get('handler_started_after_removal'):
        return K_REMOVED_RESTART
    if mech == 'duplicate-on-up' and d.get('previous') == 'up' and not d.get('same_instant') and (d.get('live_reconnector_seen_while_host_up_before') or d.get('reconnection_attempt_while_told_up')):
        return K_STRAY
    if mech in ('host-not-up-at-final-quiescence', 'observer-not-told-down') and d.get('handling_node_up_flag') and d.get('live_handlers') == 0 \
            and d.get('sessions', 0) >= 2 and d.get('who', 'policy') == 'policy':
        # the other outcome of the same race: each completion callback finds the other (stale) future in the set, nobody finishes on_up
        return K_ONUP_STUCK
    return mech


def run(ctx):
    from vlib import shim
    shim.import_cluster()
    from vlib.run import Inconclusive
    from sim.world import WorldLimit, WorldHang
    ctx.rule = ("a case is one seeded history from five families (random events / a host announced while its first pool connect fails, accepting later / a host removed and its address added again as a new Host object while the old object's on_up pools are mid-connect and then fail / a host removed while a reconnection attempt for it is mid-connect, "
                "plain and host-addition reconnector / repeated down-up cycles with 2-3 sessions under priority schedules): 2-3 nodes, 0-3 sessions, protocol v4/v3/v2, reconnection schedule (unbounded / 2 attempts), 4-14 events from "
                "{pool connection reset, node crash, node back, STATUS_CHANGE UP/DOWN, TOPOLOGY_CHANGE REMOVED_NODE/NEW_NODE, hide/show in system.peers + "
                "refresh, next pool connection fails, time passes}, schedule; distinct by event-order signature of the world trace; non-trivial = at "
                "least one reconnection handler was scheduled")
    ctx.assume("a second on_down without an on_up in between is not judged (the driver re-announces a host as down when rebuilding its pool fails)")
    ctx.assume("on_add followed by on_up for a host that is being added while a STATUS_CHANGE UP arrives is not counted as a repeated on_up; a host left with is_up None is not judged")
    ctx.assume("with max_attempts=2 a down host may legitimately end without a reconnector and stay down; only 'never two' is demanded there")
    n = ctx.scale(3000, 60000)
    budget = 20 if ctx.quick else 150        # CPU seconds of this worker (vlib caps wall-clock at 4x)
    base = ctx.seed * 1000003 + (ctx.worker or 0) * 100003
    for i in range(n):
        if ctx.time_left(budget) < 0:
            ctx.note("stopped by time budget after %d histories" % i)
            break
        seed = base + i
        try:
            viol, counters, info, trace, env = run_history(seed)
        except WorldLimit:
            ctx.count("histories_over_budget")
            continue
        except WorldHang as e:
            raise Inconclusive("history seed %d: the world hangs: %s" % (seed, e))
        except Exception as e:
            import traceback
            raise Inconclusive("history seed %d failed in the harness: %s: %s\n%s" % (seed, type(e).__name__, e, traceback.format_exc()[-900:]))
        if env.world.errors or env.net.parse_failures:
            raise Inconclusive("harness error in history seed %d: %r" % (seed, [(e[0], repr(e[1])[:200]) for e in env.world.errors[:2]] + env.net.parse_failures[:1]))
        ctx.case(repr(trace), nontrivial=counters['handlers_seen'] > 0)
        ctx.count("histories")
        ctx.count("histories_with_%d_sessions" % info['sessions'])
        for k, v in counters.items():
            ctx.count(k, v)
        seen = set()
        for v in viol:
            mech = classify(v, info)
            if mech in seen:
                continue
            seen.add(mech)
            ctx.violation(mech, "%s [seed %d, %d nodes, %d sessions, v%d, max_attempts=%s]" % (v[1], seed, info['nodes'], info['sessions'], info['proto'], info['max_attempts']),
                          {"seed": seed, "detail": v[2], "events": info['events'], "notifications": info['notes']})
        if not viol and len(ctx.samples) < 4 and counters['handlers_seen'] >= 2:
            ctx.sample({"seed": seed, "events": info['events'], "notifications": info['notes'][-16:], "counters": counters})
    ctx.floor_distinct = 40 if ctx.quick else 1500
    ctx.floor_counters = {"histories": 40, "quiescent_checks": 200, "down_host_checks": 30, "handlers_seen": 30, "reconnector_conns": 30, "final_pools": 30,
                          "notifications": 200, "removals_while_an_attempt_was_mid_connect": 5, "pool_connections_held_mid_connect": 5, "same_address_added_again_as_new_host_object": 10, "final_pools_of_remote_dc_hosts": 10, "on_up_with_2plus_sessions": 50}
