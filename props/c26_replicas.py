"""C26 - replica sets match Cassandra's replica placement.

Monitor: token rings are built through the real ``Metadata.rebuild_token_map`` with real ``Host``
objects (datacenter, rack) and real ``KeyspaceMetadata`` / replication strategy objects; for
partition keys at, just before, just after, between and beyond the ring tokens the list returned
by the real ``Metadata.get_replicas(keyspace, key)`` is compared - as a set and for repetition -
with the independent placement in ``spec/placement.py`` (Cassandra's SimpleStrategy and
NetworkTopologyStrategy.calculateNaturalReplicas), the key's token coming from
``spec/murmur.py`` / ``spec/md5tok.py`` / identity.
"""
import itertools
from collections import Counter

PROPERTY = "C26"
LEVEL = "exploration"
ENGINE = "spec"
TECHNIQUE = "differential oracle: independent SimpleStrategy / NetworkTopologyStrategy placement over real token maps"
LEVEL_TEXT = ("every ring structure with <= 3 hosts (quick) / <= 4 hosts (thorough) x <= 2 tokens x 2 racks x 2 DCs is enumerated with "
              "all RF 0..4 (for 4-host rings on two DCs 15 of the 25 NTS RF pairs), plus seeded random rings to 6 hosts x 3 racks x 2 DCs x 4 tokens; placement is a pure function of "
              "(ring, topology, replication, key), so exhaustive-small plus random exploration of that input space is the right level")
LEVEL_NOTE = ("trusted base: spec/placement.py (two structurally different NTS derivations cross-checked, hand-verified vectors), "
              "spec/murmur.py, spec/md5tok.py; not generated: equal tokens on two hosts, hosts without dc/rack, transient replication")
QUICK_WORKERS = 4
WORKERS = 12

LOCS4 = (("dc1", "r1"), ("dc1", "r2"), ("dc2", "r1"), ("dc2", "r2"))
KNOWN_DUP = "nts-skipped-host-replayed-once-per-token"

PARTITIONER_NAMES = {
    "murmur3": "org.apache.cassandra.dht.Murmur3Partitioner",
    "random": "org.apache.cassandra.dht.RandomPartitioner",
    "bytes": "org.apache.cassandra.dht.ByteOrderedPartitioner",
}
_POOLS = {}


def key_pool(part):
    """Sorted list of (token, key) under the spec's token function; tokens pairwise >= 3 apart."""
    if part in _POOLS:
        return _POOLS[part]
    from spec import murmur, md5tok
    if part == "bytes":
        keys = [b"\x00", b"\x00\x00", b"\x00\x01", b"\x01", b"\x01\xff", b"0", b"00", b"01", b"A", b"A\x00", b"AB", b"B",
                b"Z\xff\xff", b"a", b"a\x00", b"a\x7f", b"a\x80", b"ab", b"abc", b"b", b"k", b"key", b"key1", b"key2", b"z",
                b"\x7f", b"\x7f\xff", b"\x80", b"\x80\x00", b"\x81", b"\xc0\x01", b"\xfe", b"\xfe\xff", b"\xff", b"\xff\x00",
                b"\xff\xff", b"\xff\xff\xff", b"m", b"mm", b"n"]
        pool = sorted((k, k) for k in set(keys))
    else:
        fn = murmur.token if part == "murmur3" else md5tok.token
        keys = [b"k%03d" % i for i in range(28)] + [bytes([0x80 + i, 0xFF - i, i]) * (1 + i % 5) for i in range(12)]
        pool = sorted((fn(k), k) for k in keys)
        for i in range(1, len(pool)):
            if pool[i][0] - pool[i - 1][0] < 3:
                raise ValueError("key pool tokens too close")
    _POOLS[part] = pool
    return pool


def token_string(part, tok):
    if part == "bytes":
        return tok.hex()
    return str(tok)


class World(object):
    """One real Metadata with a token ring, plus the plain description the spec works on."""

    def __init__(self, part, owners, locs, positions, deltas=None, extreme=(), shared_address=False):
        from cassandra.metadata import Metadata
        from cassandra.pool import Host
        from cassandra.policies import SimpleConvictionPolicy
        from cassandra.connection import DefaultEndPoint
        pool = key_pool(part)
        self.part = part
        self.owners = tuple(owners)
        self.locs = tuple(locs)
        self.pool = pool
        n_hosts = len(locs)
        self.shared_address = shared_address
        if shared_address:
            # hosts are identified by their endpoint (address AND port): up to three hosts share one address
            self.hosts = [Host(DefaultEndPoint("10.7.0.%d" % (1 + h // 3), 9042 + h % 3), SimpleConvictionPolicy, locs[h][0], locs[h][1])
                          for h in range(n_hosts)]
        else:
            self.hosts = [Host("10.%d.%d.%d" % (1 + sorted(set(l[0] for l in locs)).index(locs[h][0]), h // 200, 1 + h),
                               SimpleConvictionPolicy, locs[h][0], locs[h][1]) for h in range(n_hosts)]
        # the check's own bookkeeping is by endpoint, never by address alone
        self.index_of = dict((h.endpoint, i) for i, h in enumerate(self.hosts))
        if len(self.index_of) != n_hosts:
            raise ValueError("host endpoints must be pairwise distinct")
        ring = []
        deltas = deltas or [0] * len(owners)
        pool_tokens = set(t for t, _k in pool)
        for pos, owner, d in zip(positions, owners, deltas):
            tok = pool[pos][0]
            if part != "bytes":
                tok = tok + d
            elif d > 0 and tok + b"\x00" not in pool_tokens:
                tok = tok + b"\x00"          # the immediate successor of the pool key in byte order
            ring.append((tok, owner))
        for tok, owner in extreme:
            ring.append((tok, owner))
        self.ring = sorted(ring, key=lambda p: p[0])
        token_map = {}
        for tok, owner in ring:
            token_map.setdefault(self.hosts[owner], []).append(token_string(part, tok))
        self.metadata = Metadata()
        self.metadata.rebuild_token_map(PARTITIONER_NAMES[part], token_map)
        for h in self.hosts:
            self.metadata.add_or_return_host(h)
        self.locations = dict((i, locs[i]) for i in range(n_hosts))
        self.tokens_owned = Counter(o for _t, o in self.ring)
        self._ks = 0
        self.previous = None       # (ring, locations) before the last relocate()

    def relocate(self, new_locs, new_ring=None, replace_hosts=False):
        """The topology changes on the SAME Metadata object, the way the control connection applies it: hosts get a new
        datacenter / rack (Host.set_location_info on the known objects, or - after a reconnect - fresh Host objects with the
        same endpoints), optionally token ownership changes too, and rebuild_token_map is called with the new rows."""
        from cassandra.pool import Host
        from cassandra.policies import SimpleConvictionPolicy
        self.previous = (self.ring, dict(self.locations))
        self.locs = tuple(new_locs)
        self.locations = dict((i, self.locs[i]) for i in range(len(self.locs)))
        if replace_hosts:
            fresh = [Host(h.endpoint, SimpleConvictionPolicy, self.locs[i][0], self.locs[i][1]) for i, h in enumerate(self.hosts)]
            for old_h, new_h in zip(self.hosts, fresh):
                new_h.is_up = old_h.is_up
                self.metadata.remove_host(old_h)
                self.metadata.add_or_return_host(new_h)
            self.hosts = fresh
        else:
            for i, h in enumerate(self.hosts):
                if (h.datacenter, h.rack) != self.locs[i]:
                    h.set_location_info(self.locs[i][0], self.locs[i][1])
        if new_ring is not None:
            self.ring = sorted(new_ring, key=lambda p: p[0])
            self.tokens_owned = Counter(o for _t, o in self.ring)
        token_map = {}
        for tok, owner in self.ring:
            token_map.setdefault(self.hosts[owner], []).append(token_string(self.part, tok))
        self.metadata.rebuild_token_map(PARTITIONER_NAMES[self.part], token_map)

    def add_keyspace(self, strategy, options, prefixed=False):
        from cassandra.metadata import KeyspaceMetadata
        self._ks += 1
        name = "ks%d" % self._ks
        cls = ("org.apache.cassandra.locator." if prefixed else "") + strategy
        opts = dict((k, str(v)) for k, v in options.items())
        # the real schema-refresh path (CREATE KEYSPACE): Metadata._update_keyspace -> _keyspace_added
        self.metadata._update_keyspace(KeyspaceMetadata(name, True, cls, opts))
        return name

    def alter_keyspace(self, name, strategy, options, prefixed=False, drop_first=False):
        """ALTER KEYSPACE (or DROP + CREATE) as a targeted keyspace refresh applies it: a new KeyspaceMetadata goes through
        the real Metadata._update_keyspace / _drop_keyspace on the live Metadata and TokenMap."""
        from cassandra.metadata import KeyspaceMetadata
        cls = ("org.apache.cassandra.locator." if prefixed else "") + strategy
        opts = dict((k, str(v)) for k, v in options.items())
        if drop_first:
            self.metadata._drop_keyspace(name)
        self.metadata._update_keyspace(KeyspaceMetadata(name, True, cls, opts))

    def spec_replicas(self, strategy, options, key_token):
        """(ordered list of host indexes, set) according to Cassandra."""
        from spec import placement
        if strategy == "SimpleStrategy":
            lst = placement.simple_strategy(self.ring, int(options["replication_factor"]), key_token)
            return lst, set(lst)
        lst, per_dc = placement.network_topology(self.ring, self.locations, dict((k, int(v)) for k, v in options.items()), key_token)
        return lst, set(lst)

    def start_index(self, key_token):
        from spec import placement
        return placement.first_token_index(self.ring, key_token)

    def driver_replicas(self, ks, key):
        got = self.metadata.get_replicas(ks, key)
        return [self.index_of[h.endpoint] for h in got]


def is_known_replay_duplicate(world, strategy, drv, want_set):
    """Mechanism classifier for DESIGN section 6 item 19: NetworkTopologyStrategy keeps the hosts it
    skipped (rack already represented) in a LIST, once per token met, and replays that list when the
    last rack has been seen - a skipped host owning several tokens is appended several times and
    every surplus copy uses up one replica slot of the datacenter."""
    if strategy != "NetworkTopologyStrategy":
        return False
    counts = Counter(drv)
    dups = [h for h, c in counts.items() if c > 1]
    if not dups:
        return False
    surplus = len(drv) - len(counts)
    for h in dups:
        if world.tokens_owned[h] < 2 or counts[h] > world.tokens_owned[h]:
            return False
        first = drv.index(h)
        # it was skipped because another host of its rack had been placed before it
        if not any(x != h and world.locations[x] == world.locations[h] for x in drv[:first]):
            return False
    if set(drv) - want_set:
        return False
    missing = want_set - set(drv)
    if len(missing) > surplus:
        return False
    dup_dcs = set(world.locations[h][0] for h in dups)
    if any(world.locations[m][0] not in dup_dcs for m in missing):
        return False
    return True


def judge_world(ctx, world, configs, probes_per_ks, rng, origin, ks_names=None, prev_configs=None):
    """All keyspaces of one ring; every pool key is a probe (at / around / between / beyond).
    Returns the keyspace names; pass them back as ``ks_names`` to question the SAME keyspaces again."""
    pool = world.pool
    T = len(world.ring)
    ring_tokens = [t for t, _o in world.ring]
    ring_token_set = set(ring_tokens)
    struct = (world.part, tuple(o for _t, o in world.ring), world.locs)
    names = []
    for ci, (strategy, options, prefixed) in enumerate(configs):
        ks = ks_names[ci] if ks_names is not None else world.add_keyspace(strategy, options, prefixed)
        names.append(ks)
        rf_total = sum(int(v) for v in options.values())
        cache = {}
        probes = list(range(len(pool)))
        if probes_per_ks < len(probes):
            # always keep the keys sitting on / next to ring tokens and the extremes
            near = [i for i, (tok, _k) in enumerate(pool) if tok in ring_token_set]
            rest = [i for i in probes if i not in near]
            rng.shuffle(rest)
            probes = sorted(set(near + [0, len(pool) - 1] + rest[:max(0, probes_per_ks - len(near) - 2)]))
        for pi in probes:
            key_tok, key = pool[pi]
            if T:
                start = world.start_index(key_tok)
                if start not in cache:
                    cache[start] = world.spec_replicas(strategy, options, key_tok)
                want_list, want = cache[start]
                if key_tok in ring_token_set:
                    kind = "at"
                elif key_tok > ring_tokens[-1]:
                    kind = "beyond-last"
                elif key_tok < ring_tokens[0]:
                    kind = "before-first"
                else:
                    kind = "between"
            else:
                start, want_list, want, kind = -1, [], set(), "empty-ring"
            drv = world.driver_replicas(ks, key)
            nontrivial = len(world.locs) >= 2 and rf_total >= 1 and T >= 2
            ctx.case((struct, strategy, sorted(options.items()), start, kind), nontrivial=nontrivial)
            ctx.count("replica_lookups_compared")
            if prev_configs is not None:
                ctx.count("lookups_after_alter_keyspace")
                p_strategy, p_options, _pp = prev_configs[ci]
                before = world.spec_replicas(p_strategy, p_options, key_tok)[1] if T else None
                if before is not None and before != want:
                    ctx.count("lookups_whose_placement_shifted_with_the_replication_settings")
            elif ks_names is not None:
                ctx.count("lookups_after_relocation_and_rebuild")
                if world.previous is not None and T:
                    from spec import placement as _pl
                    old_ring, old_locations = world.previous
                    if strategy == "SimpleStrategy":
                        before = set(_pl.simple_strategy(old_ring, int(options["replication_factor"]), key_tok))
                    else:
                        before = set(_pl.network_topology(old_ring, old_locations, dict((k, int(v)) for k, v in options.items()), key_tok)[0])
                    if before != want:
                        ctx.count("lookups_whose_placement_shifted_with_the_layout")
                else:
                    before = None
            else:
                before = None
            if world.shared_address:
                ctx.count("lookups_on_worlds_with_hosts_sharing_an_address")
            ctx.count("probe_" + kind)
            if strategy == "SimpleStrategy":
                ctx.count("simple_strategy_lookups")
            else:
                ctx.count("nts_lookups")
            if T and world.tokens_owned.most_common(1)[0][1] > 1:
                ctx.count("lookups_on_multi_token_rings")
            repeated = len(drv) != len(set(drv))
            if not repeated and set(drv) == want:
                continue
            witness = {"partitioner": world.part, "ring": [(token_string(world.part, t), "h%d" % o) for t, o in world.ring],
                       "hosts": dict(("h%d" % i, "%s/%s" % l) for i, l in enumerate(world.locs)),
                       "strategy": strategy, "options": options, "key": key, "key_token": token_string(world.part, key_tok),
                       "probe": kind, "driver": ["h%d" % i for i in drv], "cassandra": sorted("h%d" % i for i in want),
                       "origin": origin}
            if repeated and is_known_replay_duplicate(world, strategy, drv, want):
                ctx.violation(KNOWN_DUP, "get_replicas returned %s (host repeated) where Cassandra places %s" % (
                    witness["driver"], witness["cassandra"]), witness)
                continue
            if repeated:
                ctx.violation("replica-repeated", "get_replicas returned %s: a host is repeated" % (witness["driver"],), witness)
                continue
            # classify the set mismatch by mechanism
            mech = "nts-replica-set-mismatch" if strategy == "NetworkTopologyStrategy" else "simple-replica-set-mismatch"
            if prev_configs is not None and before is not None and set(drv) == before and before != want:
                mech = "replicas-of-the-previous-replication-settings-after-keyspace-update"
                witness["previous_settings"] = [prev_configs[ci][0], prev_configs[ci][1]]
            elif before is not None and set(drv) == before and before != want:
                mech = "replicas-of-the-previous-layout-after-rebuild_token_map"
                witness["previous_hosts"] = dict(("h%d" % i, "%s/%s" % l) for i, l in sorted(world.previous[1].items()))
                witness["previous_ring"] = [(token_string(world.part, t), "h%d" % o) for t, o in world.previous[0]]
            elif T >= 2:
                nxt = world.spec_replicas(strategy, options, ring_tokens[(start + 1) % T])[1] if kind == "at" else None
                prev_tok = ring_tokens[(start - 1) % T]
                prv = world.spec_replicas(strategy, options, prev_tok)[1]
                if nxt is not None and set(drv) == nxt and nxt != want:
                    mech = "token-range-lookup-picks-next-range-for-key-on-a-token"
                elif set(drv) == prv and prv != want:
                    mech = "token-range-lookup-picks-wrong-range"
            ctx.violation(mech, "get_replicas(%s %s, key %s token) = %s, Cassandra places %s" % (
                strategy, options, kind, witness["driver"], witness["cassandra"]), witness)
    return names


def alter_round(ctx, world, configs, ks_names, probes_per_ks, rng, origin):
    """Every keyspace (already questioned, so its replica map exists) gets the replication settings of its neighbour through
    the real update path - ALTER KEYSPACE, or DROP + CREATE - and is questioned again: the answers must follow the NEW settings.
    Returns the new configs."""
    if len(configs) < 2:
        return configs
    shift = rng.randrange(1, len(configs))
    new_configs = configs[shift:] + configs[:shift]
    for name, (strategy, options, prefixed) in zip(ks_names, new_configs):
        drop = rng.random() < 0.25
        world.alter_keyspace(name, strategy, options, prefixed, drop_first=drop)
        ctx.count("keyspaces_dropped_and_recreated" if drop else "keyspaces_altered")
    judge_world(ctx, world, new_configs, probes_per_ks, rng, origin, ks_names=ks_names, prev_configs=configs)
    return new_configs


def relocation_round(ctx, world, configs, ks_names, probes_per_ks, rng, origin):
    """Second act on the same Metadata: 1-2 hosts move (rack within the DC, or to another DC), rebuild_token_map is
    called with the same token ownership (or, as a control, with one token handed to another host), and the same
    keyspaces are questioned again - the answers must be the placement on the NEW layout."""
    n = len(world.locs)
    new_locs = list(world.locs)
    dcs = sorted(set(l[0] for l in world.locs) | set(["dc1", "dc2"]))
    for h in rng.sample(range(n), min(n, rng.choice([1, 1, 2]))):
        dc, rack = new_locs[h]
        if rng.random() < 0.6:
            rack = rng.choice([r for r in ("r1", "r2", "r3") if r != rack])
        else:
            dc = rng.choice([d for d in dcs if d != dc])
            rack = rng.choice(["r1", "r2"])
        new_locs[h] = (dc, rack)
    new_ring = None
    if rng.random() < 0.3 and n >= 2 and len(world.ring) >= 2:
        # control: token ownership changes at the same time (one token goes to another host that keeps >= 1 token)
        ring = list(world.ring)
        i = rng.randrange(len(ring))
        tok, owner = ring[i]
        if world.tokens_owned[owner] >= 2:
            ring[i] = (tok, rng.choice([h for h in range(n) if h != owner]))
            new_ring = ring
            ctx.count("relocations_with_token_ownership_change")
    replace = rng.random() < 0.4
    world.relocate(new_locs, new_ring, replace_hosts=replace)
    ctx.count("relocations")
    ctx.count("relocations_with_fresh_host_objects" if replace else "relocations_through_set_location_info")
    judge_world(ctx, world, configs, probes_per_ks, rng, origin, ks_names=ks_names)


def all_configs(dcs, rf_max, rng=None, extra_dc=False, banded=False):
    out = []
    for rf in range(0, rf_max + 1):
        out.append(("SimpleStrategy", {"replication_factor": rf}, rf % 2 == 1))
    dcs = sorted(dcs)
    if len(dcs) == 1:
        for rf in range(0, rf_max + 1):
            o = {dcs[0]: rf}
            if extra_dc and rf % 2:
                o["dc_absent"] = 2
            out.append(("NetworkTopologyStrategy", o, rf % 2 == 0))
    else:
        for rf1 in range(0, rf_max + 1):
            for rf2 in range(0, rf_max + 1):
                if banded and (rf2 - rf1) % (rf_max + 1) not in (0, 1, 3):
                    continue            # 15 of the 25 pairs: every RF value of each DC against 3 values of the other
                o = {dcs[0]: rf1, dcs[1]: rf2}
                if rf2 == 0 and rf1 % 2:
                    del o[dcs[1]]           # datacenter not mentioned at all
                out.append(("NetworkTopologyStrategy", o, (rf1 + rf2) % 3 == 0))
    return out


def canonical_owner_sequences(n_hosts, max_tokens_per_host):
    """Ring owner sequences in which hosts are numbered by first occurrence."""
    out = []
    for mult in itertools.product(range(1, max_tokens_per_host + 1), repeat=n_hosts):
        T = sum(mult)

        def rec(seq, left, next_new):
            if len(seq) == T:
                out.append(tuple(seq))
                return
            for h in range(n_hosts):
                if left[h] == 0:
                    continue
                if h > next_new:
                    break
                left[h] -= 1
                seq.append(h)
                rec(seq, left, next_new + 1 if h == next_new else next_new)
                seq.pop()
                left[h] += 1
        rec([], list(mult), 0)
    return out


def spread_positions(T, n_pool, shift):
    """T distinct pool indexes, roughly evenly spread, not always covering the extremes."""
    step = n_pool // (T + 1)
    base = 1 + (shift % max(1, step))
    return [base + i * step for i in range(T)]


def exhaustive_part(ctx, n_hosts_max, worker, nworkers, sample_fraction=1.0):
    rng = ctx.rng
    idx = 0
    parts = ("murmur3", "random", "bytes")
    for n in range(1, n_hosts_max + 1):
        seqs = canonical_owner_sequences(n, 2)
        for owners in seqs:
            for loc_choice in itertools.product(range(4), repeat=n):
                idx += 1
                if idx % nworkers != worker:
                    continue
                if sample_fraction < 1.0 and rng.random() >= sample_fraction:
                    continue
                locs = [LOCS4[c] for c in loc_choice]
                part = parts[idx // nworkers % 3]
                T = len(owners)
                positions = spread_positions(T, len(key_pool(part)), idx)
                world = World(part, owners, locs, positions)
                configs = all_configs(set(l[0] for l in locs), 4, extra_dc=True, banded=(n >= 4))
                ppk = min(len(world.pool), T + (4 if n <= 3 else 2))
                names = judge_world(ctx, world, configs, probes_per_ks=ppk, rng=rng, origin="exhaustive")
                ctx.count("exhaustive_rings")
                if n >= 2 and (idx // nworkers) % 6 == 0:
                    relocation_round(ctx, world, configs, names, ppk, rng, "exhaustive-relocated")
                elif n >= 2 and (idx // nworkers) % 6 == 3:
                    c2 = alter_round(ctx, world, configs, names, ppk, rng, "exhaustive-altered")
                    alter_round(ctx, world, c2, names, ppk, rng, "exhaustive-altered-twice")
    return idx


def random_world(rng):
    part = rng.choice(["murmur3", "murmur3", "random", "bytes"])
    n = rng.randint(1, 6)
    n_dcs = rng.randint(1, 2)
    n_racks = rng.randint(1, 3)
    locs = []
    for h in range(n):
        dc = "dc%d" % rng.randint(1, n_dcs)
        # skewed racks: a crowded rack next to nearly empty ones is where the rack rule matters
        rack = "r%d" % (1 if rng.random() < 0.45 else rng.randint(1, n_racks))
        locs.append((dc, rack))
    owners = []
    for h in range(n):
        owners += [h] * rng.randint(1, 4)
    style = rng.random()
    if style < 0.5:
        rng.shuffle(owners)
    elif style < 0.8:
        # keep each host's tokens adjacent (consecutive vnodes), shuffle the host order
        order = list(range(n))
        rng.shuffle(order)
        owners = [h for o in order for h in owners if h == o]
    else:
        rng.shuffle(owners)
        owners.sort(key=lambda h: (locs[h][1], rng.random()))
        cut = rng.randrange(len(owners))
        owners = owners[cut:] + owners[:cut]
    pool = key_pool(part)
    T = len(owners)
    positions = sorted(rng.sample(range(len(pool)), T))
    deltas = [rng.choice([0, 0, 1, -1]) for _ in range(T)] if part != "bytes" else [rng.choice([0, 0, 1]) for _ in range(T)]
    # a quarter of the worlds put several hosts on one address (different ports); derived from values already
    # drawn so that the random stream is the same as without this dimension
    world = World(part, owners, locs, positions, deltas, shared_address=(positions[0] + T) % 4 == 0)
    return world


def random_configs(rng, world, n_cfg):
    dcs = sorted(set(l[0] for l in world.locs))
    out = []
    for _ in range(n_cfg):
        if rng.random() < 0.25:
            out.append(("SimpleStrategy", {"replication_factor": rng.choice([0, 1, 2, 3, 4, 5, 7])}, rng.random() < 0.5))
        else:
            o = {}
            for dc in dcs:
                if rng.random() < 0.9:
                    o[dc] = rng.choice([0, 1, 2, 2, 3, 3, 4, 4, 5, 7])
            if rng.random() < 0.15:
                o["dc_absent"] = rng.randint(0, 3)
            if not o:
                o[dcs[0]] = 3
            out.append(("NetworkTopologyStrategy", o, rng.random() < 0.5))
    return out


def run(ctx):
    from vlib.run import Inconclusive
    from spec import placement, murmur, md5tok
    bad = placement.self_check() + murmur.self_check() + md5tok.self_check()
    if bad:
        raise Inconclusive("trusted base disagrees with itself: %r" % (bad[:2],))
    ctx.rule = ("(a) every ring structure (owner sequence up to host renaming) with <= 3 hosts [quick; <= 4 thorough, n=4 sampled on "
                "quick] x 1-2 tokens x every (dc, rack) assignment over 2x2, with SimpleStrategy RF 0..4 and NTS RF 0..4 per DC (4-host rings over two DCs: 15 of the 25 RF pairs, each value of each DC); "
                "(b) seeded random rings to 6 hosts x 3 racks x 2 DCs x 4 tokens with RF to 7; probes = pool keys at / next to / "
                "between / beyond ring tokens under Murmur3, Random and ByteOrdered partitioners. distinct = (partitioner, owner "
                "sequence, locations, strategy+options, token range hit, probe kind); trivial = single host, RF 0, single token")
    ctx.assume("ring tokens are pairwise distinct and every host has a datacenter and a rack (Cassandra guarantees both)")
    ctx.assume("the layout the driver answers for must be the current one: on a share of rings 1-2 hosts change rack or datacenter "
               "(set_location_info or fresh Host objects with the same endpoints), rebuild_token_map is called on the same Metadata "
               "with the same (or, as a control, changed) token ownership and the same keyspaces are questioned again")
    ctx.assume("keyspaces are created and altered through the real Metadata._update_keyspace / _drop_keyspace; on a share of rings every "
               "keyspace already questioned gets other replication settings (ALTER, or DROP + CREATE, also twice) and is questioned again")
    ctx.assume("transient replication ('3/1') is not generated: whether transient replicas belong in the driver's list is a "
               "design choice, not placement")
    ctx.assume("NTS oracle = Cassandra 3.x/4.x calculateNaturalReplicas (rack-diverse with rf - rackCount repeats allowed), "
               "cross-checked against the 2.x formulation; compared as sets because replica order across DCs is not specified")
    w = ctx.worker or 0
    nw = max(1, ctx.nworkers)
    rng = ctx.rng

    # the ring of DESIGN section 6 item 19, verbatim, so that the finding is re-observed in every run
    world = World("murmur3", (0, 1, 1, 3, 2), [("dc1", "r1"), ("dc1", "r1"), ("dc1", "r2"), ("dc1", "r1")], [5, 10, 15, 20, 25])
    judge_world(ctx, world, [("NetworkTopologyStrategy", {"dc1": rf}, False) for rf in range(0, 6)], len(world.pool), rng, "item19")

    if ctx.quick:
        exhaustive_part(ctx, 3, w, nw)
        exhaustive_part(ctx, 4, w, nw, sample_fraction=0.004)
    else:
        exhaustive_part(ctx, 4, w, nw)
        ctx.count("exhaustive_up_to_4_hosts_done")

    n_random = ctx.scale(450, 260000)
    for _ in range(n_random):
        world = random_world(rng)
        configs = random_configs(rng, world, 6)
        names = judge_world(ctx, world, configs, probes_per_ks=14, rng=rng, origin="random")
        ctx.count("random_rings")
        if len(world.locs) >= 2 and rng.random() < 0.35:
            configs = alter_round(ctx, world, configs, names, 14, rng, "random-altered")
            if rng.random() < 0.5:
                configs = alter_round(ctx, world, configs, names, 14, rng, "random-altered-twice")
        if len(world.locs) >= 2 and rng.random() < 0.4:
            relocation_round(ctx, world, configs, names, 14, rng, "random-relocated")
            if rng.random() < 0.3:
                relocation_round(ctx, world, configs, names, 14, rng, "random-relocated-twice")

    # an empty ring and an unknown partitioner answer with no replicas
    from cassandra.metadata import Metadata, KeyspaceMetadata
    m = Metadata()
    m.rebuild_token_map(PARTITIONER_NAMES["murmur3"], {})
    m.keyspaces["ks"] = KeyspaceMetadata("ks", True, "SimpleStrategy", {"replication_factor": "3"})
    ctx.case(("empty-ring",), nontrivial=False)
    if m.get_replicas("ks", b"k") != []:
        ctx.violation("empty-ring-has-replicas", "get_replicas on an empty ring returned %r" % (m.get_replicas("ks", b"k"),), {})

    ctx.sample({"ring": [(token_string(world.part, t), "h%d" % o) for t, o in world.ring],
                "hosts": dict(("h%d" % i, "%s/%s" % l) for i, l in enumerate(world.locs))})
    ctx.floor_distinct = 8000 if ctx.quick else 400000
    ctx.floor_counters = {"replica_lookups_compared": 100000, "nts_lookups": 60000, "simple_strategy_lookups": 10000,
                          "probe_at": 20000, "probe_between": 5000, "probe_beyond-last": 1000, "probe_before-first": 1000,
                          "lookups_on_multi_token_rings": 30000, "exhaustive_rings": 2000, "random_rings": 400,
                          "keyspaces_altered": 2000, "keyspaces_dropped_and_recreated": 500, "lookups_after_alter_keyspace": 20000,
                          "lookups_whose_placement_shifted_with_the_replication_settings": 5000,
                          "relocations": 400, "lookups_after_relocation_and_rebuild": 20000,
                          "lookups_whose_placement_shifted_with_the_layout": 3000,
                          "relocations_through_set_location_info": 100, "relocations_with_fresh_host_objects": 100}
