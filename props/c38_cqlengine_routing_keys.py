"""C38 - cqlengine routing keys equal the partition key Cassandra hashes.

Monitor: dynamically defined cqlengine models (1-3 partition-key columns of every key-capable column
class, clustering keys, value columns, shuffled declaration order, db_field renames, inherited /
overridden key columns) are driven through create / save / update / delete / get / filter / queryset
update+delete on a REAL Session that lives in the deterministic world (sim/env.py) and is registered
with ``cassandra.cqlengine.connection.register_connection(session=...)``.  ``session.execute`` is
wrapped: every statement object that reaches it is recorded and then passed on to the simulated node.
Oracle: a statement that fixes the whole partition key carries ``routing_key`` == the independent
CompositeType layout (spec/partkey.py) of the independent encodings (spec/cqlcodec.py) of the key
values, in the partition-key order of the table cqlengine itself would create (``CREATE TABLE``
text), and the model's keyspace; a statement that does not fix the whole key carries none.
"""
import datetime
import decimal
import random
import re

PROPERTY = "C38"
LEVEL = "exploration"
ENGINE = "sim+spec"
TECHNIQUE = "runtime monitor: statements intercepted at a real Session (deterministic world), routing key compared with independent key layout/codec"
LEVEL_TEXT = ("Thousands (quick) to hundreds of thousands (thorough) of cqlengine statements over generated models are executed through a real "
              "Cluster/Session in the deterministic world; the SimpleStatement seen at session.execute must carry Cassandra's partition-key "
              "bytes (independent composite layout over independently encoded components, order taken from the CREATE TABLE text cqlengine "
              "emits) exactly when the statement fixes the whole partition key. Held-on-observed over generated models and values.")
LEVEL_NOTE = ("Trusted base: spec/cqlcodec.py, spec/partkey.py, the CREATE TABLE text of cassandra.cqlengine.management (defines which key "
              "Cassandra hashes), sim world. Key values avoid inputs with known C36 conversion defects (datetimes are whole seconds), empty "
              "text/blob keys, NaN; batches and lightweight transactions are not exercised.")
QUICK_WORKERS = 2
WORKERS = 14


def run(ctx):
    from vlib.run import Inconclusive
    from vlib import shim
    from sim.env import SimEnv
    from sim import world as W
    from props import _cqlgen as G
    from spec import cqlcodec as S
    from spec import partkey as PK

    shim.import_cluster()
    from cassandra.cqlengine import connection as CQ, models, columns as C, usertype as UT, management
    from cassandra.cqlengine.query import DoesNotExist, MultipleObjectsReturned  # noqa: F401
    from cassandra.query import SimpleStatement

    rng = ctx.rng
    G.ORDERED_SETS = True
    ctx.count("spec_selfcheck_cases", S.selfcheck() + PK.selfcheck())
    ctx.rule = ("case = (model: 1-3 partition-key columns drawn from 18 scalar column classes + Tuple + UserDefinedType, 0-2 clustering keys, "
                "value columns, shuffled declaration order, db_field renames, optional model hierarchy (abstract or concrete base; subclass "
                "re-declaring inherited key columns with the same or another column class, adding key/value columns; or columns spread over 2-3 "
                "abstract bases defined in one order and listed in another, column objects instantiated in a third), "
                "__compute_routing_key__ on/off; operation in {create, save, save-with-null, instance update, instance delete, get, first, "
                "list+limit/allow_filtering, chained filters in any keyword order, queryset update, queryset delete, ttl create | partial "
                "key, IN on a key column, clustering-only filter, unfiltered scan}; key values from the boundary pools); distinct by "
                "(key types, pk order, operation, canonical key values, protocol version); every case is non-trivial")
    ctx.assume("key values avoid inputs whose cqlengine conversion is a known C36 finding (datetimes are whole seconds, no Blob inside Tuple nulls), "
               "empty text/blob keys and NaN")
    ctx.assume("the partition key Cassandra hashes is the PRIMARY KEY ((...)) column order of the CREATE TABLE statement cqlengine's management emits for the model")
    ctx.assume("batches and lightweight transactions are not exercised (a batch has no single routing key in cqlengine)")

    SCALAR_COLS = {
        'text': C.Text, 'ascii': C.Ascii, 'int': C.Integer, 'tinyint': C.TinyInt, 'smallint': C.SmallInt, 'bigint': C.BigInt,
        'varint': C.VarInt, 'timestamp': C.DateTime, 'date': C.Date, 'time': C.Time,
        'uuid': C.UUID, 'timeuuid': C.TimeUUID, 'boolean': C.Boolean, 'float': C.Float, 'double': C.Double, 'decimal': C.Decimal,
        'blob': C.Blob, 'inet': C.Inet,
    }
    KEY_SCALARS = list(SCALAR_COLS)
    counter = [0]

    def gen_key_type():
        r = rng.random()
        if r < 0.8:
            return (rng.choice(KEY_SCALARS),)
        if r < 0.93:
            return ('tuple',) + tuple((rng.choice(KEY_SCALARS),) for _ in range(rng.randint(1, 3)))
        counter[0] += 1
        return ('udt', 'ks38', 'c38udt%d_%d' % (ctx.worker or 0, counter[0]),
                tuple(('f%d' % i, (rng.choice(KEY_SCALARS),)) for i in range(rng.randint(1, 3))))

    def make_column(t, **kw):
        k = t[0]
        if k in SCALAR_COLS:
            return SCALAR_COLS[k](**kw)
        if k == 'tuple':
            return C.Tuple(*[make_column(x) for x in t[1:]], **kw)
        if k == 'udt':
            attrs = dict((fn, make_column(ft)) for fn, ft in t[3])
            return C.UserDefinedType(type(t[2], (UT.UserType,), attrs), **kw)
        raise AssertionError(t)

    def db_type_name(t):
        if t[0] in SCALAR_COLS:
            return t[0]
        if t[0] == 'tuple':
            return 'tuple<%s>' % ', '.join(db_type_name(x) for x in t[1:])
        return 'frozen<%s>' % t[2]

    def gen_scalar_pair(k, allow_sized=False):
        """(canonical, python input) for a key component"""
        for _ in range(50):
            if k == 'timestamp':
                secs = rng.choice([0, 1, -1, 1700000000, 2 ** 31, -2 ** 31, rng.randint(-62135596800, 253402300799), rng.randint(0, 4102444800)])
                return secs * 1000, datetime.datetime(1970, 1, 1) + datetime.timedelta(seconds=secs)
            if allow_sized and k in ('text', 'ascii', 'blob') and rng.random() < 0.04:
                # serialized sizes around the 8/15/16-bit boundaries (a key component is at most 65535 bytes in Cassandra)
                n = rng.choice([127, 128, 255, 256, 32766, 32767, 32768, 32769, 40000, 65534, 65535])
                if k == 'blob':
                    v = rng.randbytes(n)
                else:
                    two = rng.randint(0, 8) if k == 'text' else 0
                    body = ''.join(chr(rng.randint(32, 126)) for _ in range(64))
                    v = (body * (n // 64 + 1))[:n - 2 * two] + '\xe9' * two
                return v, (v if k != 'blob' else rng.choice([bytes, bytearray])(v))
            v = G.gen_scalar(rng, k)
            if k in ('text', 'ascii', 'blob') and len(v) == 0:
                continue
            if k in ('float', 'double') and v != v:
                continue
            return v, G.to_driver(rng, (k,), v)
        raise Inconclusive("no key value for %s" % k)

    def gen_pair(t, udt_cls=None):
        k = t[0]
        if k in SCALAR_COLS:
            return gen_scalar_pair(k, allow_sized=True)       # a whole key component; inside tuples / user types the sum would exceed 65535
        if k == 'tuple':
            pairs = []
            for ft in t[1:]:
                if rng.random() < 0.1 and ft[0] != 'blob':
                    pairs.append((None, None))
                else:
                    pairs.append(gen_scalar_pair(ft[0]))
            return tuple(p[0] for p in pairs), tuple(p[1] for p in pairs)
        if k == 'udt':
            pairs = [gen_scalar_pair(ft[0]) if rng.random() > 0.1 else (None, None) for fn, ft in t[3]]
            return tuple(p[0] for p in pairs), udt_cls(**dict((fn, p[1]) for (fn, ft), p in zip(t[3], pairs)))
        raise AssertionError(t)

    class Spec(object):
        pass

    def build_model():
        counter[0] += 1
        mid = counter[0]
        sp = Spec()
        npk = rng.choice([1, 1, 2, 2, 2, 3, 3])
        nck = rng.choice([0, 1, 1, 2])
        slots = [('p', i) for i in range(npk)] + [('c', i) for i in range(nck)] + [('v', i) for i in range(rng.randint(1, 2))]
        rng.shuffle(slots)
        shape = rng.random()
        sp.inherit = shape < 0.3                  # one base + a subclass re-declaring / adding columns
        sp.mixins = 0.3 <= shape < 0.5            # columns spread over several abstract bases listed in any order
        sp.compute = rng.random() > 0.06
        cols = []           # (attr name, kind, spec type, column)
        names = {'p': ['pa', 'pb', 'pc'], 'c': ['ca', 'cb'], 'v': ['va', 'vb']}
        rng.shuffle(names['p'])
        for kind, i in slots:
            nm = names[kind][i]
            kw = {}
            if rng.random() < 0.2:
                kw['db_field'] = nm.upper() + '_f'
            if kind == 'p':
                t = gen_key_type()
                kw['partition_key'] = True
                if npk == 1 and not sp.mixins and rng.random() < 0.5:
                    kw = dict((a, b) for a, b in kw.items() if a != 'partition_key')
                    kw['primary_key'] = True          # first primary key = the partition key
            elif kind == 'c':
                t = (rng.choice(['int', 'text', 'timeuuid', 'bigint', 'date']),)
                kw['primary_key'] = True
            else:
                t = (rng.choice(['int', 'text', 'double']),)
            cols.append([nm, kind, t, make_column(t, **kw), kw])
        if npk == 1:
            # with primary_key=True only, the partition column must be the first primary key declared
            firstpk = [c for c in cols if c[1] in ('p', 'c')][0]
            pcol = [c for c in cols if c[1] == 'p'][0]
            if 'partition_key' not in pcol[4] and firstpk is not pcol:
                cols.remove(pcol)
                cols.insert(cols.index(firstpk), pcol)
                pcol[3] = make_column(pcol[2], **pcol[4])
                for c in cols[cols.index(pcol) + 1:]:
                    c[3] = make_column(c[2], **c[4])           # re-create: declaration order = creation order
        attrs = {'__keyspace__': rng.choice(['ks38', 'Ks_B']), '__table_name__': 't38_%d_%d' % (ctx.worker or 0, mid)}
        if not sp.compute:
            attrs['__compute_routing_key__'] = False
        sp.retyped = sp.added_key = sp.concrete_base = sp.redeclared = sp.redeclared_as_partition_key = False
        if sp.inherit:
            # a model hierarchy: the base (abstract, or concrete with a table of its own) declares the columns; the subclass may
            # re-declare inherited partition-key columns (fresh column objects, same or ANOTHER column class, either keyword form),
            # re-declare a non-key column, and add key / value columns of its own.  The table cqlengine creates for the subclass
            # (and therefore the key Cassandra hashes) is made of the subclass's final columns.
            base_attrs = dict((c[0], c[3]) for c in cols)
            if rng.random() < 0.6:
                base_attrs['__abstract__'] = True
            else:
                sp.concrete_base = True
                base_attrs['__keyspace__'] = attrs['__keyspace__']
                base_attrs['__table_name__'] = 'b38_%d_%d' % (ctx.worker or 0, mid)
            base = type('B38_%d' % mid, (models.Model,), base_attrs)
            for c in [c for c in cols if c[1] == 'p']:
                if rng.random() < 0.5:
                    newt = c[2] if rng.random() < 0.3 else gen_key_type()
                    kw = dict((a, b) for a, b in c[4].items() if a not in ('partition_key', 'primary_key'))
                    kw[rng.choice(['partition_key', 'primary_key'])] = True
                    sp.redeclared = True
                    if kw.get('partition_key'):
                        sp.redeclared_as_partition_key = True
                    if newt != c[2]:
                        sp.retyped = True
                    c[2], c[4] = newt, kw
                    c[3] = make_column(newt, **kw)
                    attrs[c[0]] = c[3]
            if rng.random() < 0.3:
                c = rng.choice([c for c in cols if c[1] == 'v'])
                c[3] = make_column(c[2], **c[4])
                attrs[c[0]] = c[3]
            if rng.random() < 0.25:
                t = gen_key_type()
                kw = {'partition_key': True}
                cols.append(['pd', 'p', t, make_column(t, **kw), kw])
                attrs['pd'] = cols[-1][3]
                sp.added_key = True
            if rng.random() < 0.2:
                t = (rng.choice(['int', 'text', 'bigint']),)
                kw = {'primary_key': True}
                cols.append(['cz', 'c', t, make_column(t, **kw), kw])
                attrs['cz'] = cols[-1][3]
            attrs['vz'] = C.Integer()
            model = type('M38_%d' % mid, (base,), attrs)
        elif sp.mixins:
            # the columns are spread over 2-3 abstract bases (mixins) and the model itself; the bases are DEFINED in one order and
            # LISTED in the class statement in another; column objects are instantiated either base by base or all up front in yet
            # another order.  Clustering columns live where a partition-key column lives (or in the model), so that no base turns
            # its first primary key into a partition key.
            nb = rng.randint(2, 3)
            home = {}
            for c in cols:
                home[c[0]] = rng.randrange(nb) if c[1] == 'p' else (rng.randrange(-1, nb) if c[1] == 'v' else None)
            with_p = sorted(set(home[c[0]] for c in cols if c[1] == 'p'))
            for c in cols:
                if c[1] == 'c':
                    home[c[0]] = rng.choice(with_p + [-1])
            per_base = rng.random() < 0.5
            if not per_base:
                order = list(cols)
                rng.shuffle(order)
                for c in order:
                    c[3] = make_column(c[2], **c[4])           # creation order unrelated to where the column is declared
            bases = []
            for b in range(nb):
                battrs = {'__abstract__': True}
                mine = [c for c in cols if home[c[0]] == b]
                rng.shuffle(mine)
                for c in mine:
                    if per_base:
                        c[3] = make_column(c[2], **c[4])
                    battrs[c[0]] = c[3]
                bases.append(type('X38_%d_%d' % (mid, b), (models.Model,), battrs))
            own = [c for c in cols if home[c[0]] == -1]
            for c in own:
                if per_base:
                    c[3] = make_column(c[2], **c[4])
                attrs[c[0]] = c[3]
            attrs['vz'] = C.Integer()
            rng.shuffle(bases)
            model = type('M38_%d' % mid, tuple(bases), attrs)
        else:
            items = [(c[0], c[3]) for c in cols]
            rng.shuffle(items)                 # the order of the class body is irrelevant: columns are ordered by instantiation
            attrs.update(items)
            model = type('M38_%d' % mid, (models.Model,), attrs)
        sp.model = model
        sp.cols = dict((c[0], c) for c in cols)
        sp.decl_pk = [c[0] for c in cols if c[1] == 'p']
        sp.ck = [c[0] for c in cols if c[1] == 'c']
        sp.vals = [c[0] for c in cols if c[1] == 'v']
        # ground truth: the table cqlengine would create
        ddl = management._get_create_table(model)
        m = re.search(r'PRIMARY KEY \(\((.*?)\)', ddl)
        if not m:
            raise Inconclusive("cannot read the partition key from %r" % ddl)
        db_names = [x.strip().strip('"') for x in m.group(1).split(',')]
        by_db = dict(((c[4].get('db_field') or c[0]), c[0]) for c in cols)
        try:
            sp.pk = [by_db[n] for n in db_names]
        except KeyError:
            raise Inconclusive("CREATE TABLE names unknown key columns: %r" % ddl)
        if sorted(sp.pk) != sorted(sp.decl_pk):
            ctx.violation("table-partition-key-differs-from-model", "CREATE TABLE partition key %r, model declares %r" % (sp.pk, sp.decl_pk), {"ddl": ddl})
            return None
        # the oracle's key types must be the types of the table (harness sanity, never a verdict)
        for n in sp.pk:
            c = sp.cols[n]
            decl = '"%s" %s ' % (c[4].get('db_field') or c[0], db_type_name(c[2]))
            if decl not in ddl:
                raise Inconclusive("CREATE TABLE %r does not declare %r" % (ddl, decl))
        sp.ddl = ddl
        sp.keyspace = attrs['__keyspace__']
        return sp

    def expected_key(sp, canon, pv):
        parts = [S.enc(sp.cols[n][2], canon[n], pv) for n in sp.pk]
        return PK.partition_key(parts), parts

    def classify(got, parts):
        if not isinstance(got, (bytes, bytearray)):
            return "routing-key-not-bytes"
        if len(parts) == 1:
            return "routing-key-single-component-differs"
        try:
            have = PK.split_composite(got)
        except PK.KeyError_:
            return "routing-key-composite-layout-wrong"
        if have != list(parts) and sorted(have) == sorted(parts):
            return "routing-key-components-in-wrong-order"
        return "routing-key-components-differ"

    seen = []

    def run_history(hseed, budget_models):
        random.seed(hseed)
        ch = W.RandomChooser(random.Random(hseed), p_time=0.0, p_preempt=0.0)
        env = SimEnv(ch, addresses=['127.0.0.1', '127.0.0.2'])
        pv = rng.choice([3, 4, 4])          # the simulated node does not complete a v5 handshake (segment framing); v5 encodes keys as v4
        with env:
            cluster = env.cluster(protocol_version=pv)
            session = cluster.connect()
            real_execute = session.execute

            def recording_execute(query, parameters=None, *a, **kw):
                seen.append((query, parameters))
                ctx.count("statements_intercepted")
                return real_execute(query, parameters, *a, **kw)
            session.execute = recording_execute
            CQ.register_connection('c38', session=session, default=True)
            try:
                for _ in range(budget_models):
                    sp = build_model()
                    if sp is None:
                        continue
                    ctx.count("models")
                    ctx.count("models_npk_%d" % len(sp.pk))
                    if sp.inherit:
                        ctx.count("models_inheriting_from_a_base_model")
                    if sp.mixins:
                        ctx.count("models_with_columns_from_several_abstract_bases")
                        if len(sp.pk) > 1:
                            ctx.count("models_with_composite_key_from_several_abstract_bases")
                    if len(sp.pk) > 1:
                        created = [sp.cols[n][3].position for n in sp.pk]
                        if created != sorted(created):
                            ctx.count("models_whose_table_key_order_differs_from_column_creation_order")
                    if sp.redeclared:
                        ctx.count("models_with_overridden_key_column")
                    if sp.retyped:
                        ctx.count("models_with_inherited_key_column_redeclared_with_another_type")
                    if sp.added_key:
                        ctx.count("models_with_key_column_added_by_the_subclass")
                    if sp.concrete_base:
                        ctx.count("models_with_concrete_base")
                    if sp.inherit and not sp.redeclared:
                        ctx.count("models_inheriting_keys_without_redeclaring")
                    if not sp.compute:
                        ctx.count("models_with_routing_disabled")
                    if sp.pk != sp.decl_pk:
                        ctx.count("models_table_key_order_differs_from_declaration_order")
                    drive_model(sp, pv)
            finally:
                session.execute = real_execute
                CQ.unregister_connection('c38')         # shuts the cluster down
                env.world.settle()
            if env.world.errors:
                raise Inconclusive("exceptions escaped sim threads: %r" % (env.world.errors[:2],))
            if env.net.parse_failures:
                raise Inconclusive("the node could not parse a request: %r" % (env.net.parse_failures[:1],))
        ctx.count("histories")

    def drive_model(sp, pv):
        M = sp.model
        udt_cls = dict((n, c[3].user_type) for n, c in sp.cols.items() if c[2][0] == 'udt')

        prev = {}

        def twin(k, v):
            """a value equal to v under Python's == whose Cassandra encoding differs (None when the type has none)"""
            if k == 'decimal' and isinstance(v, decimal.Decimal) and v.is_finite():
                sign, digits, exp = v.as_tuple()
                return decimal.Decimal((sign, tuple(digits) + (0,), exp - 1))
            if k in ('float', 'double') and v == 0:
                return -v
            return None

        def fresh_values():
            """Key values for the next operation.  Now and then the partition key repeats the previous operation's key with
            components replaced by an equal-but-differently-encoded twin (Decimal('1.0') / Decimal('1.00'), 0.0 / -0.0): a
            routing key must follow the value's encoding, not its == class."""
            canon, inp = {}, {}
            reuse = bool(prev) and rng.random() < 0.3
            twins = 0
            for n, c in sp.cols.items():
                if c[1] == 'v':
                    v = {'int': 5, 'text': 'x', 'double': 1.5}[c[2][0]]
                    canon[n], inp[n] = v, v
                elif c[1] == 'c':
                    canon[n], inp[n] = gen_scalar_pair(c[2][0])
                elif reuse and n in prev:
                    k = c[2][0]
                    tv = twin(k, prev[n][0]) if k in ('decimal', 'float', 'double') else None
                    if tv is not None:
                        canon[n], inp[n] = tv, G.to_driver(rng, (k,), tv)
                        twins += 1
                    else:
                        canon[n], inp[n] = prev[n]
                elif c[2][0] in ('float', 'double') and rng.random() < 0.2:
                    z = rng.choice([0.0, -0.0])
                    canon[n], inp[n] = z, z
                else:
                    canon[n], inp[n] = gen_pair(c[2], udt_cls.get(n))
            if twins:
                ctx.count("operations_on_an_equal_but_differently_encoded_partition_key")
            prev.clear()
            prev.update((n, (canon[n], inp[n])) for n, c in sp.cols.items() if c[1] == 'p')
            return canon, inp

        def observe(opname, fn, canon, routed, tolerate=()):
            """run one cqlengine operation; every statement it sends must be routed to the key of ``canon`` (or carry no key)"""
            del seen[:]
            try:
                fn()
            except tolerate:
                pass
            except Exception as e:
                import traceback
                frames = [f.name for f in traceback.extract_tb(e.__traceback__)]
                if any(f in ('_routing_key_from_values', 'partition_key_values', '_update_part_key_values', '_set_routing_key',
                             '_key_parts_packed') or 'key_serializer' in f for f in frames) or (
                        '_execute_statement' in frames and frames[-1] in ('<lambda>', 'to_binary', 'serialize')):
                    mech = "routing-key-computation-raises"
                    if (isinstance(e, IndexError) and frames[-1] == '_update_part_key_values' and sp.added_key and sp.redeclared_as_partition_key
                            and sorted(sp.model._partition_key_index.values()) != list(range(len(sp.model._partition_key_index)))):
                        # the model's key index map has a hole: see known_findings.d/C38.json
                        mech = "partition-key-index-gap-when-subclass-redeclares-and-adds-partition-key"
                    ctx.violation(mech, "%s: computing the routing key raised %s: %s" % (opname, type(e).__name__, str(e)[:200]),
                                  {"operation": opname, "frames": frames[-6:], "partition_key": [(n, S.cql_name(sp.cols[n][2]) if sp.cols[n][2][0] != 'udt' else 'udt') for n in sp.pk],
                                   "key_values": repr([canon[n] for n in sp.pk])[:300] if canon else None})
                    return
                if not seen:
                    ctx.count("operation_failed_before_sending:%s:%s" % (opname, type(e).__name__))
                    return
                ctx.count("operation_raised_after_sending:%s:%s" % (opname, type(e).__name__))
            if not seen:
                ctx.count("operation_sent_nothing:" + opname)
                return
            want = parts = None
            if routed and sp.compute:
                want, parts = expected_key(sp, canon, pv)
            ctx.case(repr((opname, [S.cql_name(sp.cols[n][2]) if sp.cols[n][2][0] != 'udt' else 'udt' for n in sp.pk], sp.pk, sp.inherit, pv,
                           [G.canon_key(sp.cols[n][2], canon[n]) for n in sp.pk] if canon else None)))
            for q, params in seen:
                wit = {"operation": opname, "statement": getattr(q, 'query_string', repr(q))[:300], "parameters": repr(params)[:300], "pv": pv,
                       "partition_key": [(n, S.cql_name(sp.cols[n][2]) if sp.cols[n][2][0] != 'udt' else 'udt') for n in sp.pk],
                       "key_values": repr([canon[n] for n in sp.pk])[:300] if canon else None, "create_table": sp.ddl[:300],
                       "overridden_key_column": sp.inherit}
                if not isinstance(q, SimpleStatement):
                    raise Inconclusive("cqlengine sent a %s" % type(q).__name__)
                try:
                    got = q.routing_key
                except Exception as e:
                    ctx.violation("routing-key-raises", "%s: routing_key raised %s: %s" % (opname, type(e).__name__, e), wit)
                    continue
                if want is None:
                    if got is not None:
                        mech = "routing-key-on-statement-without-whole-partition-key" if sp.compute else "routing-key-although-disabled"
                        ctx.violation(mech, "%s: statement %r does not fix the whole partition key but carries routing key %r" % (
                            opname, wit["statement"], got), dict(wit, routing_key=got))
                    else:
                        ctx.count("unrouted_statements_without_key")
                    continue
                if got is None:
                    ctx.violation("routing-key-missing", "%s: statement %r fixes the whole partition key but carries no routing key" % (
                        opname, wit["statement"]), wit)
                    continue
                if not isinstance(got, (bytes, bytearray)) or bytes(got) != want:
                    ctx.violation(classify(got, parts), "%s: routing key %r, Cassandra hashes %r (components %r)" % (opname, got, want, parts),
                                  dict(wit, routing_key=got, expected=want))
                    continue
                if q.keyspace != sp.keyspace:
                    ctx.violation("routing-keyspace-wrong", "%s: routed statement carries keyspace %r, the model lives in %r" % (
                        opname, q.keyspace, sp.keyspace), wit)
                    continue
                ctx.count("routing_keys_equal")
                ctx.count("routing_keys_equal:" + opname)
                ctx.count("routing_keys_composite" if len(parts) > 1 else "routing_keys_single")
                if len(parts) > 1 and max(len(p) for p in parts) >= 32768:
                    ctx.count("routing_keys_composite_with_component_of_32768_to_65535_bytes")
                for n in sp.pk:
                    ctx.count("key_component:" + type(sp.cols[n][3]).__name__)
                if len(parts) > 1 and len(ctx.samples) < 6 and rng.random() < 0.01:
                    ctx.sample({"operation": opname, "statement": wit["statement"], "partition_key": wit["partition_key"],
                                "key_values": wit["key_values"], "routing_key": got})

        def kwargs_for(names, inp, shuffle=True):
            items = [(n, inp[n]) for n in names]
            if shuffle:
                rng.shuffle(items)
            return dict(items)

        nops = rng.randint(6, 12)
        ops = ['create', 'save', 'save_null', 'update', 'delete', 'get', 'first', 'list', 'chained', 'qs_update', 'qs_delete', 'ttl_create',
               'model_get', 'partial', 'in_filter', 'clustering_only', 'scan']
        for _ in range(nops):
            op = rng.choice(ops)
            canon, inp = fresh_values()
            allkw = kwargs_for(list(sp.cols), inp)
            pkkw = kwargs_for(sp.pk, inp)
            v0 = sp.vals[0]
            newv = {'int': 7, 'text': 'y', 'double': 2.5}[sp.cols[v0][2][0]]
            if op == 'create':
                observe(op, lambda: M.create(**allkw), canon, True)
            elif op == 'ttl_create':
                observe(op, lambda: M.ttl(60).create(**allkw), canon, True)
            elif op == 'save':
                observe(op, lambda: M(**allkw).save(), canon, True)
            elif op in ('save_null', 'update', 'delete'):
                holder = []
                observe('create', lambda: holder.append(M.create(**allkw)), canon, True)
                if not holder:
                    continue
                inst = holder[0]
                if op == 'save_null':
                    def f():
                        setattr(inst, v0, None)
                        inst.save()
                    observe(op, f, canon, True)
                elif op == 'update':
                    observe(op, lambda: inst.update(**{v0: newv}), canon, True)
                else:
                    observe(op, lambda: inst.delete(), canon, True)
            elif op == 'get':
                observe(op, lambda: M.objects(**pkkw).get(), canon, True, tolerate=(M.DoesNotExist,))
            elif op == 'model_get':
                kw = kwargs_for(sp.pk + sp.ck, inp)
                observe(op, lambda: M.get(**kw), canon, True, tolerate=(M.DoesNotExist,))
            elif op == 'first':
                observe(op, lambda: M.objects.filter(**pkkw).first(), canon, True)
            elif op == 'list':
                kw = kwargs_for(sp.pk + sp.ck[:rng.randint(0, len(sp.ck))], inp)
                def f():
                    qs = M.objects(**kw)
                    if rng.random() < 0.5:
                        qs = qs.limit(rng.randint(1, 50))
                    if rng.random() < 0.3:
                        qs = qs.allow_filtering()
                    list(qs)
                observe(op, f, canon, True)
            elif op == 'chained':
                order = list(sp.pk)
                rng.shuffle(order)
                def f():
                    qs = M.objects
                    for n in order:
                        qs = qs.filter(**{n: inp[n]})
                    list(qs)
                observe(op, f, canon, True)
            elif op == 'qs_update':
                kw = kwargs_for(sp.pk + sp.ck, inp)
                observe(op, lambda: M.objects(**kw).update(**{v0: newv}), canon, True)
            elif op == 'qs_delete':
                observe(op, lambda: M.objects(**pkkw).delete(), canon, True)
            elif op == 'partial':
                if len(sp.pk) < 2:
                    continue
                sub = rng.sample(sp.pk, rng.randint(1, len(sp.pk) - 1))
                kw = kwargs_for(sub + sp.ck[:rng.randint(0, len(sp.ck))], inp)
                observe(op, lambda: list(M.objects(**kw).allow_filtering()), canon, False)
            elif op == 'in_filter':
                n = rng.choice(sp.pk)
                if sp.cols[n][2][0] in ('udt',):
                    continue
                kw = kwargs_for([x for x in sp.pk if x != n], inp)
                kw[n + '__in'] = [inp[n]]
                observe(op, lambda: list(M.objects.filter(**kw)), canon, False)
            elif op == 'clustering_only':
                if not sp.ck:
                    continue
                kw = kwargs_for(sp.ck, inp)
                observe(op, lambda: list(M.objects.filter(**kw).allow_filtering()), canon, False)
            elif op == 'scan':
                observe(op, lambda: list(M.objects.all().limit(3)), None, False)

    # ---------------------------------------------------------------- budget
    n_hist = ctx.scale(40, 3000)
    budget = 40 if ctx.quick else 300
    for h in range(n_hist):
        if ctx.time_left(budget) < 0:
            ctx.note("stopped by time budget after %d histories" % h)
            break
        run_history(rng.getrandbits(32), 25)

    ctx.floor_distinct = 1500 if ctx.quick else 40000
    fl = {"routing_keys_equal": 2000, "routing_keys_composite": 1000, "routing_keys_single": 300, "unrouted_statements_without_key": 300,
          "models_with_overridden_key_column": 20, "models_with_composite_key_from_several_abstract_bases": 40,
          "models_whose_table_key_order_differs_from_column_creation_order": 20, "routing_keys_composite_with_component_of_32768_to_65535_bytes": 10, "models_with_inherited_key_column_redeclared_with_another_type": 20,
          "models_with_key_column_added_by_the_subclass": 10, "models_with_concrete_base": 10, "models_inheriting_keys_without_redeclaring": 10, "models_npk_1": 30, "models_npk_2": 30, "models_npk_3": 30, "histories": 3}
    for op in ('create', 'save', 'save_null', 'update', 'delete', 'get', 'model_get', 'first', 'list', 'chained', 'qs_update', 'qs_delete', 'ttl_create'):
        fl["routing_keys_equal:" + op] = 30
    for cname in ('Text', 'Ascii', 'Integer', 'TinyInt', 'SmallInt', 'BigInt', 'VarInt', 'DateTime', 'Date', 'Time', 'UUID', 'TimeUUID', 'Boolean',
                  'Float', 'Double', 'Decimal', 'Blob', 'Inet', 'Tuple', 'UserDefinedType'):
        fl["key_component:" + cname] = 20
    ctx.floor_counters = fl
