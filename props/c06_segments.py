"""C06 - protocol v5 segments are reassembled exactly and corruption is detected.

Monitor: a real Connection in checksumming state (real ``_enable_checksumming``) receives
segment streams produced by the independent encoder spec/segments.py (clean: any message
sizes, compressed codec with sender-chosen uncompressed segments, any split; corrupted: one
flipped bit) and the delivery log / connection state is judged after every read.  The driver's
own outgoing segments are read back by the independent decoder.
"""
import itertools
import zlib

PROPERTY = "C06"
LEVEL = "fault_enumeration"
ENGINE = "spec+sim"
TECHNIQUE = "runtime monitor + bit-flip fault enumeration: delivery log and defunct state judged against an independent segment codec"
LEVEL_TEXT = ("Clean streams: message sizes 0..3x128KiB+5 incl. the 131071/131072 boundary, 1-6 messages, packed/unpacked, codec none / "
              "stand-in compression with per-segment 'leave uncompressed', splits around header/CRC/payload boundaries: delivered == sent and "
              "no spurious CRC error. Faults: every bit of header+CRC24 and of the CRC32 trailer and all/strided payload bits of each "
              "segment are flipped one at a time: the connection must fail and only messages of earlier intact segments may be delivered.")
LEVEL_NOTE = ("Trusted base: spec/segments.py (own CRC-24/CRC-32, self-checked against zlib and single-bit detection), spec/frames.py. "
              "lz4 is absent in the sandbox: a zlib-based stand-in honouring the driver's compressor contract (4-byte BE length + block) is "
              "registered as segment_codec_lz4; the property concerns framing, not the LZ4 algorithm.")
WORKERS = 12
QUICK_WORKERS = 3


def _comp(data):
    return len(data).to_bytes(4, 'big') + zlib.compress(bytes(data), 1)


def _decomp(data):
    n = int.from_bytes(data[:4], 'big')
    out = zlib.decompress(bytes(data[4:]))
    if len(out) != n:
        raise ValueError("bad uncompressed length")
    return out


def run(ctx):
    from vlib import shim
    shim.import_cluster()
    from cassandra import protocol as P
    import cassandra.connection as C
    from cassandra.segment import SegmentCodec
    from sim.conn import make_classes
    from spec import frames as F, segments as SG
    BareConnection = make_classes()
    rng = ctx.rng
    ctx.count("spec_selfcheck_cases", SG.selfcheck())
    C.segment_codec_lz4 = SegmentCodec(_comp, _decomp)
    ctx.assume("lz4 absent: zlib-based stand-in registered as segment_codec_lz4 (driver compressor contract: 4-byte BE length + block)")
    ctx.rule = ("clean case = (message sizes, packing, codec, per-segment uncompressed choice, split); fault case = clean case + one flipped bit; "
                "distinct by (sizes, codec, segment layout, cuts, bit); non-trivial = a cut inside a segment or a flipped bit")
    V = 5
    SIZES_SMALL = [0, 1, 5, 40, 300]
    SIZES_BIG = [131071 - 9, 131071 - 8, 131072 - 9 + 1, 131072, 2 * 131071 - 9, 2 * 131071 - 8, 3 * 131072 + 5, 200000]

    def new_conn(compressed):
        """A connection in the v5 segment state, reached the way a real one gets there: directly, or through the driver's own
        handling of the server's answer to STARTUP (READY, or AUTHENTICATE followed by an AUTH_RESPONSE / AUTH_SUCCESS exchange that
        already travels in segments)."""
        conn = BareConnection('127.0.0.1', 9042, protocol_version=V)
        path = rng.choice(['direct', 'ready', 'auth'])
        ctx.count("connections_entering_segment_mode_via_" + path)
        if path == 'direct':
            if compressed:
                conn.compressor, conn.decompressor = _comp, _decomp
            conn._enable_checksumming()
            return conn
        conn._compressor = None                                             # what _handle_options_response leaves behind ...
        if compressed:
            conn._compressor, conn.decompressor = _comp, _decomp          # ... when a compression was agreed on
        if path == 'ready':
            conn._handle_startup_response(P.ReadyMessage())
            return conn
        from cassandra.auth import PlainTextAuthProvider
        conn.authenticator = PlainTextAuthProvider('u', 'p').new_authenticator('127.0.0.1')
        conn._handle_startup_response(P.AuthenticateMessage('org.apache.cassandra.auth.PasswordAuthenticator'))
        sent = b''.join(conn.sent)
        del conn.sent[:]
        try:
            segs = SG.decode_stream(sent, compressed, (lambda w, u: zlib.decompress(w)) if compressed else None)
            reqs = SG.frames_from_segments(segs)
            p = F.parse_request(reqs[0]) if reqs else None
            if p is None or p['op'] != 'AUTH_RESPONSE' or len(reqs) != 1:
                raise SG.SegmentError("expected one AUTH_RESPONSE, found %r" % ([F.parse_request(r)['op'] for r in reqs],))
        except (SG.SegmentError, F.FrameError) as e:
            ctx.violation("outgoing-segments-malformed", "independent decoder rejects the AUTH_RESPONSE the driver sent after AUTHENTICATE "
                          "(negotiated compression: %s): %s" % (compressed, e), {"compressed": compressed, "bytes": sent[:64]})
            return conn
        fr = F.response(V, p['stream'], 'AUTH_SUCCESS', F.body_auth_success(None))
        conn.feed(SG.encode_stream([fr], compressed, (lambda b: zlib.compress(b, 1)) if compressed else None, (lambda: False), (lambda i: True))[0])
        if conn.is_defunct or not conn.connected_event.is_set():
            ctx.violation("spurious-failure-on-valid-stream", "the AUTH_SUCCESS segment after AUTHENTICATE was not accepted (negotiated compression: "
                          "%s): defunct=%s last_error=%r" % (compressed, conn.is_defunct, conn.last_error), {"compressed": compressed})
        return conn

    def build(nmsg, big_p, compressed):
        conn = new_conn(compressed)
        log = []
        frames, contents = [], []
        for i in range(nmsg):
            with conn.lock:
                rid = conn.get_request_id()
                conn.in_flight += 1
            conn.send_msg(P.OptionsMessage(), rid, lambda m, rid=rid: log.append((rid, m)))
            size = rng.choice(SIZES_BIG) if rng.random() < big_p else rng.choice(SIZES_SMALL)
            if size == 0:
                fr = F.response(V, rid, 'READY', b'')
                contents.append((rid, 'ReadyMessage', None))
            else:
                tok = bytes(rng.getrandbits(8) for _ in range(min(size, 32))) + bytes([i]) * max(0, size - 32)
                fr = F.response(V, rid, 'AUTH_CHALLENGE', F.body_auth_challenge(tok))
                contents.append((rid, 'AuthChallengeMessage', tok))
            frames.append(fr)
        order = list(range(nmsg))
        rng.shuffle(order)
        frames = [frames[i] for i in order]
        contents = [contents[i] for i in order]
        # the driver's own outgoing segments must be readable by the independent decoder
        try:
            sent = b''.join(conn.sent)
            segs = SG.decode_stream(sent, compressed, (lambda w, u: zlib.decompress(w)) if compressed else None)
            reqs = SG.frames_from_segments(segs)
            for r in reqs:
                p = F.parse_request(r)
                if p['op'] != 'OPTIONS':
                    raise SG.SegmentError("unexpected request %s" % p['op'])
            if len(reqs) != nmsg:
                raise SG.SegmentError("%d requests sent but %d found in the segments" % (nmsg, len(reqs)))
            ctx.count("outgoing_segments_read_back", len(segs))
        except (SG.SegmentError, F.FrameError) as e:
            ctx.violation("outgoing-segments-malformed", "independent decoder rejects the driver's outgoing segments: %s" % e,
                          {"compressed": compressed, "bytes": sent[:64]})
        return conn, log, frames, contents

    def observed(log):
        out = []
        for rid, m in log:
            if isinstance(m, Exception):
                continue          # the connection failing its pending handlers (C10's concern), not a delivered message
            name = type(m).__name__
            out.append((rid if getattr(m, 'stream_id', rid) == rid else ('stream-mismatch', rid, m.stream_id), name,
                        getattr(m, 'challenge', None) if name == 'AuthChallengeMessage' else None))
        return out

    def encode(frames, compressed):
        pack_p = rng.random()
        unc_p = rng.choice([0.0, 0.3, 1.0]) if compressed else 0.0
        return SG.encode_stream(frames, compressed, (lambda b: zlib.compress(b, 1)) if compressed else None,
                                (lambda: rng.random() < unc_p), (lambda i: rng.random() < pack_p))

    def boundary_cuts(layout, total):
        cuts = []
        for s in layout:
            hl = s['header_len']
            pts = [s['start'] + 1, s['start'] + hl - 1, s['start'] + hl, s['start'] + hl + 1, s['start'] + hl + 3, s['start'] + hl + 4,
                   s['end'] - 5, s['end'] - 4, s['end'] - 3, s['end'] - 1, s['end']]
            cuts += rng.sample(pts, rng.randint(1, 4))
        return cuts

    def feed_all(conn, data, cuts):
        bounds = [0] + sorted(set(c for c in cuts if 0 < c < len(data))) + [len(data)]
        for a, b in zip(bounds, bounds[1:]):
            conn.feed(data[a:b])
            if conn.is_defunct or conn.is_closed:
                return b
        return len(data)

    budget = 50 if ctx.quick else 420
    n_clean = ctx.scale(1300, 90000)
    n_fault_streams = ctx.scale(55, 4000)

    # ---------------- clean streams
    for i in range(n_clean):
        if i % 16 == 0 and ctx.time_left(budget * 0.5) < 0:
            ctx.note("clean phase stopped by time budget after %d cases" % i)
            break
        compressed = rng.random() < 0.5
        nmsg = rng.randint(1, 6)
        conn, log, frames, contents = build(nmsg, 0.12 if ctx.quick else 0.25, compressed)
        data, layout = encode(frames, compressed)
        mode = rng.random()
        if mode < 0.15:
            cuts = []
        elif mode < 0.25 and len(data) < 400:
            cuts = list(range(1, len(data)))
        elif mode < 0.75:
            cuts = boundary_cuts(layout, len(data))
        else:
            cuts = [rng.randrange(1, max(2, len(data))) for _ in range(rng.randint(1, 8))] + list(range(4096, len(data), 4096))[:rng.choice([0, 0, 100])]
        cuts = sorted(set(c for c in cuts if 0 < c < len(data)))
        seg_ends = set(s['end'] for s in layout)
        inside = any(c not in seg_ends for c in cuts)
        sig = (tuple(len(f) for f in frames), compressed, tuple((s['start'], s['payload_len']) for s in layout), tuple(cuts))
        ctx.case(repr(sig), nontrivial=inside)
        ctx.count("clean_streams")
        ctx.count("segments_received", len(layout))
        if any(s['part_of'] is not None for s in layout):
            ctx.count("multi_segment_messages")
        wit = {"message_sizes": [len(f) for f in frames], "compressed_codec": compressed,
               "segments": [(s['start'], s['end'], s['frames'], s['part_of']) for s in layout][:20], "cuts": cuts[:40]}
        try:
            feed_all(conn, data, cuts)
        except Exception as e:
            ctx.violation("process-io-buffer-never-returns" if type(e).__name__ == 'NeverReturned' else "process-io-buffer-raises",
                          "feeding a valid segment stream raised %s: %s" % (type(e).__name__, e), wit)
            continue
        if conn.is_defunct:
            mech = "spurious-failure-on-valid-stream"
            unc = [s for s in layout if s['header_len'] == 5]
            if compressed and 'CRC mismatch' in str(conn.last_error):
                mech = "spurious-crc-error-uncompressed-segment-on-compressed-connection"
            ctx.violation(mech, "valid segment stream made the connection defunct: %r" % (conn.last_error,), wit)
            continue
        got = observed(log)
        if got != contents:
            k = next((j for j, (x, y) in enumerate(zip(got, contents)) if x != y), min(len(got), len(contents)))
            ctx.violation("delivered-messages-differ", "message %d: sent %s, delivered %s (of %d/%d)" % (
                k, repr(contents[k])[:80] if k < len(contents) else None, repr(got[k])[:80] if k < len(got) else None, len(got), len(contents)), wit)
            continue
        ctx.count("clean_streams_delivered_exactly")
        if len(ctx.samples) < 4 and inside and rng.random() < 0.02:
            ctx.sample(wit)

    # ---------------- single-bit corruption
    for i in range(n_fault_streams):
        if ctx.time_left(budget) < 0:
            ctx.note("fault phase stopped by time budget after %d streams" % i)
            break
        compressed = rng.random() < 0.5
        nmsg = rng.randint(1, 5)
        st = rng.getstate()
        conn, log, frames, contents = build(nmsg, 0.04, compressed)
        data, layout = encode(frames, compressed)
        st2 = rng.getstate()
        # frames wholly inside segments before segment k
        bits = []
        for k, s in enumerate(layout):
            hl = s['header_len']
            hdr_bits = range(s['start'] * 8, (s['start'] + hl + 3) * 8)
            tr_bits = range((s['end'] - 4) * 8, s['end'] * 8)
            pl_lo, pl_hi = (s['start'] + hl + 3) * 8, (s['end'] - 4) * 8
            npl = pl_hi - pl_lo
            pl_bits = range(pl_lo, pl_hi) if npl <= 2048 else rng.sample(range(pl_lo, pl_hi), 24)
            for b in itertools.chain(hdr_bits, tr_bits, pl_bits):
                bits.append((k, b))
        if len(bits) > (250 if ctx.quick else 3000):
            keep = [x for x in bits if rng.random() < (250 if ctx.quick else 3000) / len(bits)]
            bits = keep
        for (k, bit) in bits:
            rng.setstate(st)
            conn, log, frames, contents = build(nmsg, 0.04, compressed)
            rng.setstate(st2)
            bad = bytearray(data)
            bad[bit // 8] ^= 1 << (bit % 8)
            allowed = []
            for s in layout[:k]:
                allowed += s['frames']
            # a multi-segment message completed strictly before segment k is also deliverable
            for j in set(s['part_of'] for s in layout[:k] if s['part_of'] is not None):
                if all(idx < k for idx, s in enumerate(layout) if s['part_of'] == j):
                    allowed.append(j)
            allowed_contents = [contents[j] for j in sorted(set(allowed))]
            cuts = boundary_cuts(layout, len(data)) if rng.random() < 0.6 else []
            s = layout[k]
            region = 'header' if bit < (s['start'] + s['header_len']) * 8 else ('header_crc' if bit < (s['start'] + s['header_len'] + 3) * 8 else
                                                                                 ('payload_crc' if bit >= (s['end'] - 4) * 8 else 'payload'))
            ctx.case(repr((tuple(len(f) for f in frames), compressed, k, bit, tuple(cuts))), nontrivial=True)
            ctx.count("bit_flips_injected")
            ctx.count("bit_flips_in_" + region)
            wit = {"message_sizes": [len(f) for f in frames], "compressed_codec": compressed, "segment": k, "bit": bit, "region": region,
                   "segments": [(x['start'], x['end'], x['frames'], x['part_of']) for x in layout][:20]}
            try:
                feed_all(conn, bytes(bad), cuts)
            except Exception as e:
                ctx.violation("process-io-buffer-never-returns" if type(e).__name__ == 'NeverReturned' else "process-io-buffer-raises",
                              "feeding a corrupted stream raised %s: %s" % (type(e).__name__, e), wit)
                continue
            got = observed(log)
            if got != allowed_contents[:len(got)] or len(got) > len(allowed_contents):
                ctx.violation("corrupted-segment-data-delivered", "bit flip in %s of segment %d: delivered %s but only %s could be intact" % (
                    region, k, repr(got)[:200], repr(allowed_contents)[:200]), wit)
                continue
            if not conn.is_defunct:
                ctx.violation("corruption-not-detected", "bit flip in %s of segment %d did not fail the connection" % (region, k), wit)
                continue
            if 'CRC' in str(conn.last_error) or 'Crc' in type(conn.last_error).__name__:
                ctx.count("corruptions_detected_by_crc")
            else:
                ctx.count("corruptions_failed_connection_otherwise")
    ctx.floor_distinct = 1500 if ctx.quick else 30000
    ctx.floor_counters = {"clean_streams_delivered_exactly": 500, "bit_flips_injected": 3000, "corruptions_detected_by_crc": 3000,
                          "multi_segment_messages": 20, "outgoing_segments_read_back": 500}
