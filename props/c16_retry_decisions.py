"""C16 - retries do exactly what the retry policy decided.

Monitor: the real Cluster/Session/pool/Connection/ResponseFuture stack runs in the deterministic world against
2-4 scripted wire-level nodes.  The execution profile carries a fixed-order load-balancing policy (the plan of
every statement under test is a scripted arrangement of hosts), a recording ORACLE retry policy that answers every
consultation with a seeded-random decision (RETRY | RETRY_NEXT_HOST | RETHROW | IGNORE, consistency | None) and a
ConstantSpeculativeExecutionPolicy.  The nodes answer the statement with scripted sequences (<= 5) of read/write
timeout, unavailable, overloaded, is_bootstrapping, server, truncate errors and connection loss (reset / close).

Oracle: the node-side trace (host, consistency level of every message that arrived for the statement) and the
client outcome must equal what a small reference walk predicts by replaying the *logged* decisions over the plan;
the policy is consulted exactly once per error with retry_num == retries performed so far, the documented
consistency argument and the error's fields.  A speculative phase (first answer held while virtual time passes the
speculative delay several times) checks that a statement not marked idempotent never has a second execution in
flight, and that an idempotent one gets exactly the configured ones on the next hosts of the plan.  A third kind of
statement has two executions (the first and a speculative one) answered with errors in the same instant: the k-th
consultation must be told retry_num == k, the number of retries already decided, whatever the executor has sent so far.
"""
import random

PROPERTY = "C16"
LEVEL = "exploration"
ENGINE = "sim"
TECHNIQUE = "runtime monitor in a deterministic world: node-side (host, consistency) trace vs. replay of the logged decisions of a random oracle retry policy"
LEVEL_TEXT = ("Hundreds (quick) to tens of thousands (thorough) of seeded histories: 2-4 nodes, scripted plan order, QUERY / EXECUTE / BATCH "
              "statements, idempotent flag on/off with a speculative policy configured, error sequences of length <= 5 drawn from 9 failure "
              "kinds, every consultation answered by a random decision. Each message that reached a node and the final outcome are compared "
              "with the replay of the logged decisions. Held-on-observed histories; not exhaustive (the decision x error space is sampled).")
LEVEL_NOTE = ("Trusted base: sim/world.py, sim/node.py, spec/frames.py (independent request parser), the reference walk in this module. "
              "Reading used: RETRY targets the same host and falls through to the next host of the plan only when that host has no usable "
              "pool (which hosts have one is read from session._pools at quiescence before every statement; right after a connection loss "
              "both continuations are accepted, because a concurrent pool renewal may or may not have won). Time plays no role except in "
              "the speculative phase, where it is advanced explicitly (no timeout/response races: those belong to C14/C15).")
QUICK_WORKERS = 4
WORKERS = 14

SPEC_DELAY = 0.25


def reference_walk(order, dead, actions_meta, decisions, init_cl, nspec, observed=()):
    """Replay decisions over the plan.  dead = hosts without a usable pool when the statement starts (read from the session at
    quiescence).  observed = the node-side trace, consulted in exactly one situation: RETRY decided right after the connection to the
    current host was lost (whether that host still/again has a pool at that instant depends on the schedule: both continuations are legal).
    actions_meta[i] = what arrival i is answered with:
    ('ok', 'rows'|'void') | ('err', errgen-dict) | ('silent',).  decisions = list of (kind, cl) in consultation order
    (may be shorter than needed: then the walk stops with outcome ('undecided', index)).
    Returns dict(sends=[(host, cl)], consults=[dict(method, retry_num, consistency, fields, host)], outcome=..., dead=set)"""
    from sim.s2_common import RETRY, RETHROW, IGNORE, RETRY_NEXT_HOST, CONN_KINDS
    dead = set(dead)
    pos = [0]
    skipped = []

    def nxt():
        while pos[0] < len(order):
            h = order[pos[0]]
            pos[0] += 1
            if h in dead:
                skipped.append(h)
                continue
            return h
        return None

    sends, consults = [], []
    cl = init_cl
    retries = 0
    h = nxt()
    if h is None:
        return dict(sends=sends, consults=consults, outcome=('nohost',), dead=dead, skipped=skipped)
    sends.append((h, cl))
    first = 0
    for _ in range(nspec):
        h2 = nxt()
        if h2 is None:
            break
        sends.append((h2, cl))
    cur_host, cur_idx = h, first
    di = 0
    while True:
        meta = actions_meta[min(cur_idx, len(actions_meta) - 1)]
        if meta[0] == 'ok':
            return dict(sends=sends, consults=consults, outcome=('ok', meta[1], cur_host), dead=dead, skipped=skipped)
        if meta[0] == 'silent':
            return dict(sends=sends, consults=consults, outcome=('pending',), dead=dead, skipped=skipped)
        if meta[0] == 'unprepared':
            # the node does not know the statement: the driver prepares it there and sends the same EXECUTE again, same host, same
            # consistency level - no decision of the policy is involved, so this is not a retry the policy is told about
            sends.append((cur_host, cl))
            cur_idx = len(sends) - 1
            continue
        e = meta[1]
        if e['kind'] in CONN_KINDS:
            dead.add(cur_host)
        consults.append(dict(method=e['method'], retry_num=retries, consistency=e['consistency'] if e['consistency'] is not None else cl,
                             fields=e['fields'], host=cur_host))
        if di >= len(decisions):
            return dict(sends=sends, consults=consults, outcome=('undecided', di), dead=dead, skipped=skipped)
        kind, dcl = decisions[di]
        di += 1
        if kind == RETHROW:
            return dict(sends=sends, consults=consults, outcome=('rethrow', e), dead=dead, skipped=skipped)
        if kind == IGNORE:
            return dict(sends=sends, consults=consults, outcome=('ignore',), dead=dead, skipped=skipped)
        retries += 1
        if dcl is not None:
            cl = dcl
        if kind == RETRY and cur_host not in dead:
            nh = cur_host
        elif kind == RETRY and len(sends) < len(observed) and observed[len(sends)][0] == cur_host:
            nh = cur_host          # the pool was (re)created in time: same host is what RETRY asks for
            dead.discard(cur_host)
        else:
            nh = nxt()
        if nh is None:
            return dict(sends=sends, consults=consults, outcome=('nohost',), dead=dead, skipped=skipped)
        sends.append((nh, cl))
        cur_host, cur_idx = nh, len(sends) - 1


def run_history(seed):
    from sim.env import SimEnv
    from sim import world as W
    from sim.scen import Plan, Recorder, echoed_uid, uid_query
    from sim import s2_common as C
    from cassandra.cluster import ExecutionProfile, EXEC_PROFILE_DEFAULT, NoHostAvailable
    from cassandra.policies import ConstantSpeculativeExecutionPolicy, ConstantReconnectionPolicy
    from cassandra.query import SimpleStatement, BatchStatement

    rng = random.Random(seed)
    random.seed(seed)
    n = rng.choice([2, 3, 3, 4])
    addrs = ['127.0.0.%d' % (i + 1) for i in range(n)]
    proto = rng.choice([3, 4, 4, 4, 0x41, 0x42])
    ch = W.RandomChooser(random.Random(seed * 11 + 5), p_time=0.0, p_preempt=rng.choice([0.0, 0.0, 0.1, 0.3]))
    env = SimEnv(W.PrefixChooser([]), addresses=addrs)
    plan = Plan()
    for nd in env.net.nodes.values():
        nd.behaviour = plan.behaviour
    lbp = C.make_fixed_plan_policy()
    pol = C.make_oracle_retry_policy(random.Random(seed * 13 + 7))
    attempts = rng.choice([1, 2, 3])
    errgen = C.ErrGen(rng)
    viol, reqs = [], []
    with env:
        cluster = env.cluster(protocol_version=proto, reconnection_policy=ConstantReconnectionPolicy(5000.0),
                              execution_profiles={EXEC_PROFILE_DEFAULT: ExecutionProfile(
                                  load_balancing_policy=lbp, retry_policy=pol,
                                  speculative_execution_policy=ConstantSpeculativeExecutionPolicy(SPEC_DELAY, attempts))})
        session = C.connect_deterministically(env, cluster, ch)
        rec = Recorder(env.world)
        nreq = rng.randint(1, 3)
        for r in range(nreq):
            uid = r + 1
            with env.world.inspect():
                dead = C.unusable_addresses(session, lbp, addrs)
            order = rng.sample(addrs, rng.randint(1, n))
            idem = rng.random() < 0.5
            skind = rng.choice(['query', 'query', 'prepared', 'batch'])
            init_cl = rng.choice(C.CLS)
            nerr = rng.choice([0, 1, 1, 2, 2, 3, 3, 4, 5])
            kinds = [rng.choice(C.SERVER_KINDS * 2 + C.CONN_KINDS * 2) for _ in range(nerr)]
            final = rng.choice(['rows', 'void'])
            if skind == 'prepared' and len(dead) == len(addrs):
                skind = 'query'            # session.prepare itself needs a live host
            alive_in_order = [a for a in order if a not in dead]
            spec = (r == nreq - 1) and rng.random() < 0.5 and bool(alive_in_order)
            if (r == nreq - 1) and not spec and len(alive_in_order) >= 2 and rng.random() < 0.6:
                q = concurrent_errors(C, env, session, lbp, pol, plan, rec, rng, errgen, seed, r, uid, proto, n, order, dead, alive_in_order,
                                      attempts, init_cl, echoed_uid, uid_query, SimpleStatement)
                for mech, what in q.pop('violations'):
                    viol.append((mech, what, q))
                reqs.append(q)
                break
            if spec and kinds and kinds[0] in C.CONN_KINDS:
                kinds[0] = rng.choice(C.SERVER_KINDS)
            errs = [errgen.make(k) for k in kinds]
            nspec = 0
            if spec:
                nspec = min(attempts, len(alive_in_order) - 1) if idem else 0
                if errs:
                    a0 = errs[0]['action']
                    first_action = ('hold-error', a0[1], a0[2])
                    rest = [e['action'] for e in errs[1:]] + [final]
                    metas = [('err', errs[0])] + [('silent',)] * nspec + [('err', e) for e in errs[1:]] + [('ok', final)]
                else:
                    final = 'rows'
                    first_action = 'hold'
                    rest = [final]
                    metas = [('ok', final)] + [('silent',)] * nspec + [('ok', final)]
                actions = [first_action] + ['silent'] * nspec + rest
            else:
                actions = [e['action'] for e in errs] + [final]
                metas = [('err', e) for e in errs] + [('ok', final)]
                if skind == 'prepared':
                    # UNPREPARED -> re-prepare -> EXECUTE again round trips before / between the judged errors
                    for _ in range(rng.choice([0, 1, 1, 2])):
                        at = rng.randint(0, len(actions) - 1)
                        actions.insert(at, 'unprepared')
                        metas.insert(at, ('unprepared',))
            # ---- statement
            lbp.order = None
            # the flag of the statement that is EXECUTED decides; flags of related objects (the PreparedStatement behind a bound
            # statement, the statements inside a batch) are drawn independently, in both directions
            other_flag = rng.random() < 0.5
            flag_how = 'own'
            if skind == 'prepared':
                ps = session.prepare(uid_query(uid))
                env.world.settle(advance=False)
                flag_how = rng.choice(['prepared-flag-before-bind-then-own-set', 'prepared-flag-after-bind', 'inherited'])
                if flag_how == 'inherited':
                    other_flag = idem
                    ps.is_idempotent = idem
                    st = ps.bind(())
                elif flag_how == 'prepared-flag-before-bind-then-own-set':
                    ps.is_idempotent = other_flag
                    st = ps.bind(())
                    st.is_idempotent = idem
                else:
                    ps.is_idempotent = idem
                    st = ps.bind(())
                    ps.is_idempotent = other_flag
                st.consistency_level = init_cl
            elif skind == 'batch':
                st = BatchStatement(consistency_level=init_cl)
                st.add(SimpleStatement(uid_query(uid), is_idempotent=other_flag))
                st.is_idempotent = idem
            else:
                st = SimpleStatement(uid_query(uid), consistency_level=init_cl, is_idempotent=idem)
            if st.is_idempotent != idem:
                raise RuntimeError("harness: statement flag %r, wanted %r" % (st.is_idempotent, idem))
            plan.set(uid, list(actions))
            lbp.order = list(order)
            m_seen, m_log = len(plan.seen), len(pol.log)
            with env.world.inspect():       # callbacks registered before any answer can be processed
                rec.execute_async(session, uid, statement=st, timeout=60.0)
            env.world.settle(advance=False)
            phase = {}
            if spec:
                phase['before'] = [(s[0], s[5]) for s in plan.seen[m_seen:] if s[3] == uid]
                phase['consults_before'] = len([l for l in pol.log[m_log:] if l['query'] is st])
                env.world.advance_to(env.world.now + SPEC_DELAY * (attempts + 2) + 0.05)
                env.world.settle(advance=False)
                phase['after'] = [(s[0], s[5]) for s in plan.seen[m_seen:] if s[3] == uid]
                phase['outcomes_during'] = len(rec.outcomes(uid))
                for hld in list(env.net.held):
                    if not hld.done:
                        hld.release()
                env.world.settle(advance=False)
            lbp.order = None
            # ---- oracle for this request (main keeps the baton)
            with env.world.inspect():
                seen = [(s[0], s[5]) for s in plan.seen[m_seen:] if s[3] == uid]
                log = [l for l in pol.log[m_log:] if l['query'] is st]
                foreign = [l for l in pol.log[m_log:] if l['query'] is not st]
                outs = rec.outcomes(uid)
                ref = reference_walk(order, dead, metas, [l['decision'] for l in log], init_cl, nspec, seen)
                info = dict(seed=seed, request=r, proto=proto, nodes=n, order=order, dead_before=sorted(dead), statement=skind, idempotent=idem,
                            init_cl=init_cl, errors=kinds, final=final, speculative_phase=spec, spec_attempts=attempts,
                            unprepared_round_trips=sum(1 for m in metas if m[0] == 'unprepared'),
                            related_object_flag=other_flag if skind in ('prepared', 'batch') else None, flag_set=flag_how,
                            decisions=[(C.DECISION_NAMES.get(l['decision'][0]), l['decision'][1]) for l in log],
                            node_trace=seen, predicted_trace=ref['sends'], predicted_outcome=repr(ref['outcome'])[:120],
                            outcome=[(o[0], repr(o[3])[:160]) for o in outs])
                v = judge(C, ref, seen, log, outs, phase, spec, idem, nspec, order, uid, echoed_uid, NoHostAvailable, foreign)
                for mech, what in v:
                    viol.append((mech, what, info))
                reqs.append(info)
            if v:
                break          # the model's view of the pools is no longer trustworthy
        pol.closed = True
        harness = C.harness_problems(env)
        cluster.shutdown()
        env.world.settle()
    return viol, harness, reqs


def concurrent_errors(C, env, session, lbp, pol, plan, rec, rng, errgen, seed, r, uid, proto, n, order, dead, alive, attempts, init_cl,
                      echoed_uid, uid_query, SimpleStatement):
    """Two executions of one idempotent statement (the first and a speculative one) are answered with errors in the same virtual
    instant: both answers are released before anything else runs.  Reference: the policy is consulted once per error, the k-th
    consultation is told retry_num == k (retries already DECIDED for this execution, whether or not the executor has sent them yet);
    RETRY goes to the host whose error it was, RETRY_NEXT_HOST to the next unused plan hosts; the first retry's answer completes."""
    nspec = min(attempts, len(alive) - 1)
    inflight = alive[:1 + nspec]
    j = rng.randint(1, nspec)
    remaining = alive[1 + nspec:]
    kinds = rng.sample(C.SERVER_KINDS, 2)                      # two different kinds: consultations can be told apart
    errs = {0: errgen.make(kinds[0]), j: errgen.make(kinds[1])}
    acts = []
    for i in range(len(inflight)):
        if i in errs:
            a = errs[i]['action']
            acts.append(('hold-error', a[1], a[2]))
        else:
            acts.append('silent')
    plan.set(uid, acts + ['rows', 'silent', 'silent'])
    st = SimpleStatement(uid_query(uid), consistency_level=init_cl, is_idempotent=True)
    lbp.order = list(order)
    m_seen, m_log = len(plan.seen), len(pol.log)
    with env.world.inspect():
        rec.execute_async(session, uid, statement=st, timeout=60.0)
    env.world.settle(advance=False)
    env.world.advance_to(env.world.now + SPEC_DELAY * (attempts + 2) + 0.05)
    env.world.settle(advance=False)
    with env.world.inspect():
        before = [(s[0], s[5]) for s in plan.seen[m_seen:] if s[3] == uid]
        consults_before = len([l for l in pol.log[m_log:] if l['query'] is st])
    pol.window = dict(allowed=[C.RETRY, C.RETRY_NEXT_HOST] if len(remaining) >= 2 else [C.RETRY])
    for hld in list(env.net.held):                             # both error answers at once, nothing runs in between
        if not hld.done:
            hld.release()
    env.world.settle(advance=False)
    pol.window = None
    lbp.order = None
    v = []
    with env.world.inspect():
        seen = [(s[0], s[5]) for s in plan.seen[m_seen:] if s[3] == uid]
        log = [l for l in pol.log[m_log:] if l['query'] is st]
        outs = rec.outcomes(uid)
        q = dict(seed=seed, request=r, proto=proto, nodes=n, order=order, dead_before=sorted(dead), statement='query', idempotent=True,
                 init_cl=init_cl, errors=kinds, final='rows', speculative_phase=False, concurrent_errors=True, spec_attempts=attempts,
                 in_flight=inflight, hosts_answering_with_errors=[inflight[0], inflight[j]],
                 decisions=[(C.DECISION_NAMES.get(l['decision'][0]), l['decision'][1]) for l in log],
                 retry_nums=[l['retry_num'] for l in log], node_trace=seen, outcome=[(o[0], repr(o[3])[:160]) for o in outs])
        if before != [(h, init_cl) for h in inflight] or consults_before:
            v.append(('speculative-executions-not-on-next-plan-hosts', 'before any answer: %r (consultations %d), expected %r' % (before, consults_before, inflight)))
        elif len(log) != 2:
            v.append(('policy-consulted-more-than-once-per-error' if len(log) > 2 else 'policy-not-consulted-for-an-error',
                      '%d consultations for 2 errors delivered' % len(log)))
        else:
            owner = []
            for l in log:
                m = [i for i, e in errs.items() if e['method'] == l['method'] and l['fields'] == e['fields'] and
                     l['consistency'] == (e['consistency'] if e['consistency'] is not None else init_cl)]
                owner.append(m[0] if len(m) == 1 else None)
            if None in owner or owner[0] == owner[1]:
                v.append(('policy-error-fields-wrong', 'consultations %r do not correspond one-to-one to the two errors sent (%r)' % (
                    [(l['method'], l['consistency'], l['fields']) for l in log], kinds)))
            elif [l['retry_num'] for l in log] != [0, 1]:
                v.append(('retry-num-not-number-of-retries-performed',
                          'two errors judged back to back, both leading to a retry: retry_num passed %r, retries already decided [0, 1]' % (
                              [l['retry_num'] for l in log],)))
            else:
                nxt = list(remaining)
                exp = []
                for l, i in zip(log, owner):
                    exp.append(inflight[i] if l['decision'][0] == C.RETRY else nxt.pop(0))
                got = seen[len(inflight):]
                if sorted(h for h, _ in got) != sorted(exp):
                    v.append(('message-sent-to-host-not-decided', 'retries went to %r, the decisions %r over plan %r say %r' % (
                        [h for h, _ in got], q['decisions'], order, exp)))
                elif any(c != init_cl for _, c in got):
                    v.append(('consistency-level-not-as-decided', 'retries carried %r, decided: keep %r' % ([c for _, c in got], init_cl)))
                elif not outs:
                    v.append(('no-outcome-delivered', 'the statement never completed'))
                else:
                    rows = list(outs[0][3] or []) if outs[0][0] == 'cb' else []
                    if outs[0][0] != 'cb' or echoed_uid(rows) != uid or rows[0].node != got[0][0]:
                        v.append(('outcome-not-as-decided', 'expected the row of %s (first retry to arrive), got %r %r' % (got[0][0], outs[0][0], outs[0][3])))
    q['violations'] = v
    return q


def judge(C, ref, seen, log, outs, phase, spec, idem, nspec, order, uid, echoed_uid, NoHostAvailable, foreign):
    v = []
    exp = ref['sends']
    # -- speculative phase
    if spec:
        if not idem and len(phase['after']) > 1:
            v.append(('speculative-execution-of-non-idempotent-statement',
                      'statement not marked idempotent: %d messages reached nodes %r while the first answer was still outstanding' % (
                          len(phase['after']), phase['after'])))
            return v
        if phase['consults_before'] or phase['outcomes_during']:
            v.append(('decision-before-any-error', 'retry policy consulted / outcome delivered while every answer was still held'))
            return v
        if phase['after'] != exp[:1 + nspec]:
            v.append(('speculative-executions-not-on-next-plan-hosts',
                      'idempotent=%s: messages while the first answer was held %r, expected %r' % (idem, phase['after'], exp[:1 + nspec])))
            return v
    # -- consultations
    exc = ref['consults']
    for i in range(min(len(exc), len(log))):
        e, l = exc[i], log[i]
        if l['method'] != e['method']:
            v.append(('policy-method-does-not-match-error', 'consultation %d: %s called for an error that maps to %s' % (i, l['method'], e['method'])))
            return v
        if l['retry_num'] != e['retry_num']:
            v.append(('retry-num-not-number-of-retries-performed',
                      'consultation %d (%s): retry_num=%r but %d retries had been performed' % (i, l['method'], l['retry_num'], e['retry_num'])))
            return v
        if l['consistency'] != e['consistency']:
            v.append(('policy-consistency-argument-wrong',
                      'consultation %d (%s): consistency=%r, expected %r' % (i, l['method'], l['consistency'], e['consistency'])))
            return v
        if l['fields'] != e['fields']:
            v.append(('policy-error-fields-wrong', 'consultation %d (%s): fields %r, expected %r' % (i, l['method'], l['fields'], e['fields'])))
            return v
    if ref['outcome'][0] == 'undecided':
        v.append(('policy-not-consulted-for-an-error', 'error number %d reached the client but the retry policy was consulted only %d times' % (
            ref['outcome'][1] + 1, len(log))))
        # fall through: the trace comparison below usually tells what happened instead
    elif len(log) != len(exc):
        v.append(('policy-consulted-more-than-once-per-error', '%d consultations for %d errors delivered' % (len(log), len(exc))))
        return v
    # -- node-side trace
    if seen != exp:
        k = 0
        while k < min(len(seen), len(exp)) and seen[k] == exp[k]:
            k += 1
        if k < len(seen) and k < len(exp):
            if seen[k][0] != exp[k][0]:
                v.append(('message-sent-to-host-not-decided', 'message %d went to %s, the decisions replayed over plan %r say %s' % (
                    k, seen[k][0], order, exp[k][0])))
            else:
                v.append(('consistency-level-not-as-decided', 'message %d to %s carried consistency %r, decided %r' % (k, seen[k][0], seen[k][1], exp[k][1])))
        elif k < len(seen):
            v.append(('message-sent-beyond-decisions', 'extra message %d to %s (cl %r): the decisions end after %d messages' % (k, seen[k][0], seen[k][1], len(exp))))
        else:
            v.append(('decided-retry-not-sent', 'only %d messages reached nodes, the decisions call for %d (next: %r)' % (len(seen), len(exp), exp[k])))
        return v
    if v:
        return v
    # -- outcome
    oc = ref['outcome']
    if not outs:
        v.append(('no-outcome-delivered', 'the statement never completed; predicted %r' % (oc,)))
        return v
    o = outs[0]
    if oc[0] == 'ok':
        if o[0] != 'cb':
            v.append(('outcome-not-as-decided', 'expected a result from %s, got %r' % (oc[2], o[3])))
        elif oc[1] == 'rows':
            rows = list(o[3] or [])
            if echoed_uid(rows) != uid or getattr(rows[0], 'node', None) != oc[2]:
                v.append(('outcome-not-as-decided', 'expected the row of %s, got %r' % (oc[2], rows)))
        elif o[3] is not None:
            v.append(('outcome-not-as-decided', 'expected a void result, got %r' % (o[3],)))
    elif oc[0] == 'ignore':
        if o[0] != 'cb' or o[3]:
            v.append(('ignore-decision-not-an-empty-result', 'IGNORE decided, outcome %r %r' % (o[0], o[3])))
    elif oc[0] == 'rethrow':
        if o[0] != 'eb' or not C.rethrown_matches(oc[1], o[3]):
            v.append(('rethrow-decision-not-the-servers-error', 'RETHROW decided for %s, outcome %r %r' % (oc[1]['kind'], o[0], o[3])))
    elif oc[0] == 'nohost':
        if o[0] != 'eb' or not isinstance(o[3], NoHostAvailable):
            v.append(('plan-exhaustion-not-reported', 'plan exhausted, outcome %r %r' % (o[0], o[3])))
    return v


def run(ctx):
    from vlib import shim
    shim.import_cluster()
    from vlib.run import Inconclusive
    from sim.world import WorldLimit
    ctx.rule = ("a case is one statement execution inside a seeded history: (statement kind, idempotent flag, plan arrangement over 2-4 hosts, "
                "hosts already lost, scripted failure sequence, speculative phase y/n, the decisions the oracle policy drew); distinct by that "
                "tuple; non-trivial = the policy was consulted at least once or a speculative phase ran")
    ctx.assume("RETRY means: same host again; only if that host has no usable pool any more (its connection was lost: the default conviction "
               "policy marks it down and the session drops the pool) the request moves on along the plan, like RETRY_NEXT_HOST")
    ctx.assume("on_request_error is told the consistency level of the failed message; on_read_timeout/on_write_timeout/on_unavailable are told "
               "the level reported by the coordinator in the error")
    ctx.assume("no client timeouts and no timeout/response races here (C14/C15); virtual time only moves in the speculative phase, and the "
               "statement with a speculative phase is the last one of its history")
    n = ctx.scale(900, 70000)
    budget = 35 if ctx.quick else 300
    base = ctx.seed * 1000003 + (ctx.worker or 0) * 100003
    # the time budget bounds the run on a normal machine; on an overloaded one the floors are still reached (count first, capped)
    min_here = -(-240 // max(1, ctx.nworkers))
    for i in range(n):
        if ctx.time_left(budget) < 0 and (i >= min_here or ctx.time_left(budget * (5 if ctx.quick else 2)) < 0):
            ctx.note("stopped by time budget after %d histories" % i)
            break
        seed = base + i
        try:
            viol, harness, reqs = run_history(seed)
        except WorldLimit:
            ctx.count("histories_over_budget")
            continue
        except Exception as e:
            import traceback
            raise Inconclusive("history seed %d failed in the harness: %s: %s\n%s" % (seed, type(e).__name__, e, traceback.format_exc()[-1200:]))
        if harness:
            raise Inconclusive("harness error in history seed %d: %r" % (seed, harness[:2]))
        ctx.count("histories")
        for q in reqs:
            key = (q['statement'], q['idempotent'], q['nodes'], tuple(q['order']), tuple(q['dead_before']), tuple(q['errors']), q['final'],
                   q['speculative_phase'], tuple(q['decisions']), q['init_cl'])
            ctx.case(repr(key), nontrivial=bool(q['decisions']) or q['speculative_phase'])
            ctx.count("statements_executed")
            ctx.count("policy_consultations_checked", len(q['decisions']))
            ctx.count("node_messages_compared", len(q['node_trace']))
            for d in q['decisions']:
                ctx.count("decisions_" + d[0])
            if q['speculative_phase']:
                ctx.count("speculative_phases_idempotent" if q['idempotent'] else "speculative_phases_non_idempotent")
                if q.get('related_object_flag') is not None and q['related_object_flag'] != q['idempotent']:
                    ctx.count("speculative_phases_where_related_object_flag_differs_" + ("statement_idempotent" if q['idempotent'] else "statement_not_idempotent"))
            if q.get('concurrent_errors'):
                ctx.count("statements_with_two_errors_judged_back_to_back")
            if q.get('unprepared_round_trips') and q['decisions']:
                ctx.count("statements_with_reprepare_round_trip_and_judged_errors")
            if any(k in ('reset', 'close') for k in q['errors']):
                ctx.count("statements_with_connection_loss")
            if len(ctx.samples) < 4 and len(q['decisions']) >= 3:
                ctx.sample(q)
        seen = set()
        for mech, what, info in viol:
            if mech in seen:
                continue
            seen.add(mech)
            ctx.violation(mech, "%s [seed %d, request %d]" % (what, seed, info['request']), info)
    ctx.floor_distinct = 200 if ctx.quick else 8000
    ctx.floor_counters = {"histories": 150, "policy_consultations_checked": 400, "node_messages_compared": 800,
                          "speculative_phases_non_idempotent": 20, "speculative_phases_idempotent": 20,
                          "decisions_RETRY": 50, "decisions_RETRY_NEXT_HOST": 50, "decisions_RETHROW": 20, "decisions_IGNORE": 20,
                          "statements_with_connection_loss": 30, "statements_with_two_errors_judged_back_to_back": 20,
                          "statements_with_reprepare_round_trip_and_judged_errors": 20,
                          "speculative_phases_where_related_object_flag_differs_statement_not_idempotent": 10,
                          "speculative_phases_where_related_object_flag_differs_statement_idempotent": 10}
