"""C08 - partition tokens equal those of Cassandra's partitioners.

Monitor: for every generated key the value the real token classes compute
(``Murmur3Token / MD5Token / BytesToken .from_key(k).value`` and ``hash_fn(k)``) is compared
with the independent implementations in ``spec/murmur.py`` (Cassandra's
``MurmurHash.hash3_x64_128`` with sign-extended tail bytes, ``Long.MIN_VALUE -> MAX_VALUE``),
``spec/md5tok.py`` (``new BigInteger(md5).abs()``) and identity.
"""
import itertools

PROPERTY = "C08"
LEVEL = "exploration"
ENGINE = "spec"
TECHNIQUE = "differential oracle: independent Murmur3Partitioner / RandomPartitioner token implementations"
LEVEL_TEXT = ("exhaustive over all 1- and 2-byte keys and over every tail position x {00,01,7f,80,ff} for lengths 0..48, "
              "seeded random keys to 1 KiB; every key judged against an independent implementation; the MIN_LONG corner is "
              "reached both with real keys constructed by inverting the hash and by substituting the hash result. A pure function of the input, so input exploration is the right level.")
LEVEL_NOTE = ("trusted base: spec/murmur.py (validated on canonical MurmurHash3 vectors and Cassandra token vectors), "
              "spec/md5tok.py (RFC 1321 vectors), hashlib.md5; the C extension cmurmur3 is not built in this tree (C07 covers it)")
QUICK_WORKERS = 2
WORKERS = 12

POOL = (0x00, 0x01, 0x7F, 0x80, 0xFF)


class Judge(object):
    def __init__(self, ctx):
        import cassandra.metadata as md
        import cassandra.murmur3 as m3
        from spec import murmur, md5tok
        self.ctx = ctx
        self.md = md
        self.m3 = m3
        self.murmur = murmur
        self.md5tok = md5tok
        self.hashers = [("metadata.murmur3", None)]
        self.seen_tail = set()

    # -- one key, all three partitioners ---------------------------------------------
    def key(self, k, origin):
        ctx, md = self.ctx, self.md
        n = len(k)
        if n == 0:
            # Cassandra maps the empty key to the MINIMUM token of the partitioner and refuses
            # it as a partition key; only the raw hash is compared.
            ctx.case(("key", b""), nontrivial=False)
            h = md.murmur3(b"")
            ctx.count("empty_key_hash_comparisons")
            if int(h) != self.murmur.hash_long(b""):
                ctx.violation("murmur3-hash-mismatch", "murmur3(b'') = %r, Cassandra's hash3_x64_128 gives %r" % (
                    h, self.murmur.hash_long(b"")), {"key": b"", "origin": origin})
            return
        ctx.case(k, nontrivial=True)
        tail = k[(n >> 4) << 4:]
        self.seen_tail.add(len(tail))
        if any(b & 0x80 for b in tail):
            ctx.count("keys_with_tail_byte_ge_0x80")
        want = self.murmur.token(k)
        got = md.Murmur3Token.from_key(k).value
        got2 = md.Murmur3Token.hash_fn(k)
        ctx.count("murmur3_comparisons")
        if got != want or got2 != want or type(got) is not int:
            unsigned = self.murmur.normalize(self.murmur.to_signed64(self.murmur.hash3_x64_128(k, 0, False)[0]))
            if got == unsigned and any(b & 0x80 for b in tail):
                mech = "murmur3-tail-bytes-not-sign-extended"
            elif self.murmur.hash_long(k) == self.murmur.MIN_LONG:
                mech = "murmur3-key-hashing-to-min-long-not-mapped-to-max-long"
            elif len(tail) == 0:
                mech = "murmur3-body-mismatch"
            else:
                mech = "murmur3-token-mismatch"
            ctx.violation(mech, "Murmur3Token.from_key(%d bytes, tail %d).value = %r (hash_fn %r), Cassandra assigns %r" % (
                n, len(tail), got, got2, want), {"key": k, "len": n, "tail_len": len(tail), "driver": got, "spec": want,
                                                 "origin": origin})
        want5 = self.md5tok.token(k)
        got5 = md.MD5Token.from_key(k).value
        got5b = md.MD5Token.hash_fn(k)
        ctx.count("md5_comparisons")
        if got5 != want5 or got5b != want5:
            mech = "md5-token-not-absolute" if got5 == -want5 else "md5-token-mismatch"
            ctx.violation(mech, "MD5Token.from_key(%d bytes).value = %r, RandomPartitioner assigns %r" % (n, got5, want5),
                          {"key": k, "driver": got5, "spec": want5, "origin": origin})
        gotb = md.BytesToken.from_key(k).value
        ctx.count("bytes_comparisons")
        if gotb != k or md.BytesToken.hash_fn(k) != k:
            ctx.violation("bytes-token-not-identity", "BytesToken.from_key(%r).value = %r" % (k[:24], gotb),
                          {"key": k, "driver": gotb, "origin": origin})

    # -- MIN_LONG -> MAX_LONG -------------------------------------------------------
    def forced_hash(self, k, forced):
        md = self.md
        orig = md.murmur3
        calls = []

        def fake(data):
            calls.append(data)
            return forced
        md.murmur3 = fake
        try:
            got = md.Murmur3Token.from_key(k).value
            got2 = md.Murmur3Token.hash_fn(k)
        finally:
            md.murmur3 = orig
        want = self.murmur.normalize(forced)
        self.ctx.case(("forced", forced, k), nontrivial=True)
        self.ctx.count("forced_hash_substitutions")
        if not calls:
            raise_inconclusive("Murmur3Token.hash_fn no longer calls cassandra.metadata.murmur3; substitution point moved")
        if forced == self.murmur.MIN_LONG:
            self.ctx.count("min_long_mappings_observed")
        if got != want or got2 != want:
            mech = "murmur3-min-long-not-mapped-to-max-long" if forced == self.murmur.MIN_LONG else "murmur3-token-differs-from-hash"
            self.ctx.violation(mech, "hash %d gives token %r (hash_fn %r), Murmur3Partitioner.normalize gives %d" % (
                forced, got, got2, want), {"forced_hash": forced, "driver": got, "spec": want})


def raise_inconclusive(why):
    from vlib.run import Inconclusive
    raise Inconclusive(why)


def structured_keys(rng, lengths, pair_budget):
    """Keys of the given lengths: every tail position (and pairs of positions) takes every pool value."""
    for n in lengths:
        nb = n >> 4
        t = n & 15
        for fill in POOL:
            yield bytes([fill]) * n
        if n == 0:
            continue
        base_variants = [bytes(rng.getrandbits(8) for _ in range(n)), bytes([0x00]) * n, bytes([0xFF]) * n,
                         bytes([0x7F]) * n, bytes([0x80]) * n]
        # single positions: every byte of the key (body and tail)
        for base in base_variants:
            for p in range(n):
                for v in POOL:
                    b = bytearray(base)
                    b[p] = v
                    yield bytes(b)
        # full product over short tails
        if 0 < t <= 4:
            body = bytes(rng.getrandbits(8) for _ in range(nb << 4))
            for combo in itertools.product(POOL, repeat=t):
                yield body + bytes(combo)
        # pairs of tail positions
        if t >= 2:
            pairs = list(itertools.combinations(range(t), 2))
            rng.shuffle(pairs)
            for (p, q) in pairs[:pair_budget]:
                base = bytearray(rng.getrandbits(8) for _ in range(n))
                for v in POOL:
                    for w in POOL:
                        b = bytearray(base)
                        b[(nb << 4) + p] = v
                        b[(nb << 4) + q] = w
                        yield bytes(b)


def random_key(rng):
    r = rng.random()
    if r < 0.35:
        n = rng.randint(1, 64)
    elif r < 0.8:
        n = rng.randint(1, 1024)
    else:
        n = rng.choice([15, 16, 17, 31, 32, 33, 47, 48, 49, 63, 64, 65, 255, 256, 257, 1023, 1024]) + rng.randint(-1, 1) * rng.randint(0, 1)
        n = max(1, min(1024, n))
    style = rng.random()
    if style < 0.6:
        return rng.getrandbits(8 * n).to_bytes(n, "little")
    if style < 0.8:
        return bytes(rng.choice(POOL) for _ in range(n))
    if style < 0.9:
        return bytes(rng.randint(0x80, 0xFF) for _ in range(n))
    return bytes(rng.randint(0x20, 0x7E) for _ in range(n))


def run(ctx):
    from vlib.run import Inconclusive
    from spec import murmur, md5tok
    bad = murmur.self_check() + md5tok.self_check()
    if bad:
        raise Inconclusive("trusted base disagrees with its own vectors: %r" % (bad[:3],))
    import cassandra.murmur3 as m3
    import cassandra.metadata as md
    ctx.rule = ("all 1- and 2-byte keys; lengths 0..48 with every byte position (and pairs / short products of tail positions) "
                "set to each of {00,01,7f,80,ff} over 5 base fills; seeded random keys to 1 KiB (uniform, pool-valued, "
                "all-high, ASCII); real keys constructed (hash inverted over the last block, prefixes of 0-3 blocks) to hash to Long.MIN_VALUE, "
                "MIN+1, MAX, MAX-1, -1, 0, 1, +-2**62 ... ; distinct = the key bytes; the empty key (not a legal partition key) is the only trivial case")
    if md.murmur3 is None:
        raise Inconclusive("cassandra.metadata.murmur3 is None: no murmur3 implementation importable")
    if m3.murmur3 is m3._murmur3:
        ctx.assume("cmurmur3 (C extension) is not built in this tree: the pure-Python cassandra.murmur3._murmur3 is what runs; "
                   "the compiled implementation is compared in C07")
        ctx.count("implementation_pure_python", 1)
    else:
        ctx.count("implementation_c_extension", 1)
    ctx.assume("the empty key is excluded from token comparison: Cassandra assigns it the partitioner's MINIMUM token and "
               "rejects it as a partition key ('Key may not be empty'); only its raw hash is compared")
    rng = ctx.rng
    j = Judge(ctx)
    w = ctx.worker or 0
    nw = max(1, ctx.nworkers)

    # the spec vectors through the driver as well
    for data, tok in murmur.TOKEN_VECTORS:
        j.key(data, "vector")
    for data, _tok in md5tok.VECTORS:
        j.key(data, "vector")

    # (a) exhaustive small keys, split over workers
    i = 0
    for a in range(256):
        if i % nw == w:
            j.key(bytes([a]), "exhaustive-1")
        i += 1
    for a in range(256):
        if a % nw != w:
            continue
        for b in range(256):
            j.key(bytes([a, b]), "exhaustive-2")
    ctx.count("exhaustive_small_keys_done", 1)

    # (b) structured tails, lengths 0..48 (every worker takes a slice of the lengths)
    lengths = [n for n in range(0, 49) if n % nw == w]
    for k in structured_keys(rng, lengths, pair_budget=ctx.scale(12, 10 ** 6)):
        j.key(k, "structured")
    # every worker also visits a few whole lengths so that each tail size 0..15 is seen in each process
    for k in structured_keys(rng, [rng.choice([t, 16 + t, 32 + t]) for t in range(16)], pair_budget=2):
        j.key(k, "structured")

    # (c) random keys
    for _ in range(ctx.scale(20000, 3000000)):
        j.key(random_key(rng), "random")

    # (d) MIN_LONG corner through substitution of the hash the token class calls
    forced_pool = [murmur.MIN_LONG, murmur.MIN_LONG + 1, murmur.MAX_LONG, murmur.MAX_LONG - 1, -1, 0, 1]
    for forced in forced_pool:
        for k in (b"k", b"\x80", b"0123456789abcdef0", random_key(rng)):
            j.forced_hash(k, forced)
    for _ in range(200):
        j.forced_hash(random_key(rng), rng.choice([murmur.MIN_LONG, rng.randint(murmur.MIN_LONG, murmur.MAX_LONG)]))

    # (e) REAL keys whose raw hash is an edge value, through the real hash (no substitution): the hash
    #     is inverted over the last 16-byte block for any 16n-byte prefix (spec.murmur.key_with_hash)
    edge_targets = [murmur.MIN_LONG, murmur.MIN_LONG, murmur.MIN_LONG + 1, murmur.MAX_LONG, murmur.MAX_LONG - 1, -1, 0, 1,
                    -(1 << 62), 1 << 62, -(1 << 32), (1 << 32) - 1]
    prefixes = [b"", b"tenant-0042:user", b"\x00" * 16, b"\xff" * 16, b"\x80" * 32, b"0123456789abcdef" * 2]
    for rep in range(ctx.scale(40, 4000)):
        for tgt in edge_targets:
            if rep < len(prefixes):
                pre = prefixes[rep]
            else:
                pre = rng.getrandbits(8 * 16 * rng.choice([0, 1, 2, 3])).to_bytes(16 * 3, "little")
                pre = pre[:16 * rng.choice([0, 1, 2, 3])]
            k = murmur.key_with_hash(tgt, pre, rng.getrandbits(64))
            if murmur.hash_long(k) != tgt:
                raise Inconclusive("spec.murmur.key_with_hash produced a key with another hash")
            ctx.count("real_keys_with_chosen_edge_hash")
            if tgt == murmur.MIN_LONG:
                ctx.count("real_keys_hashing_to_min_long")
            j.key(k, "inverted-hash")
            raw = md.murmur3(k)
            if int(raw) != tgt:
                ctx.violation("murmur3-hash-mismatch-at-edge-value", "murmur3(key) = %r, Cassandra's hash3_x64_128 gives %d" % (raw, tgt),
                              {"key": k, "driver_hash": raw, "spec_hash": tgt})
    for _ in range(ctx.scale(300, 30000)):
        tgt = rng.choice([rng.randint(murmur.MIN_LONG, murmur.MAX_LONG), murmur.MIN_LONG + rng.randint(0, 3), murmur.MAX_LONG - rng.randint(0, 3),
                          rng.randint(-3, 3)])
        k = murmur.key_with_hash(tgt, rng.getrandbits(8 * 48).to_bytes(48, "little")[:16 * rng.randint(0, 3)], rng.getrandbits(64))
        ctx.count("real_keys_with_chosen_edge_hash")
        if tgt == murmur.MIN_LONG:
            ctx.count("real_keys_hashing_to_min_long")
        j.key(k, "inverted-hash")

    if j.seen_tail != set(range(16)):
        raise Inconclusive("tail sizes seen: %s" % sorted(j.seen_tail))
    ctx.count("tail_sizes_covered", 16)
    ctx.sample({"key": b"\xfe" * 8, "murmur3_token": md.Murmur3Token.from_key(b"\xfe" * 8).value,
                "md5_token": md.MD5Token.from_key(b"\xfe" * 8).value})
    ctx.sample({"key": b"\x80\xff\x7f", "murmur3_token": md.Murmur3Token.from_key(b"\x80\xff\x7f").value,
                "spec": murmur.token(b"\x80\xff\x7f")})
    ctx.floor_distinct = 60000 if ctx.quick else 2000000
    ctx.floor_counters = {"murmur3_comparisons": 60000, "md5_comparisons": 60000, "bytes_comparisons": 60000,
                          "keys_with_tail_byte_ge_0x80": 20000, "min_long_mappings_observed": 4,
                          "real_keys_hashing_to_min_long": 50, "real_keys_with_chosen_edge_hash": 500,
                          "forced_hash_substitutions": 100}
